#!/bin/sh
# Build the framework from files on disk only (offline): generated Lean, proofs, drivers, harness.
set -e
cd "$(dirname "$0")"
export CARGO_NET_OFFLINE=true
python3 tools/rs2lean.py --repo "${VERIF_REPO:-/repo}" || true
( cd lean && lake build VhostModel driver specdriver ) || true
( cd harness && [ -f Cargo.lock ] || cp "${VERIF_REPO:-/repo}/Cargo.lock" . ; cargo build --release --offline )
[ -f tools/build_extra.sh ] && sh tools/build_extra.sh || true
echo setup done
