"""Families built with the C18 machinery that other properties' checks add to their FAMILIES:

  ProxyPeerMut   -> C06 (proxy accepts only the matching acknowledgement), C09 (descriptors on acknowledgements do not leak)
  BeSrvMalformed -> C06 (frontend's request server: handler only for well-formed requests), C09 (0..40 descriptors on arbitrary streams)
  GpuFamily      -> C06 (GPU proxy reply readers), C01 (GPU request bytes / header flags)
  ProxyPeer      -> C01 (bytes and descriptors the backend->frontend proxy writes)
  BeSrvWf        -> C01 (acknowledgement bytes; decode direction: Spec-encoded requests -> values the handler sees)
  ProxyGate      -> C07 (proxy refuses shared-object / shared-memory requests until enabled)
"""
from . import common as C
from .family import Family
from .c18 import ProxyFamily, BeSrvFamily, hdr, le

U32 = [0, 1, 2, 0xf, 0x10, 0xff, 0x280, 0x1e0, 0x780, 0x438, 0xffff, 0x10000, 2**31 - 1, 2**31, 2**32 - 2, 2**32 - 1]


class ProxyPeerMut(ProxyFamily):
    def __init__(self, quick=2500, thorough=40000):
        super().__init__(modes=("mut",), quick=(0, 0, 0, quick), thorough=(0, 0, 0, thorough))

    def nontrivial(self, line, obs):
        return "then-close" in line


class ProxyPeer(ProxyFamily):
    def __init__(self, quick=1500, thorough=30000):
        super().__init__(modes=("peer",), quick=(0, 0, quick, 0), thorough=(0, 0, thorough, 0))


class ProxyGate(ProxyFamily):
    def __init__(self, quick=600, thorough=6000):
        super().__init__(modes=("gate",), quick=(0, quick, 0, 0), thorough=(0, thorough, 0, 0))


class BeSrvMalformed(BeSrvFamily):
    def __init__(self, quick=3000, thorough=60000):
        super().__init__(modes=("malformed",), quick=(0, quick), thorough=(0, thorough))


class BeSrvWf(BeSrvFamily):
    def __init__(self, quick=1500, thorough=30000):
        super().__init__(modes=("wf",), quick=(quick, 0), thorough=(thorough, 0))


# ------------------------------------------------------------------------------------------------- GPU channel
# vhost-user-gpu request codes
GPU = {"get_protocol_features": 1, "set_protocol_features": 2, "get_display_info": 3, "cursor_pos": 4, "cursor_pos_hide": 5,
       "cursor_update": 6, "set_scanout": 7, "update_scanout": 8, "set_dmabuf_scanout": 9, "update_dmabuf_scanout": 10,
       "get_edid": 11, "set_dmabuf_scanout2": 12}
# methods that read a reply and the size of the reply payload
REPLY_SIZE = {"get_protocol_features": 8, "get_display_info": 408, "get_edid": 1056, "update_dmabuf_scanout": 0}
NFIELDS = {"get_protocol_features": 0, "set_protocol_features": 0, "get_display_info": 0, "cursor_pos": 3, "cursor_pos_hide": 3,
           "cursor_update": 5, "set_scanout": 3, "update_scanout": 5, "set_dmabuf_scanout": 10, "update_dmabuf_scanout": 5,
           "get_edid": 1, "set_dmabuf_scanout2": 10}


def gpu_op(rng, name=None):
    name = name or rng.choice(sorted(GPU) + ["get_protocol_features", "get_display_info", "get_edid", "update_dmabuf_scanout"] * 2)
    n = NFIELDS[name]
    f = ",".join(f"{rng.choice(U32 + [rng.getrandbits(32)]):x}" for _ in range(n)) if n else "-"
    op = f"{name} {f}"
    if name == "set_protocol_features":
        op += f" v={rng.choice(C.U64 + [rng.getrandbits(64)]):x}"
    if name == "set_dmabuf_scanout2":
        op += f" m={rng.choice(C.U64 + [rng.getrandbits(64)]):x}"
    if name in ("set_dmabuf_scanout", "set_dmabuf_scanout2") and rng.random() < 0.7:
        op += " fd=1"
    if name == "update_scanout":
        r = rng.random()
        if r < 0.25:
            op += " d=-"
        elif r < 0.6:
            op += " d=" + bytes(rng.getrandbits(8) for _ in range(rng.choice([1, 4, 16, 64, 400]))).hex()
        else:
            op += f" d=pat:{rng.choice([0x1000, 0x1001, 0xfec, 0xfed, 0x2000, 0x10000]):x}:{rng.getrandbits(8):x}:{rng.getrandbits(8):x}"
    if name == "cursor_update":
        op += f" d=pat:4000:{rng.getrandbits(8):x}:{rng.getrandbits(8):x}"
    return op, name


def gpu_reply(rng, name, code=None, flags=4, size=None, nfds=0):
    n = REPLY_SIZE[name]
    if name == "get_protocol_features":
        body = le(rng.choice([0, 1, 2, 3, 2**63, 2**64 - 1, rng.getrandbits(64)]), 8)
    elif n:
        body = bytes(rng.getrandbits(8) if rng.random() < 0.3 else 0 for _ in range(n)).hex()
    else:
        body = ""
    return hdr(GPU[name] if code is None else code, flags, n if size is None else size), body, nfds


def mutate_gpu_reply(rng, name):
    code, flags, size, nfds = GPU[name], 4, None, 0
    h, body, _ = gpu_reply(rng, name)
    b = bytearray(bytes.fromhex(body))
    m = rng.choice(["code", "reply", "flagbit", "flagbit", "size", "body", "fds", "trunc", "extend", "random"])
    if m == "code":
        code = rng.choice([c for c in [0, 1, 3, 10, 11, 12, 13, 44, 2**32 - 1] if c != code])
    elif m == "reply":
        flags = 0
    elif m == "flagbit":
        flags = 4 | (1 << rng.choice([0, 1, 3, 4, 16, 31]))
    elif m == "size":
        size = rng.choice([0, 1, len(b) + 1, 0x1000, 0x1001, 2**32 - 1])
    elif m == "body" and b:
        k = rng.randrange(len(b))
        b[k] = (b[k] + rng.choice([1, 0x80, 0xff])) & 0xff
    elif m == "fds":
        nfds = rng.choice([1, 2, 3])
    elif m == "trunc":
        whole = bytes.fromhex(h) + bytes(b)
        cut = whole[:rng.randrange(0, len(whole))]
        return (cut.hex() or "00") + "/0", m
    elif m == "extend":
        b = b + bytes(rng.getrandbits(8) for _ in range(rng.choice([1, 8, 12])))
    elif m == "random":
        rb = bytes(rng.getrandbits(8) for _ in range(rng.choice([1, 11, 12, 13, 20, 40])))
        return rb.hex() + f"/{rng.choice([0, 0, 1])}", m
    return f"{hdr(code, flags, len(bytes.fromhex(body)) if size is None else size)}{bytes(b).hex()}/{nfds}", m


class GpuFamily(Family):
    name = "gpu"

    def __init__(self, quick=(700, 1300), thorough=(10000, 30000)):
        super().__init__()
        self.sizes = {"quick": quick, "thorough": thorough}

    def gen(self, rng, n, mutate):
        out = []
        if not mutate:
            for name in sorted(GPU):
                op, _ = gpu_op(rng, name)
                if name in REPLY_SIZE:
                    h, b, k = gpu_reply(rng, name)
                    op += f" r={h}{b}/{k}"
                out.append("gpu | " + op)
        while len(out) < n:
            ops = []
            k = rng.randint(1, 5)
            for i in range(k):
                op, name = gpu_op(rng)
                last = i == k - 1
                if name in REPLY_SIZE:
                    if mutate and last:
                        r, _ = mutate_gpu_reply(rng, name)
                        ops.append(f"{op} r={r} then-close")
                    elif not mutate and rng.random() < 0.05:
                        ops.append(f"{op} r=close")
                        break
                    else:
                        h, b, nf = gpu_reply(rng, name)
                        ops.append(f"{op} r={h}{b}/{nf}")
                else:
                    ops.append(op)
            if rng.random() < 0.03:
                ops.insert(rng.randrange(len(ops) + 1), f"fail {rng.choice([5, 0xb, 0x68]):x}")
            out.append("gpu | " + " | ".join(ops))
        return out

    def generate(self, tier, rng):
        a, b = self.sizes[tier]
        return self.gen(rng, a, False) + self.gen(rng, b, True)

    def nontrivial(self, line, obs):
        return " w=" in obs and any(" w=-" not in p for p in obs.split(" | ") if p.startswith("ret="))

    def distribution(self, lines, impl, dist):
        d = dist.setdefault("gpu", {"scenarios": 0, "ops": 0, "ret": {}, "methods": {}, "mutated_last_reply": 0})
        for l in lines:
            d["scenarios"] += 1
            if "then-close" in l:
                d["mutated_last_reply"] += 1
            ops = [x.strip().split()[0] for x in l.split("|")[1:] if x.strip()]
            obs = impl.get(l, "").split(" | ")
            for nm, o in zip(ops, obs):
                d["ops"] += 1
                d["methods"][nm] = d["methods"].get(nm, 0) + 1
                r = o.split()[0][4:].split(":")[0] if o.startswith("ret=") else "?"
                d["ret"][r] = d["ret"].get(r, 0) + 1

    def finding_key(self, line, obs, so):
        return "gpu:" + (so.split()[1] if so and so.startswith("spec-fail") and len(so.split()) > 1 else "?")
