"""C20 — message validators accept exactly the protocol-valid encodings."""
import itertools
from . import common as C
from .family import Family

PROPS_MODULES = ["C20"]
RULE = ("family `valid`: for each message type the full product of per-field boundary sets (bytes built little-endian "
        "at the specification's offsets) plus seeded random 64-bit patterns and every request code in a window around the "
        "defined ranges; each case is evaluated by the compiled crate's is_valid(), by the generated Lean validator "
        "(Gen.*, through the generated struct layout) and by the Spec rule. distinct = distinct (type, bytes); "
        "non-trivial = cases on which the Spec rule is decided by a non-first conjunct or accepts (counted: accepted cases "
        "plus rejected cases that differ from an accepted case in exactly one field).")
ASSUMPTIONS = ["little-endian host", "uuid crate: is_nil = all bytes zero, is_max = all bytes 0xff"]

A64 = [0, 1, 0xf, 0x10, 0xfff, 0x1000, 2**31, 2**32 - 1, 2**32, 2**63, 2**64 - 0x1001, 2**64 - 0x1000, 2**64 - 2, 2**64 - 1]
ALN = [0, 1, 2, 3, 4, 8, 0xf, 0x10, 0x11, 0x1000, 2**64 - 16, 2**64 - 1]
FLAGS32 = sorted(set(list(range(0, 34)) + [1 << i for i in range(32)] + [0xffffffff, 0xfffffff0, 0xfffffff1, 5, 9, 0xd]))
SIZES = [0, 1, 8, 0xfff, 0x1000, 0x1001, 0x2000, 2**31, 2**32 - 1]
CODES = sorted(set(list(range(0, 52)) + [2**16, 2**16 + 1, 2**31, 2**32 - 1, 255, 256, 257]))


def hx(v, n):
    return C.le(v, n)


class ValidFamily(Family):
    name = "valid"

    def spec_input(self, line, obs):
        return line

    def spec_ok(self, spec_out, obs):
        return spec_out == obs

    def describe_spec_failure(self, line, obs, spec_out):
        t = line.split()
        return (f"valid {t[1]}: is_valid() = {obs} but the protocol rule says {spec_out} for bytes {t[2] if len(t) > 2 else ''}")

    def nontrivial(self, line, obs):
        return obs == "1" or line in self._near

    def finding_key(self, line, obs, so):
        return "valid:" + line.split()[1]

    def generate(self, tier, rng):
        L = []
        near = set()
        self._near = near
        add = L.append
        thorough = tier == "thorough"
        # headers, three channels
        for ch in ("FrontendHeader", "BackendHeader", "GpuHeader"):
            for code in CODES:
                for fl in FLAGS32:
                    for sz in (SIZES if thorough else [0, 0x1000, 0x1001, 2**32 - 1]):
                        add(f"valid {ch} {hx(code,4)}{hx(fl,4)}{hx(sz,4)}")
            for code in CODES:
                near.add(f"valid {ch} {hx(code,4)}{hx(1 if ch != 'GpuHeader' else 0,4)}{hx(0,4)}")
        # memory head
        for n in list(range(0, 40)) + [255, 256, 2**31, 2**32 - 1]:
            for pad in [0, 1, 2**31, 2**32 - 1]:
                add(f"valid VhostUserMemory {hx(n,4)}{hx(pad,4)}")
        # regions (table entry and single region)
        for g, s, u, o in itertools.product(A64, A64, A64, A64):
            body = f"{hx(g,8)}{hx(s,8)}{hx(u,8)}{hx(o,8)}"
            add(f"valid VhostUserMemoryRegion {body}")
            if thorough or (g in (0, 0x1000, 2**64 - 0x1000) and o in (0, 0x1000, 2**64 - 1)):
                for pad in (0, 2**64 - 1):
                    add(f"valid VhostUserSingleMemoryRegion {hx(pad,8)}{body}")
        # ring addresses
        for idx in (0, 7):
            for fl in (0, 1, 2, 3, 0x80000000, 0xffffffff):
                for d, u, a in itertools.product(ALN, ALN, ALN):
                    add(f"valid VhostUserVringAddr {hx(idx,4)}{hx(fl,4)}{hx(d,8)}{hx(u,8)}{hx(a,8)}{hx(0x1234 if idx else 0,8)}")
        # config
        CO = [0, 1, 0xff, 0x100, 0x101, 0x7ff, 0x800, 0xffe, 0xfff, 0x1000, 0x1001, 2**31, 2**32 - 0x1000, 2**32 - 2, 2**32 - 1]
        for off, sz in itertools.product(CO, CO):
            for fl in (0, 1, 2, 3, 4, 7, 8, 2**31, 2**32 - 1):
                add(f"valid VhostUserConfig {hx(off,4)}{hx(sz,4)}{hx(fl,4)}")
        # inflight
        for ms, mo in itertools.product([0, 1, 2**64 - 1], [0, 0x1000, 2**64 - 1]):
            for nq, qs in itertools.product(C.U16, C.U16):
                for tail in ("00000000", "ffffffff"):
                    add(f"valid VhostUserInflight {hx(ms,8)}{hx(mo,8)}{hx(nq,2)}{hx(qs,2)}{tail}")
        # log
        for s, o in itertools.product(C.U64, C.U64):
            add(f"valid VhostUserLog {hx(s,8)}{hx(o,8)}")
        # transfer state
        for d, p in itertools.product(C.U32, C.U32):
            add(f"valid VhostUserTransferDeviceState {hx(d,4)}{hx(p,4)}")
        # uuid
        for u in [0, 1, 2**127, 2**128 - 2, 2**128 - 1, 2**64, 2**64 - 1, 0xff, 0xff << 120] + [rng.getrandbits(128) for _ in range(50)]:
            add(f"valid VhostUserSharedMsg {hx(u,16)}")
        # mmap
        for fo, so, ln in itertools.product(A64, A64, A64):
            for fl in ((0, 1, 2, 3, 2**63, 2**64 - 1) if (thorough or fo in (0, 2**64 - 1)) else (0, 2)):
                add(f"valid VhostUserMMap {hx(3,1)}{'00'*7 if fl != 3 else 'ff'*7}{hx(fo,8)}{hx(so,8)}{hx(ln,8)}{hx(fl,8)}")
            # the padding bytes are not part of the rules: any contents, with valid and invalid flag words alike
            for fl in (0, 1, 2, 3):
                for pad in ("ff" * 7, "01" + "00" * 6, "00" * 6 + "80"):
                    add(f"valid VhostUserMMap {hx(3,1)}{pad}{hx(fo,8)}{hx(so,8)}{hx(ln,8)}{hx(fl,8)}")
        # always-valid bodies
        for v in C.U64:
            add(f"valid VhostUserU64 {hx(v,8)}")
        for a, b in itertools.product(C.U32, C.U32):
            add(f"valid VhostUserVringState {hx(a,4)}{hx(b,4)}")
        # random patterns
        nrand = 20000 if thorough else 2000
        sizes = {"FrontendHeader": 12, "BackendHeader": 12, "GpuHeader": 12, "VhostUserMemory": 8, "VhostUserMemoryRegion": 32,
                 "VhostUserSingleMemoryRegion": 40, "VhostUserVringAddr": 40, "VhostUserConfig": 12, "VhostUserInflight": 24,
                 "VhostUserLog": 16, "VhostUserTransferDeviceState": 8, "VhostUserSharedMsg": 16, "VhostUserMMap": 40}
        for ty, n in sizes.items():
            for _ in range(nrand // len(sizes)):
                b = bytearray(rng.getrandbits(8) for _ in range(n))
                # bias: clear the high bytes of some words so that sums do not always wrap
                if rng.random() < 0.6:
                    for i in range(0, n, 8):
                        if rng.random() < 0.7:
                            for j in range(i + 2, min(i + 8, n)):
                                b[j] = 0
                add(f"valid {ty} {bytes(b).hex()}")
        # struct sizes (layout cross-check between rustc, the generated table and the Spec)
        for ty in ["VhostUserU64", "VhostUserMemory", "VhostUserMemoryRegion", "VhostUserSingleMemoryRegion", "VhostUserShMemConfig",
                   "VhostUserVringState", "VhostUserVringAddr", "VhostUserConfig", "VhostUserInflight", "VhostUserLog",
                   "VhostUserSharedMsg", "VhostUserTransferDeviceState", "VhostUserMMap", "VirtioGpuCtrlHdr", "VirtioGpuRect",
                   "VirtioGpuDisplayOne", "VirtioGpuRespDisplayInfo", "VhostUserGpuEdidRequest", "VhostUserGpuUpdate",
                   "VhostUserGpuDMABUFScanout", "VhostUserGpuDMABUFScanout2", "VhostUserGpuCursorPos", "VhostUserGpuCursorUpdate",
                   "VirtioGpuRespGetEdid", "VhostUserGpuScanout"]:
            add(f"valid sizeof {ty}")
        return L

    def distribution(self, lines, impl, dist):
        d = dist.setdefault("valid", {})
        for l in lines:
            t = l.split()[1]
            e = d.setdefault(t, {"cases": 0, "accepted": 0})
            e["cases"] += 1
            if impl.get(l) == "1":
                e["accepted"] += 1


FAMILIES = [ValidFamily()]
