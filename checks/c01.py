"""C01 — the wire encoding of every message matches the vhost-user specification."""
from .srv import SrvFamily
from .fe import FeFamily
from .c20 import ValidFamily
from .c18_extra import ProxyPeer, BeSrvWf, GpuFamily   # C18 machinery: proxy request bytes, server acks, GPU requests

PROPS_MODULES = ["C01", "C01b", "Ctors"]
RULE = ("family `fe` (peer mode): every request the real Frontend writes (all operations, lattice arguments, every config payload "
        "length class, 1..32 regions with descriptors, NEED_REPLY on/off) is compared byte for byte, and descriptor for "
        "descriptor, with the Spec encoder. family `srv` (well-formed mode): Spec-encoded requests built by the independent "
        "generator codec are fed to the real request server: the values the recording handler sees must equal what was encoded, and "
        "every reply/ack the server writes is compared byte for byte with the Spec's owed reply (code, flags = version 1|REPLY, "
        "size, payload at the specified offsets). family `valid` (sizeof lines): rustc's size_of of every message struct vs the "
        "layout computed from the generated struct table vs the Spec layout. non-trivial = distinct scenarios with at least one "
        "message on the wire.")
ASSUMPTIONS = ["little-endian host", "padding bytes of VhostUserInflight are masked", "backend->frontend proxy and GPU proxy bytes: families `proxy`/`gpu` (C18) once merged"]


class LayoutFamily(ValidFamily):
    def generate(self, tier, rng):
        return [l for l in super().generate("quick", rng) if l.startswith("valid sizeof")]


FAMILIES = [FeFamily(modes=("peer",), quick=(0, 3000, 0), thorough=(0, 60000, 0)),
            SrvFamily(modes=("wf",), quick=(2500, 0, 0), thorough=(60000, 0, 0)),
            LayoutFamily(),
            ProxyPeer(), BeSrvWf(), GpuFamily()]
