"""Independent vhost-user codec used by the scenario generators (written from the specification, not from
the Rust structs): request codes, body builders, negotiation prefixes, mutations."""
from . import common as C

le = C.le

# request codes (vhost-user spec, "Front-end message types")
GET_FEATURES, SET_FEATURES, SET_OWNER, RESET_OWNER, SET_MEM_TABLE, SET_LOG_BASE, SET_LOG_FD, SET_VRING_NUM = 1, 2, 3, 4, 5, 6, 7, 8
SET_VRING_ADDR, SET_VRING_BASE, GET_VRING_BASE, SET_VRING_KICK, SET_VRING_CALL, SET_VRING_ERR = 9, 10, 11, 12, 13, 14
GET_PROTOCOL_FEATURES, SET_PROTOCOL_FEATURES, GET_QUEUE_NUM, SET_VRING_ENABLE, SEND_RARP, NET_SET_MTU = 15, 16, 17, 18, 19, 20
SET_BACKEND_REQ_FD, IOTLB_MSG, SET_VRING_ENDIAN, GET_CONFIG, SET_CONFIG = 21, 22, 23, 24, 25
CREATE_CRYPTO_SESSION, CLOSE_CRYPTO_SESSION, POSTCOPY_ADVISE, POSTCOPY_LISTEN, POSTCOPY_END = 26, 27, 28, 29, 30
GET_INFLIGHT_FD, SET_INFLIGHT_FD, GPU_SET_SOCKET, RESET_DEVICE, VRING_KICK, GET_MAX_MEM_SLOTS = 31, 32, 33, 34, 35, 36
ADD_MEM_REG, REM_MEM_REG, SET_STATUS, GET_STATUS, GET_SHARED_OBJECT, SET_DEVICE_STATE_FD = 37, 38, 39, 40, 41, 42
CHECK_DEVICE_STATE, GET_SHMEM_CONFIG = 43, 44

F_PROTOCOL_FEATURES = 1 << 30
# protocol feature bits
P_MQ, P_LOG_SHMFD, P_RARP, P_REPLY_ACK, P_MTU, P_BACKEND_REQ, P_CROSS_ENDIAN, P_CRYPTO = 0, 1, 2, 3, 4, 5, 6, 7
P_PAGEFAULT, P_CONFIG, P_BACKEND_SEND_FD, P_HOST_NOTIFIER, P_INFLIGHT_SHMFD, P_RESET_DEVICE = 8, 9, 10, 11, 12, 13
P_INBAND, P_CONFIGURE_MEM_SLOTS, P_STATUS, P_XEN_MMAP, P_SHARED_OBJECT, P_DEVICE_STATE, P_GVBI, P_SHMEM = 14, 15, 16, 17, 18, 19, 20, 21

# protocol feature that gates a request on the backend request server (property C07)
GATE = {GET_QUEUE_NUM: P_MQ, GET_CONFIG: P_CONFIG, SET_CONFIG: P_CONFIG, SET_BACKEND_REQ_FD: P_BACKEND_REQ,
        GET_INFLIGHT_FD: P_INFLIGHT_SHMFD, SET_INFLIGHT_FD: P_INFLIGHT_SHMFD, GET_MAX_MEM_SLOTS: P_CONFIGURE_MEM_SLOTS,
        ADD_MEM_REG: P_CONFIGURE_MEM_SLOTS, REM_MEM_REG: P_CONFIGURE_MEM_SLOTS, RESET_DEVICE: P_RESET_DEVICE,
        GET_SHARED_OBJECT: P_SHARED_OBJECT, GET_SHMEM_CONFIG: P_SHMEM, SET_LOG_BASE: P_LOG_SHMFD,
        POSTCOPY_ADVISE: P_PAGEFAULT, POSTCOPY_LISTEN: P_PAGEFAULT, POSTCOPY_END: P_PAGEFAULT}

IMPLEMENTED = [1, 2, 3, 4, 5, 6, 8, 9, 10, 11, 12, 13, 14, 15, 16, 17, 18, 21, 24, 25, 28, 29, 30, 31, 32, 33, 34, 36, 37,
               38, 41, 42, 43, 44]


def hdr(code, flags, size):
    return le(code, 4) + le(flags, 4) + le(size, 4)


def u64(v):
    return le(v, 8)


def vring_state(i, n):
    return le(i, 4) + le(n, 4)


def vring_addr(i, fl, d, u, a, lg):
    return le(i, 4) + le(fl, 4) + le(d, 8) + le(u, 8) + le(a, 8) + le(lg, 8)


def region(g, s, u, o):
    return le(g, 8) + le(s, 8) + le(u, 8) + le(o, 8)


def mem_table(regs, pad=0, n=None):
    return le(len(regs) if n is None else n, 4) + le(pad, 4) + "".join(region(*r) for r in regs)


def single(g, s, u, o, pad=0):
    return le(pad, 8) + region(g, s, u, o)


def config(off, size, fl, payload=b""):
    return le(off, 4) + le(size, 4) + le(fl, 4) + payload.hex()


def inflight(ms, mo, nq, qs, tail=0):
    return le(ms, 8) + le(mo, 8) + le(nq, 2) + le(qs, 2) + le(tail, 4)


def log(size, off):
    return le(size, 8) + le(off, 8)


def transfer(d, p):
    return le(d, 4) + le(p, 4)


def uuid(u):
    return le(u, 16)


def good_region(rng):
    g = rng.choice([0, 0x1000, 0x100000, 2**40, 2**63, 2**64 - 0x2000])
    s = rng.choice([1, 0x1000, 0x10000, 0x1fff])
    u = rng.choice([0, 0x7f0000000000, 2**63 + 0x1000, 2**64 - 0x10000])
    o = rng.choice([0, 0x1000, 0x123000])
    return (g, s, u, o)


def valid_request(rng, code):
    """A well-formed request of kind `code`: returns (body hex, nfds)."""
    if code in (GET_FEATURES, SET_OWNER, RESET_OWNER, GET_PROTOCOL_FEATURES, GET_QUEUE_NUM, RESET_DEVICE, GET_MAX_MEM_SLOTS,
                CHECK_DEVICE_STATE, GET_SHMEM_CONFIG, POSTCOPY_ADVISE, POSTCOPY_LISTEN, POSTCOPY_END):
        return "", 0
    if code in (SET_FEATURES, SET_PROTOCOL_FEATURES):
        return u64(rng.choice(C.U64 + [rng.getrandbits(64)])), 0
    if code == SET_MEM_TABLE:
        n = rng.choice([1, 1, 2, 3, 8, 32])
        return mem_table([good_region(rng) for _ in range(n)]), n
    if code in (SET_VRING_NUM, SET_VRING_BASE, GET_VRING_BASE):
        return vring_state(rng.choice([0, 1, 2, 255, 256, 2**32 - 1]), rng.choice([0, 1, 256, 1024, 65535, 65536, 2**32 - 1])), 0
    if code == SET_VRING_ENABLE:
        return vring_state(rng.choice([0, 1, 7, 2**32 - 1]), rng.choice([0, 1])), 0
    if code == SET_VRING_ADDR:
        return vring_addr(rng.choice([0, 1, 5]), rng.choice([0, 1]), rng.choice([0, 0x1000, 2**64 - 16]),
                          rng.choice([0, 0x2004, 2**64 - 4]), rng.choice([0, 0x3002, 2**64 - 2]), rng.choice([0, 0x5000])), 0
    if code in (SET_VRING_KICK, SET_VRING_CALL, SET_VRING_ERR):
        idx = rng.choice([0, 1, 2, 255])
        if rng.random() < 0.3:
            return u64(idx | 0x100), 0
        return u64(idx), 1
    if code == GET_CONFIG:
        # 0xff4 = the largest payload: 12 + 4084 = a body of exactly MAX_MSG_SIZE bytes
        off = rng.choice([0, 0, 0x100, 0xfff]); sz = rng.choice([1, 8, 0x100, 0xff4, 0xff3])
        sz = min(sz, 0x1000 - off)
        return config(off, sz, rng.choice([0, 1, 2, 3]), bytes(sz)), 0
    if code == SET_CONFIG:
        off = rng.choice([0, 0, 0x100, 0xfff]); sz = rng.choice([1, 8, 0x100, 0xff4, 0xff3])
        sz = min(sz, 0x1000 - off)
        return config(off, sz, rng.choice([0, 1, 2, 3]), bytes(rng.getrandbits(8) for _ in range(sz))), 0
    if code == SET_BACKEND_REQ_FD or code == GPU_SET_SOCKET:
        return "", 1
    if code == GET_SHARED_OBJECT:
        return uuid(rng.choice([1, 2**127, 2**128 - 2, rng.getrandbits(128) | 1])), 0
    if code == GET_INFLIGHT_FD:
        return inflight(rng.choice([0, 0x1000]), rng.choice([0, 0x2000]), rng.choice([1, 2, 65535]), rng.choice([1, 256, 65535])), 0
    if code == SET_INFLIGHT_FD:
        return inflight(rng.choice([0x1000, 0x10000]), rng.choice([0, 0x2000]), rng.choice([1, 2]), rng.choice([1, 256])), 1
    if code == ADD_MEM_REG:
        return single(*good_region(rng)), 1
    if code == REM_MEM_REG:
        return single(*good_region(rng)), 0
    if code == SET_DEVICE_STATE_FD:
        return transfer(rng.choice([0, 1]), 0), 1
    if code == SET_LOG_BASE:
        return log(rng.choice([1, 0x1000, 2**40]), rng.choice([0, 0x1000])), 1
    return "", 0


def hout(rng, code, fail_p=0.2):
    ok = rng.random() >= fail_p
    s = "h=ok" if ok else ("h=fail" + rng.choice(["", "", "", "I", "P", "S", "F", "M", "X"]))
    v = rng.choice([0, 1, 2, 0x100, 0xffff, 2**32 - 1, 2**63, 2**64 - 1, rng.getrandbits(64)])
    s += f",v={v:x}"
    if code == GET_CONFIG:
        s += ",b=%s" % rng.choice(["-", "00", "0102030405060708", "11" * 0x100])
    if code == GET_SHMEM_CONFIG:
        # region sizes by id: none, one, two, all 256 ids in use, only the last id (255) in use, 255 ids, one id too many
        w = lambda i: u64(0x1000 * (i + 1))
        s += ",b=%s" % rng.choice(["-", "0010000000000000", "0010000000000000" + "0000100000000000",
                                   "".join(w(i) for i in range(256)), "00" * 2040 + w(255), "".join(w(i) for i in range(255)),
                                   "00" * 2032 + w(254) + w(255) + w(256)])
    if code == SET_DEVICE_STATE_FD:
        s += ",f=%d" % rng.choice([0, 1])
    return s


def step(code, flags, body, nfds, h, size=None, close=False):
    size = len(body) // 2 if size is None else size
    return f"m {hdr(code, flags, size)}{body} f{nfds} {h}" + (" close" if close else "")


def negotiation(rng, kind):
    """negotiation prefixes: list of steps. kind: 0 none; 1 virtio only (PROTOCOL_FEATURES offered+acked);
    2 + all protocol features acked; 3 + REPLY_ACK only; 4 + random mask; 5 protocol features acked but not offered"""
    steps = []
    if kind == 0:
        return steps, 0, 0, 0
    offered = F_PROTOCOL_FEATURES | rng.choice([0, 1, 0x3f << 32])
    if kind == 5:
        offered &= ~F_PROTOCOL_FEATURES
    steps.append(step(GET_FEATURES, 1, "", 0, f"h=ok,v={offered:x}"))
    acked = F_PROTOCOL_FEATURES if kind != 6 else 0
    steps.append(step(SET_FEATURES, 1, u64(acked), 0, "h=ok"))
    pmask = 0
    if kind >= 2:
        steps.append(step(GET_PROTOCOL_FEATURES, 1, "", 0, f"h=ok,v={rng.choice([0, (1 << 22) - 1, rng.getrandbits(22)]):x}"))
        pmask = {2: (1 << 22) - 1, 3: 1 << P_REPLY_ACK, 4: rng.getrandbits(22), 5: (1 << 22) - 1, 6: (1 << 22) - 1}[kind]
        steps.append(step(SET_PROTOCOL_FEATURES, 1, u64(pmask), 0, "h=ok"))
    return steps, offered, acked, pmask
