"""C03 — handler results and failures are reported faithfully to the frontend caller."""
from .fe import FeFamily

PROPS_MODULES = ["C03"]
RULE = ("family `fe` (srv mode): every reply-bearing operation and every acknowledged set-operation with scripted handler outcomes "
        "(success values over the 64-bit lattice, with/without returned file, config data of right and wrong length, failures), "
        "REPLY_ACK negotiated or not; the real request server closes the connection when handle_request fails (as VhostUserDaemon "
        "does); a watchdog turns a call that does not return into `blocked`. non-trivial = distinct sessions with at least one "
        "awaited reply or acknowledgement.")
ASSUMPTIONS = ["the serve loop closes the connection when handle_request returns an error (VhostUserDaemon does)",
               "a device whose GET_FEATURES answer changes within one connection is outside the quantifier"]
FAMILIES = [FeFamily(modes=("srv",), quick=(3500, 0, 0), thorough=(60000, 0, 0))]
