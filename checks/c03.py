"""C03 — handler results and failures are reported faithfully to the frontend caller."""
from .fe import FeFamily

PROPS_MODULES = ["C03", "C03Roundtrip", "FeRecv"]
RULE = ("family `fe` (srv mode): every reply-bearing operation and every acknowledged set-operation with scripted handler outcomes "
        "(success values over the 64-bit lattice, with/without returned file, config data of right and wrong length, failures), "
        "REPLY_ACK negotiated or not; the real request server closes the connection when handle_request fails (as VhostUserDaemon "
        "does); a watchdog turns a call that does not return into `blocked`. non-trivial = distinct sessions with at least one "
        "awaited reply or acknowledgement.")
ASSUMPTIONS = ["the serve loop closes the connection when handle_request returns an error (VhostUserDaemon does)",
               "a device whose GET_FEATURES answer changes within one connection is outside the quantifier"]
REPLY_OPS = ("get_", "check_device_state", "set_device_state_fd", "postcopy_advise", "set_log_base")


class AwaitFe(FeFamily):
    def nontrivial(self, line, obs):
        # a call that reached the handler and awaits a reply (getter) or an acknowledgement (NEED_REPLY requested after
        # REPLY_ACK was acknowledged)
        ops = [o.strip() for o in line.split(" | ")[1:]]
        need = False
        ack = False
        for o, p in zip(ops, self.steps(obs)):
            t = o.split()
            if t[0] == "set_hdr_flags":
                need = len(t) > 1 and int(t[1], 16) & 8 != 0
            reached = " c=-" not in p
            if t[0] == "set_protocol_features" and reached and len(t) > 1:
                ack = int(t[1], 16) & 8 != 0
            elif reached and (t[0].startswith(REPLY_OPS) or (need and ack)):
                return True
        return False


FAMILIES = [AwaitFe(modes=("srv",), quick=(3500, 0, 0), thorough=(60000, 0, 0))]
