"""C02 — frontend calls reach the backend handler with identical arguments and files."""
from .fe import FeFamily

PROPS_MODULES = ["C02", "C02Reach", "FrontendOps", "Ctors"]
RULE = ("family `fe`: sessions of the real Frontend (negotiation prefix + 1..6 API calls with lattice/random arguments, every "
        "operation of the API, NEED_REPLY on/off, maximum queue counts 0..0x8000) against the real BackendReqHandler with the "
        "recording handler (srv mode: handler log with fstat identity of every received file) and against the raw peer (peer mode: "
        "bytes and descriptors the frontend wrote). non-trivial = distinct sessions in which at least one call reached the handler "
        "or was refused locally.")
ASSUMPTIONS = ["identity of a passed file = (st_dev, st_ino) of fresh memfds/sockets", "get_config with buf.len() != size is outside the accepted arguments"]
FAMILIES = [FeFamily(modes=("srv", "peer"), quick=(3000, 1200, 0), thorough=(60000, 20000, 0))]
