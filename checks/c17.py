"""C17 — kicks are routed to the owning worker with the ring's rank as event id."""
import itertools
from .family import Family

PROPS_MODULES = ["C17", "RoutingOps"]
RULE = ("family `route`: a real VhostUserDaemon (RecordingBackend, one worker per mask) is configured by an independent raw "
        "vhost-user peer (SET_VRING_NUM/BASE give every queue a distinct size and base = its identity, SET_VRING_KICK/ENABLE "
        "start it); every queue is kicked through its eventfd and, after a two-phase barrier on every worker, the "
        "(thread_id, device_event, ring slice identities) the backend's handle_event saw are compared with Spec.Routing "
        "(owner = first mask containing q, event id = rank, slice = the thread's queues in order, slice[id] = q) and with "
        "the model's prediction; custom listeners with ids around num_queues, 255, 65535, 65536+k, 2^32+k are registered "
        "through the public register_listener and fired. Configurations: assignments of 1..6 queues to 1..3 masks "
        "(each queue in any subset of the threads, i.e. sparse / interleaved / overlapping / unowned queues; plus random "
        "bits beyond the queue count) — exhaustive in thorough, all of T=1, structured and seeded samples in quick. "
        "distinct = distinct scenario lines; non-trivial = scenarios that kick a queue of non-zero rank (a worker mask with "
        "a lower-numbered queue) or fire an accepted listener.")
ASSUMPTIONS = ["Linux epoll level-triggered semantics and eventfd counters (the barrier argument relies on them)",
               "num_queues <= 64 (for larger counts `queues_mask >> index` overflows: subject of C05, outside this model)"]


def hx(v):
    return "%x" % v


def masks_from_assignment(assign, T):
    """assign[q] = bitset of threads that have queue q"""
    ms = [0] * T
    for q, ts in enumerate(assign):
        for t in range(T):
            if ts >> t & 1:
                ms[t] |= 1 << q
    return ms


class RouteFamily(Family):
    name = "route"
    timeout = 3000

    def line(self, n, masks, kicks, probes, vr="mutex", lk="mutex", ex=1):
        ks = ",".join(hx(q) for q in kicks) if kicks else "-"
        ps = ",".join(f"{hx(t)}:{hx(i)}" for t, i in probes) if probes else "-"
        return f"route n={hx(n)} masks={','.join(hx(m) for m in masks)} vr={vr} lk={lk} ex={ex} kicks={ks} probes={ps}"

    @staticmethod
    def parse(line):
        d = dict(t.split("=", 1) for t in line.split()[1:])
        n = int(d["n"], 16)
        masks = [int(x, 16) for x in d["masks"].split(",")]
        kicks = [] if d["kicks"] == "-" else [int(x, 16) for x in d["kicks"].split(",")]
        probes = [] if d["probes"] == "-" else [tuple(int(y, 16) for y in x.split(":")) for x in d["probes"].split(",")]
        return n, masks, kicks, probes

    def probe_sets(self, n, T, rng, which):
        """lists of (thread, id); at most one id >= 65536 per thread, placed last"""
        small = [n + 1, n + 2, 255, 256, 65535, 0x8000]
        reserved = [0, n, max(n - 1, 0)]
        big = [65536 + k for k in range(0, n + 3)] + [2**32 + k for k in range(0, n + 3)] + [2**32 + 65536 + n, 2**63 + 1, 2**64 - 1,
                                                                                           2**16 * 3 + 1, 2**48 + n]
        out = []
        for t in range(T):
            if which == "all":
                out += [(t, i) for i in small[:3] + reserved]
                out.append((t, big[(t * 7 + n) % len(big)]))
            else:
                out.append((t, rng.choice(small + reserved)))
                out.append((t, rng.choice(big)))
        return out

    def generate(self, tier, rng):
        L = []
        thorough = tier == "thorough"
        VR = ["mutex", "rwlock"]
        variant = itertools.cycle([("mutex", "mutex"), ("rwlock", "rwlock"), ("rwlock", "mutex"), ("mutex", "rwlock")])

        def add(n, masks, probes=(), ex=1, kicks=None):
            vr, lk = next(variant)
            L.append(self.line(n, masks, list(range(n)) if kicks is None else kicks, list(probes), vr, lk, ex))

        # 1. listener ids on representative configurations (every class of id on every thread)
        for n, masks in [(1, [1]), (2, [3]), (3, [5, 2]), (4, [0xa, 5, 3]), (6, [0x15, 0x2a]), (6, [0x3f]), (6, [1, 2, 0x3c]),
                         (5, [0xffffffff]), (2, [0xf0])]:
            T = len(masks)
            small = [n + 1, n + 2, 255, 256, 65535, 0x8000, 0, n, max(n - 1, 0)]
            big = [65536 + k for k in range(0, n + 2)] + [2**32 + k for k in range(0, n + 2)] + [2**32 + 65536 + n, 2**63 + 1, 2**64 - 1]
            for t in range(T):
                add(n, masks, [(t, i) for i in small], kicks=[])
                for b in big:
                    add(n, masks, [(t, n + 1), (t, b)], kicks=[0])
        # 2. configurations
        if thorough:
            for T in (1, 2, 3):
                for n in range(1, 7):
                    for assign in itertools.product(range(1 << T), repeat=n):
                        add(n, masks_from_assignment(assign, T))
        else:
            for n in range(1, 7):       # T = 1 exhaustively
                for assign in itertools.product(range(2), repeat=n):
                    add(n, masks_from_assignment(assign, 1))
            for T in (2, 3):
                for n in range(1, 7):
                    space = (1 << T) ** n
                    k = min(space, 60 if T == 2 else 70)
                    seen = set()
                    while len(seen) < k:
                        a = tuple(rng.randrange(1 << T) for _ in range(n))
                        if a in seen:
                            continue
                        seen.add(a)
                        add(n, masks_from_assignment(a, T))
        # 3. structured: interleaved, sparse, overlapping, full masks on several threads, bits beyond the queue count
        for n in range(1, 7):
            full = (1 << n) - 1
            ev, od = 0x5555 & full, 0xaaaa & full
            for masks in ([ev, od], [od, ev], [full, full], [full, full, full], [ev, full], [od, ev, full], [0, full], [full, 0, ev],
                          [1 << (n - 1)], [1 << (n - 1), full], [1, full & ~1], [0xffffffff], [0xffffffffffffffff],
                          [0xffffffff00000000 | ev, 0x8000000000000000 | od], [full << n], [(full << n) | od, ev | (1 << 63)]):
                add(n, masks)
        # bits beyond the queue count, random
        for _ in range(400 if thorough else 60):
            n = rng.randrange(1, 7)
            T = rng.randrange(1, 4)
            masks = [rng.getrandbits(64) if rng.random() < 0.5 else (rng.getrandbits(n) | (rng.getrandbits(8) << n)) for _ in range(T)]
            add(n, masks, self.probe_sets(n, T, rng, "some") if rng.random() < 0.3 else ())
        # kick orders other than ascending, repeated kicks; no exit events (few: the workers of such a daemon never end)
        for _ in range(60 if thorough else 12):
            n = rng.randrange(2, 7)
            T = rng.randrange(1, 4)
            masks = [rng.getrandbits(n) for _ in range(T)]
            kicks = [rng.randrange(n) for _ in range(2 * n)]
            add(n, masks, kicks=kicks)
        for n, masks in [(3, [5, 2]), (2, [3]), (4, [0xc, 3])]:
            add(n, masks, [(0, n + 1), (0, n)], ex=0)
        return L

    def nontrivial(self, line, obs):
        n, masks, kicks, probes = self.parse(line)
        for q in kicks:
            for m in masks:
                if m >> q & 1:
                    if m & ((1 << q) - 1):
                        return True
                    break
        return ":t" in obs and " p=" in " " + obs and any(tok.startswith("p=") and ":t" in tok for tok in obs.split())

    def finding_key(self, line, obs, so):
        why = (so or "").replace("spec-fail ", "")
        if why.startswith("listener-"):
            parts = why.split("-")
            try:
                if int(parts[1], 16) >= 65536:
                    return "listener-id-not-16-bit"
            except ValueError:
                pass
            return "listener-id"
        if why.startswith("kick-"):
            return "kick-misrouted"
        return "route:" + why

    def describe_spec_failure(self, line, obs, so):
        why = (so or "no verdict").replace("spec-fail ", "")
        if why.startswith("listener-"):
            return (f"route listener: a custom listener id was accepted but not delivered as registered ({why}); "
                    f"scenario `{line}` observed `{obs[:300]}`")
        return f"route kick: the backend did not see (owner thread, rank, slice) for a kick ({why}); scenario `{line}` observed `{obs[:300]}`"

    def distribution(self, lines, impl, dist):
        d = dist.setdefault("route", {"scenarios": 0, "kicks": 0, "kicks_unowned": 0, "kicks_rank_nonzero": 0, "overlapping_masks": 0,
                                      "bits_beyond_queue_count": 0, "probes": 0, "probes_rejected": 0, "probes_delivered": 0,
                                      "by_threads": {}, "by_queues": {}})
        for l in lines:
            n, masks, kicks, probes = self.parse(l)
            d["scenarios"] += 1
            d["by_threads"][str(len(masks))] = d["by_threads"].get(str(len(masks)), 0) + 1
            d["by_queues"][str(n)] = d["by_queues"].get(str(n), 0) + 1
            d["kicks"] += len(kicks)
            full = (1 << n) - 1
            if any(m & ~full for m in masks):
                d["bits_beyond_queue_count"] += 1
            if any(masks[i] & masks[j] & full for i in range(len(masks)) for j in range(i + 1, len(masks))):
                d["overlapping_masks"] += 1
            for q in kicks:
                own = [m for m in masks if m >> q & 1]
                if not own:
                    d["kicks_unowned"] += 1
                elif own[0] & ((1 << q) - 1):
                    d["kicks_rank_nonzero"] += 1
            d["probes"] += len(probes)
            o = impl.get(l, "")
            d["probes_rejected"] += sum(1 for t in o.split() if t.startswith("p=") and t.endswith(":rej"))
            d["probes_delivered"] += sum(1 for t in o.split() if t.startswith("p=") and ":t" in t)


FAMILIES = [RouteFamily()]
