"""C19 — kernel vhost / vhost-net / vhost-vsock / vhost-vDPA operations issue exactly the UAPI ioctls with UAPI layouts."""
import itertools
import os
import re
import subprocess
import sys

from . import common as C
from .family import Family

PROPS_MODULES = ["C19"]
RULE = ("family `kern`: every trait operation of the four kernel backends (the blanket VhostBackend impl on a harness-owned "
        "VhostKernBackend type, Net, Vsock, VhostKernVdpa) is executed in-process on a dummy descriptor; an LD_PRELOAD "
        "interposer (tools/ioctl_interpose.c) records (request, argument bytes) of every ioctl/write and plays the kernel "
        "(writes a pattern back for _IOR/_IOWR, returns 0 or -1). Arguments: boundary lattices for queue indexes (usize, incl. "
        "> 2^32), 64-bit addresses, descriptor numbers, region tables of 0..=256 entries, config buffers of 0..=256 bytes, every "
        "IOTLB type x permission x v1/v2 feature word, ring configurations over zero/non-power-of-two/over-maximum sizes, "
        "log flag with/without address, and 1..=3-region guest memories mapped at scenario-chosen host addresses. Each "
        "observation is compared with the model's prediction (Drv.Kern, from Gen.Ioctl) and judged by SpecDrv.Kern against "
        "Spec.Uapi; Spec.Uapi itself is compared with tools/uapi_probe.c (compiled against /usr/include/linux/vhost.h) first. "
        "distinct = distinct scenario lines; non-trivial = scenarios on which the Spec demands something (an ioctl/write with "
        "given bytes, a refusal, a parsed value, a layout or a request number).")
ASSUMPTIONS = ["little-endian LP64 host (x86-64 / aarch64)",
               "the C compiler's view of /usr/include/linux/vhost.h is the UAPI (uapi_probe)",
               "vm-memory: find_region/get_host_address return the region containing the address; regions sorted, non-overlapping",
               "vmm-sys-util ioctl wrappers pass (fd, request, pointer) to libc::ioctl unchanged; FamStructWrapper lays out header + entries",
               "what the kernel does with a request is out of scope: the stand-in kernel of the harness answers every call"]
EXTRA_TRUSTED = ["tools/ioctl_interpose.c (LD_PRELOAD stand-in kernel) and tools/uapi_probe.c (UAPI numbers from the system headers)"]

BUILD = os.path.join(C.VERIF, "tools", "build")
INTERPOSER = os.path.join(BUILD, "libioctl_interpose.so")
PROBE = os.path.join(BUILD, "uapi_probe")

Q = [0, 1, 2, 3, 0xff, 0x100, 0xffff, 0x10000, 2**31, 2**32 - 1, 2**32, 2**32 + 1, 2**63, 2**64 - 1]
FDS = [0, 3, 0x7f, 0x1234, 0x7ffffffe, 0x7fffffff]
WBS = ["0102030405060708090a0b0c0d0e0f10", "ff", "00", "a55a", "fffefdfcfbfaf9f8f7f6f5f4f3f2f1f0ef", "80000000000000807f"]
U64 = C.U64
U32 = C.U32


def hx(v):
    return "%x" % v


def line(be, op, a=(), buf="-", mem="-", feat=0, wb="-", rc=0):
    al = ",".join(hx(x) for x in a) if a else "-"
    return f"kern be={be} op={op} a={al} buf={buf} mem={mem} feat={hx(feat)} wb={wb} rc={rc}"


def framework_error(msg):
    print("FRAMEWORK-ERROR (C19, not a property violation): " + msg, flush=True)
    sys.exit(2)


def ensure_native():
    srcs = [os.path.join(C.VERIF, "tools", f) for f in ("uapi_probe.c", "ioctl_interpose.c", "build_extra.sh")]
    outs = [INTERPOSER, PROBE]
    stale = any(not os.path.exists(o) for o in outs) or max(os.path.getmtime(s) for s in srcs) > min(os.path.getmtime(o) for o in outs)
    if stale:
        p = subprocess.run(["sh", os.path.join(C.VERIF, "tools", "build_extra.sh")], capture_output=True, text=True)
        if p.returncode != 0:
            framework_error("tools/build_extra.sh failed: " + (p.stdout + p.stderr)[-800:])


def check_uapi_transcription():
    """Spec/Uapi.lean vs the system headers (through uapi_probe). Any difference is a framework error."""
    ensure_native()
    p = subprocess.run([PROBE], capture_output=True, text=True)
    if p.returncode != 0:
        framework_error("uapi_probe failed")
    probe_lines = [l.strip() for l in p.stdout.splitlines() if l.strip()]
    queries = []
    for l in probe_lines:
        t = l.split()
        if t[0] == "ioctl":
            queries.append((f"kern probe ioctl {t[1]}", l))
        elif t[0] == "sizeof":
            queries.append((f"kern probe sizeof {t[1]}", l))
        elif t[0] == "offsetof":
            queries.append((f"kern probe offsetof {t[1]} {t[2]}", l))
        elif t[0] == "const":
            queries.append((f"kern probe const {t[1]}", l))
    res, rc, err = C.run_lines(C.SPECDRIVER, [], [q for q, _ in queries] + ["kern probe names"])
    bad = [(q, want, res.get(q)) for q, want in queries if res.get(q) != want]
    if bad:
        framework_error("Spec/Uapi.lean disagrees with /usr/include/linux/vhost.h: " +
                        "; ".join(f"{q}: header `{w}` spec `{g}`" for q, w, g in bad[:6]))
    probe_names = {l.split()[1] for l in probe_lines if l.startswith("ioctl ")}
    spec_names = set((res.get("kern probe names") or "").split())
    if probe_names != spec_names:
        framework_error(f"ioctl name sets differ: only in probe {sorted(probe_names - spec_names)}, only in spec {sorted(spec_names - probe_names)}")
    # the probe's hand-written list must cover every ioctl the header defines
    hdr = open("/usr/include/linux/vhost.h").read()
    hdr_names = set(re.findall(r"#define\s+(VHOST_[A-Z0-9_]+)\s+_IO[RW]*\(", hdr))
    if hdr_names != probe_names:
        framework_error(f"uapi_probe.c does not list exactly the ioctls of <linux/vhost.h>: missing {sorted(hdr_names - probe_names)}, "
                        f"extra {sorted(probe_names - hdr_names)}")
    return len(queries)


# UAPI byte images built independently here (little-endian, offsets of <linux/vhost_types.h>) for the parser inputs
def iotlb_bytes(v2, typ, iova, size, ua, perm, mtype, asid=0, fill=0):
    b = bytearray([fill] * 72)
    b[0:4] = (typ % 2**32).to_bytes(4, "little")
    if v2:
        b[4:8] = (asid % 2**32).to_bytes(4, "little")
    b[8:16] = (iova % 2**64).to_bytes(8, "little")
    b[16:24] = (size % 2**64).to_bytes(8, "little")
    b[24:32] = (ua % 2**64).to_bytes(8, "little")
    b[32] = perm % 256
    b[33] = mtype % 256
    return bytes(b).hex()


HVA = [0x1000000000, 0x2000001000, 0x3000000000]


def mem_layouts(thorough):
    """1..3-region guest memories: [(gpa, size, hva)]"""
    L = [
        [(0, 0x10000, HVA[0])],
        [(0x1000, 0x100000, HVA[1])],
        [(2**64 - 0x200000, 0x100000, HVA[0])],
        [(0, 0x10000, HVA[0]), (0x10000, 0x10000, HVA[2])],                       # adjacent in guest space, far apart on the host
        [(0x100000, 0x10000, HVA[2]), (0x100000000, 0x100000, HVA[0])],
        [(0, 0x1000, HVA[1]), (0x100000, 0x10000, HVA[0]), (2**63, 0x100000, HVA[2])],
        [(0x1000, 0x1000, HVA[2]), (0x2000, 0x1000, HVA[1]), (0x3000, 0x1000, HVA[0])],   # host order reversed
    ]
    if thorough:
        L += [
            [(2**32 - 0x1000, 0x2000, HVA[0])],
            [(0, 0x100000, HVA[0]), (2**64 - 0x101000, 0x100000, HVA[1])],
            [(0x7000, 0x1000, HVA[0]), (0x9000, 0x1000, HVA[1]), (0xb000, 0x1000, HVA[2])],
        ]
    return L


def mem_str(m):
    return ",".join(f"{hx(g)}:{hx(s)}:{hx(h)}" for g, s, h in m)


def ring_points(m, qsize):
    """interesting guest addresses for a ring of `qsize` entries in memory `m`"""
    pts = set()
    for g, s, h in m:
        for ln in (16 * qsize, 6 + 2 * qsize, 6 + 8 * qsize):
            for p in (g, g + 0x10, g + s - ln - 1, g + s - ln, g + s - ln + 1, g + s - 1, g + s):
                if 0 <= p < 2**64:
                    pts.add(p)
    pts |= {0, 0xfff, 2**64 - 1, 2**64 - 0x30, 2**63 + 0x40}
    return sorted(pts)


class KernFamily(Family):
    name = "kern"

    def env(self):
        e = C.env_offline()
        e["LD_PRELOAD"] = INTERPOSER
        return e

    def spec_input(self, line, obs):
        # not " => ": checks/common.py:run_lines splits every result line at the first " => "
        return line + " ==> " + obs

    def key(self, l):
        return l

    def nontrivial(self, l, obs):
        t = dict(x.split("=", 1) for x in l.split()[1:])
        if t["op"] in ("is_valid",):
            return False
        if t["op"] == "set_mem_table":
            n = 0 if t["a"] == "-" else len(t["a"].split(",")) // 3
            return 1 <= n <= 255
        if t["op"] == "set_log_base":
            return t["a"].split(",")[1] == "0"
        if t["op"] == "send_iotlb_msg":
            a = [int(x, 16) for x in t["a"].split(",")]
            return 1 <= a[4] <= 6 and a[3] <= 3
        return True

    def finding_key(self, l, obs, so):
        t = dict(x.split("=", 1) for x in l.split()[1:])
        clause = (so or "").replace("spec-fail ", "").split(":")[0]
        return f"kern:{t['be']}:{t['op']}:{clause}"

    def describe_spec_failure(self, l, obs, so):
        t = dict(x.split("=", 1) for x in l.split()[1:])
        clause = (so or "no-verdict").replace("spec-fail ", "")
        return (f"kern {t['be']}.{t['op']} {clause.split(':')[0]}: the implementation does not meet the UAPI on `{l[:300]}`: "
                f"observed `{obs[:300]}`, spec says `{so}`")

    def distribution(self, lines, impl, dist):
        d = dist.setdefault("kern", {})
        for l in lines:
            t = dict(x.split("=", 1) for x in l.split()[1:])
            k = t["be"] + "." + t["op"].split(":")[0]
            e = d.setdefault(k, {"cases": 0, "ioctls": 0, "refused": 0})
            e["cases"] += 1
            o = impl.get(l, "")
            if "calls=io:" in o or "calls=wr:" in o:
                e["ioctls"] += 1
            elif "ret=err:" in o:
                e["refused"] += 1

    # ------------------------------------------------------------------------------------------
    def generate(self, tier, rng):
        self.probe_queries = check_uapi_transcription()
        thorough = tier == "thorough"
        L = []
        add = L.append
        BES = ["kern", "net", "vsock", "vdpa"]

        def pick(xs, k):
            return xs if thorough or len(xs) <= k else (xs[:1] + rng.sample(xs[1:], k - 1))

        def wbrc():
            return rng.choice(WBS), (1 if rng.random() < 0.1 else 0)

        # --- table / layout cross-checks against rustc and the compiled crate
        for s in ["vhost_vring_state", "vhost_vring_file", "vhost_vring_addr", "vhost_iotlb_msg", "vhost_msg", "vhost_msg__bindgen_ty_1",
                  "vhost_msg_v2", "vhost_msg_v2__bindgen_ty_1", "vhost_memory_region", "vhost_memory", "vhost_scsi_target",
                  "vhost_vdpa_config", "vhost_vdpa_iova_range"]:
            add(line("none", "layout:" + s))
        for n in ["VHOST_GET_FEATURES", "VHOST_SET_FEATURES", "VHOST_SET_OWNER", "VHOST_RESET_OWNER", "VHOST_SET_MEM_TABLE",
                  "VHOST_SET_LOG_BASE", "VHOST_SET_LOG_FD", "VHOST_SET_VRING_NUM", "VHOST_SET_VRING_ADDR", "VHOST_SET_VRING_BASE",
                  "VHOST_GET_VRING_BASE", "VHOST_SET_VRING_KICK", "VHOST_SET_VRING_CALL", "VHOST_SET_VRING_ERR",
                  "VHOST_SET_BACKEND_FEATURES", "VHOST_GET_BACKEND_FEATURES", "VHOST_NET_SET_BACKEND", "VHOST_SCSI_SET_ENDPOINT",
                  "VHOST_SCSI_CLEAR_ENDPOINT", "VHOST_SCSI_GET_ABI_VERSION", "VHOST_SCSI_SET_EVENTS_MISSED",
                  "VHOST_SCSI_GET_EVENTS_MISSED", "VHOST_VSOCK_SET_GUEST_CID", "VHOST_VSOCK_SET_RUNNING", "VHOST_VDPA_GET_DEVICE_ID",
                  "VHOST_VDPA_GET_STATUS", "VHOST_VDPA_SET_STATUS", "VHOST_VDPA_GET_CONFIG", "VHOST_VDPA_SET_CONFIG",
                  "VHOST_VDPA_SET_VRING_ENABLE", "VHOST_VDPA_GET_VRING_NUM", "VHOST_VDPA_SET_CONFIG_CALL", "VHOST_VDPA_GET_IOVA_RANGE",
                  "VHOST_VDPA_GET_CONFIG_SIZE", "VHOST_VDPA_GET_VQS_COUNT", "VHOST_VDPA_GET_GROUP_NUM", "VHOST_VDPA_GET_AS_NUM",
                  "VHOST_VDPA_GET_VRING_GROUP", "VHOST_VDPA_SET_GROUP_ASID", "VHOST_VDPA_SUSPEND"]:
            add(line("none", "request:" + n))

        # --- the blanket VhostBackend impl on all four backends
        for be in BES:
            for wb in pick(WBS, 3):
                for rc in (0, 1):
                    add(line(be, "get_features", wb=wb, rc=rc))
            for f in pick(U64, 8):
                add(line(be, "set_features", [f], rc=(1 if f == 3 else 0)))
            for op in ("set_owner", "reset_owner"):
                for rc in (0, 1):
                    add(line(be, op, rc=rc, wb=rng.choice(WBS)))
            for b in pick(U64, 6):
                add(line(be, "set_log_base", [b, 0]))
            add(line(be, "set_log_base", [0x1000, 1]))
            for fd in pick(FDS + [2**32 - 1, 2**31], 5):
                add(line(be, "set_log_fd", [fd]))
            for q in pick(Q, 6):
                for n in pick(C.U16, 3):
                    add(line(be, "set_vring_num", [q, n]))
                    add(line(be, "set_vring_base", [q, n ^ 0x5a]))
                wb, rc = wbrc()
                add(line(be, "get_vring_base", [q], wb=wb, rc=rc))
                for op in ("set_vring_call", "set_vring_kick", "set_vring_err"):
                    add(line(be, op, [q, rng.choice(FDS)]))
            for fd in FDS:
                add(line(be, rng.choice(["set_vring_call", "set_vring_kick", "set_vring_err"]), [rng.choice(Q), fd], rc=(1 if fd == 3 else 0)))
        # region tables (1..=255 entries and the refused sizes around them)
        ns = [0, 1, 2, 3, 4, 8, 31, 32, 33, 64, 128, 254, 255, 256, 300] if thorough else [0, 1, 2, 3, 32, 255, 256]
        for n in ns:
            for be in (BES if thorough or n in (1, 255) else [rng.choice(BES)]):
                a = []
                for k in range(n):
                    a += [rng.choice(U64) if k % 3 == 0 else rng.getrandbits(64), rng.choice(U64), rng.getrandbits(64) if k % 2 else rng.choice(U64)]
                add(line(be, "set_mem_table", a, rc=(1 if n == 2 else 0)))
        # --- backend features and IOTLB messages (kernel-vhost, vDPA)
        feats = [0, 1, 2, 3, 4, 6, 2**64 - 1, 2**64 - 3, 2**63]
        for be in ("kern", "vdpa"):
            for wb in pick(WBS, 3):
                add(line(be, "get_backend_features", wb=wb))
            for f in feats:
                for rc in (0, 1):
                    add(line(be, "set_backend_features", [f], feat=rng.choice(feats), rc=rc))
            for ty in range(0, 7):
                for perm in range(0, 4):
                    for ft in (pick(feats, 4) if not thorough else feats):
                        add(line(be, "send_iotlb_msg", [rng.choice(U64), rng.choice(U64), rng.choice(U64), perm, ty], feat=ft,
                                 rc=(1 if (ty, perm) == (2, 2) else 0)))
            for v in pick(U64, 10):
                add(line(be, "send_iotlb_msg", [v, (v * 3) % 2**64, v ^ 0xffff, 3, 2], feat=rng.choice([0, 2])))
        for ft in feats:
            for ro in (0, 1):
                add(line("vdpa", "dma_map", [rng.choice(U64), rng.choice(U64), rng.choice(U64), ro], feat=ft))
            add(line("vdpa", "dma_unmap", [rng.choice(U64), rng.choice(U64)], feat=ft))
        # parsers: UAPI images built here
        for v2 in (False, True):
            op = "parse_v2" if v2 else "parse_v1"
            good = 2 if v2 else 1
            for ty in range(0, 7):
                for perm in range(0, 4):
                    add(line("none", op, buf=iotlb_bytes(v2, good, rng.choice(U64), rng.choice(U64), rng.choice(U64), perm, ty,
                                                          asid=rng.choice([0, 7]), fill=rng.choice([0, 0xff]))))
            for typ in (0, 1, 2, 3, 0x101, 2**31, 2**32 - 1):
                add(line("none", op, buf=iotlb_bytes(v2, typ, 0x1000, 0x2000, 0x3000, 3, 2)))
            for v in pick(U64, 10):
                add(line("none", op, buf=iotlb_bytes(v2, good, v, 2**64 - 1 - v, v ^ 0xa5a5, 1, 3, fill=0xee)))
        # --- vhost-net, vhost-vsock
        for q in pick(Q, 8):
            add(line("net", "set_backend", [q, 0, 0]))
            for fd in pick(FDS, 3):
                add(line("net", "set_backend", [q, 1, fd], rc=(1 if fd == 0x7f else 0)))
        for cid in pick(U64, 10):
            add(line("vsock", "set_guest_cid", [cid]))
        for op in ("start", "stop"):
            for rc in (0, 1):
                add(line("vsock", op, rc=rc))
        # --- vDPA
        for op in ("get_device_id", "get_status", "get_vring_num", "get_iova_range", "get_config_size", "get_vqs_count",
                   "get_group_num", "get_as_num"):
            for wb in WBS:
                add(line("vdpa", op, wb=wb))
            add(line("vdpa", op, wb=WBS[0], rc=1))
        for s in [0, 1, 2, 4, 8, 0xf, 0x40, 0x80, 0xff]:
            add(line("vdpa", "set_status", [s]))
        for op in ("suspend",):
            for rc in (0, 1):
                add(line("vdpa", op, rc=rc))
        for fd in FDS:
            add(line("vdpa", "set_config_call", [fd]))
        for q in pick(Q, 8):
            for en in (0, 1):
                add(line("vdpa", "set_vring_enable", [q, en]))
        for q in pick(U32, 8):
            wb, rc = wbrc()
            add(line("vdpa", "get_vring_group", [q], wb=wb, rc=rc))
            for asid in pick(U32, 3):
                add(line("vdpa", "set_group_asid", [q, asid]))
        lens = list(range(0, 257)) if thorough else [0, 1, 2, 3, 4, 7, 8, 9, 15, 16, 17, 31, 32, 33, 63, 64, 65, 127, 128, 129, 255, 256]
        for ln in lens:
            off = rng.choice(U32)
            add(line("vdpa", "get_config", [off, ln], wb=rng.choice(WBS), rc=(1 if ln == 9 else 0)))
            add(line("vdpa", "set_config", [rng.choice(U32)], buf=(bytes(rng.getrandbits(8) for _ in range(ln)).hex() or "-")))
        # --- ring configurations: validation and address translation
        qsizes = [0, 1, 2, 3, 4, 5, 8, 255, 256, 257, 1024, 32768, 32769, 65535]
        qmaxs = [0, 1, 256, 1024, 32768, 65535]
        flagss = [0, 1, 2, 3, 0x80000000, 0xffffffff]
        mems = mem_layouts(thorough)
        for be in BES:
            # size / log rules (addresses valid for the first layout)
            m = mems[1]
            base = m[0][0]
            for qs, qm in itertools.product(qsizes, qmaxs):
                fl = rng.choice(flagss)
                haslog = rng.choice([0, 1])
                add(line(be, "set_vring_addr", [rng.choice(Q), qm, qs, fl, base + 0x1000, base + 0x20000, base + 0x40000, haslog, rng.choice(U64)],
                         mem=mem_str(m)))
            for fl, haslog in itertools.product(flagss, (0, 1)):
                add(line(be, "set_vring_addr", [1, 256, 256, fl, base + 0x1000, base + 0x20000, base + 0x40000, haslog, 0xabcd000],
                         mem=mem_str(m), rc=(1 if fl == 2 else 0)))
            # translation: every layout, addresses on and around the region boundaries
            for m in mems:
                for qs in ([1, 256] if not thorough else [1, 16, 256, 32768]):
                    pts = ring_points(m, qs)
                    k = 40 if thorough else 12
                    for _ in range(k):
                        d, u, a = rng.choice(pts), rng.choice(pts), rng.choice(pts)
                        add(line(be, "set_vring_addr", [rng.choice(Q), rng.choice([qs, 65535]), qs, rng.choice([0, 1]), d, u, a,
                                                        rng.choice([0, 1]), rng.getrandbits(64)], mem=mem_str(m)))
                    # one certainly valid configuration per region triple
                    for (g1, s1, _), (g2, s2, _), (g3, s3, _) in [(rng.choice(m), rng.choice(m), rng.choice(m)) for _ in range(3)]:
                        if s1 > 16 * qs + 0x20 and s2 > 6 + 8 * qs + 0x20 and s3 > 6 + 2 * qs + 0x20:
                            add(line(be, "set_vring_addr", [rng.choice(Q), 32768, qs, 1, g1 + 0x10, g2 + 4, g3 + 2, 1, rng.choice(U64)],
                                     mem=mem_str(m)))
                            add(line(be, "is_valid", [0, 32768, qs, 0, g1 + 0x10, g2 + 4, g3 + 2, 0, 0], mem=mem_str(m)))
        return L


FAMILIES = [KernFamily()]
