"""C12 — no lost or post-stop kick dispatch under any interleaving of guest, worker thread and control thread."""
import itertools
import re
from .family import Family

PROPS_MODULES = ["C12", "C12Live", "LtsSteps", "HandlerOps"]
RULE = ("family `worker`: a real VhostUserDaemon (RecordingBackend; VringMutex and VringRwLock rings) whose worker thread and "
        "request thread are parked at the hold points of feature verif-hooks (event_loop.rs: before epoll.wait, after it "
        "returned an event, before read_kick, after read_kick, before backend.handle_event; handler.rs: after every ring "
        "state change of set_vring_enable / get_vring_base / reset_device / set_vring_kick / initialize_vring, after the "
        "epoll add/delete of update_vring_registration) by a schedule controller registered with "
        "verif_hooks::set_controller. A scenario line is a word over {K = guest kick, W = the worker runs to its next hold "
        "point, C = the control thread runs to its next hold point / replies}; enumerated: ALL interleavings of the chain "
        "K·W^n with the control chain of scenario disable (SET_VRING_ENABLE 0: state, epoll, reply; n=5: 84 words), reset "
        "(RESET_DEVICE on 2 rings: state, epoll, state1, epoll1, reply; n=5: 462 words), stop/restart (GET_VRING_BASE: state, "
        "epoll, drop, reply; then SET_VRING_KICK with a fresh fd: state, ready, epoll, reply; n=4: 1287 words) and stopnf "
        "(GET_VRING_BASE: state, epoll, drop, reply; then SET_VRING_KICK with the no-descriptor flag and no fd: state, "
        "epoll, reply -- it must not mark the ring ready; n=4: 792 words; the restart with a fresh fd is part of the "
        "epilogue), each on both ring types, in both tiers. What every token did is observed (hold point reached, reply "
        "readable, readability of each kick eventfd), then everything runs free, the ring is activated again, one more kick "
        "is raised and the handler calls are counted after barriers. The Spec driver turns the trace into the history of "
        "Spec.KickDelivery and judges P1 (no handler entry between the reply of a disabling/stopping message and the begin "
        "of the enabling/restarting one; a descriptor-less SET_VRING_KICK is not a restarting message, so in stopnf the "
        "period opened by the GET_VRING_BASE reply stays open for the rest of the schedule) and P2 (no wake-up consumed without a handler call, worker alive, every kick on "
        "the active ring delivered at the end); the model driver (Model.Worker LTS, repaired configuration) must predict "
        "trace and counts. A failing run is identified by scenario + effective hold-point order up to the violation; keys "
        "listed in known_findings.txt are reported as KNOWN-FINDING. distinct = distinct scenario lines; non-trivial = "
        "runs in which the worker was woken for the ring's event while the control message was not yet answered, or vice "
        "versa (both threads inside their sequences at the same time).")
ASSUMPTIONS = [
    "the code segments between hold points are atomic with respect to each other (each takes the ring lock; no hold point "
    "lies inside a critical section)",
    "Linux epoll level-triggered, eventfd counters; non-blocking kick eventfds (a blocking one makes the stale read block "
    "inside the ring lock instead of ending the worker)",
    "P1's forbidden period ends when the daemon begins to handle the enabling / restarting message (conservative reading)",
    "liveness ('eventually') is judged after the system ran free to quiescence; fairness of the OS scheduler",
    "weak-memory effects below lock granularity are not modelled",
]


def words(chain_a, n_c):
    """all interleavings of the list chain_a with n_c copies of 'C' (both in order)"""
    total = len(chain_a) + n_c
    out = []
    for pos in itertools.combinations(range(total), n_c):
        ps = set(pos)
        it = iter(chain_a)
        out.append(",".join("C" if i in ps else next(it) for i in range(total)))
    return out


# scenario -> (segments of the control chain on the unmodified tree, n of K·W^n)
SCEN = {"disable": (3, 5), "reset": (5, 5), "stop": (8, 4), "stopnf": (7, 4)}


class WorkerFamily(Family):
    name = "worker"
    timeout = 3000

    def generate(self, tier, rng):
        L = []
        for scen, (nc, nw) in SCEN.items():
            for w in words(["K"] + ["W"] * nw, nc):
                for cfg in ("mutex", "rwlock"):
                    L.append(f"worker scen={scen} cfg={cfg} sched={w}")
            # the control chain alone and the worker alone (no interaction), and a kick that comes after everything
            for cfg in ("mutex", "rwlock"):
                L.append(f"worker scen={scen} cfg={cfg} sched={','.join(['C'] * nc)}")
                L.append(f"worker scen={scen} cfg={cfg} sched={','.join(['C'] * nc + ['K'] + ['W'] * nw)}")
                L.append(f"worker scen={scen} cfg={cfg} sched=-")
        rng.shuffle(L)           # a worker that ended costs one watchdog period: spread those runs over the chunks
        L.sort(key=lambda l: l.count(","))
        return L

    def nontrivial(self, line, obs):
        m = re.search(r"tr=(\S+)", obs)
        if not m:
            return False
        toks = [t.split("/")[0] for t in m.group(1).split(",")]
        in_ctl = False
        in_wrk = False
        for t in toks:
            if t.startswith("w."):
                if t in ("w.woken", "w.chk", "w.read1"):
                    in_wrk = True
                elif t in ("w.disp", "w.read0", "w.skip", "w.dead"):
                    if in_ctl and in_wrk:
                        return True
                    in_wrk = False
                if in_ctl and in_wrk:
                    return True
            elif t.endswith(".reply"):
                in_ctl = False
            elif "." in t and not t.startswith("c."):
                in_ctl = True
                if in_wrk:
                    return True
        return False

    def finding_key(self, line, obs, so):
        m = re.search(r"key=(\S+)", so or "")
        return m.group(1) if m else "worker:" + (so or "no-verdict")

    def describe_spec_failure(self, line, obs, so):
        why = (so or "no verdict").replace("spec-fail ", "")
        kind = why.split(" ")[0]
        return (f"worker {kind}: {why}; schedule `{line}` observed `{obs[:500]}`")

    def distribution(self, lines, impl, dist):
        d = dist.setdefault("worker", {"scenarios": 0, "by_scenario": {}, "tokens": {}, "worker_ended": 0, "window_exercised": 0})
        for l in lines:
            d["scenarios"] += 1
            sc = re.search(r"scen=(\w+)", l).group(1)
            d["by_scenario"][sc] = d["by_scenario"].get(sc, 0) + 1
            o = impl.get(l, "")
            m = re.search(r"tr=(\S+)", o)
            if m and m.group(1) != "-":
                for t in m.group(1).split(","):
                    k = t.split("/")[0]
                    d["tokens"][k] = d["tokens"].get(k, 0) + 1
            if "w.dead" in o:
                d["worker_ended"] += 1
            if self.nontrivial(l, o):
                d["window_exercised"] += 1


FAMILIES = [WorkerFamily()]
