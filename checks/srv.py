"""Correspondence family `srv`: request histories fed to the real BackendReqHandler by the raw peer."""
from . import common as C
from . import vu
from .family import Family


class SrvFamily(Family):
    name = "srv"

    def __init__(self, modes=("wf", "gate", "malformed"), quick=(1500, 1200, 2500), thorough=(30000, 20000, 60000)):
        super().__init__()
        self.modes = modes
        self.sizes = {"quick": dict(zip(("wf", "gate", "malformed"), quick)),
                      "thorough": dict(zip(("wf", "gate", "malformed"), thorough))}

    # ---------------------------------------------------------------- generators
    def gen_wf(self, rng, n):
        """well-formed histories over the whole request alphabet, NEED_REPLY per request, handler ok/fail"""
        out = []
        # exhaustive part: every implemented request x NEED_REPLY x handler ok/fail after each negotiation prefix
        for kind in (0, 1, 2, 3, 5):
            for code in vu.IMPLEMENTED:
                for need in (0, 8):
                    for fail in (0.0, 1.0):
                        pre, *_ = vu.negotiation(rng, kind)
                        body, nf = vu.valid_request(rng, code)
                        out.append("srv " + " | ".join(pre + [vu.step(code, 1 | need, body, nf, vu.hout(rng, code, fail))]))
        # the largest legal message: a body of exactly MAX_MSG_SIZE bytes (config access of 4084 bytes), followed by more traffic
        for code in (vu.SET_CONFIG, vu.GET_CONFIG):
            for need in (0, 8):
                pre, *_ = vu.negotiation(rng, 2)
                body = vu.config(0, 0xff4, 0, bytes(range(256)) * 15 + bytes(244))
                # GET_CONFIG: the handler returns exactly the 4084 bytes asked for (the largest reply there is)
                h = "h=ok,v=0,b=" + "5a" * 0xff4 if code == vu.GET_CONFIG else vu.hout(rng, code, 0.0)
                out.append("srv " + " | ".join(pre + [vu.step(code, 1 | need, body, 0, h),
                                                      vu.step(vu.GET_FEATURES, 1, "", 0, "h=ok,v=1")]))
        while len(out) < n:
            pre, *_ = vu.negotiation(rng, rng.choice([0, 1, 2, 2, 2, 3, 4, 5]))
            steps = list(pre)
            for _ in range(rng.randint(1, 10)):
                code = rng.choice(vu.IMPLEMENTED)
                body, nf = vu.valid_request(rng, code)
                steps.append(vu.step(code, 1 | rng.choice([0, 8]), body, nf, vu.hout(rng, code)))
            out.append("srv " + " | ".join(steps))
        return out

    def gen_gate(self, rng, n):
        """gating: every gated request with exactly its bit missing / exactly its bit present / random subsets,
        and orders of the negotiation messages"""
        out = []
        gated = sorted(vu.GATE)
        allbits = sorted(set(vu.GATE.values()) | {vu.P_REPLY_ACK})
        for code in gated + [vu.SET_VRING_ENABLE]:
            bit = vu.GATE.get(code)
            masks = []
            if bit is not None:
                full = sum(1 << b for b in allbits)
                masks = [full & ~(1 << bit), 1 << bit, 0, full, (1 << bit) | (1 << vu.P_REPLY_ACK)]
            else:
                masks = [0, (1 << 22) - 1]
            for pm in masks:
                for virt_acked in (vu.F_PROTOCOL_FEATURES, 0):
                    for need in (0, 8):
                        steps = [vu.step(vu.GET_FEATURES, 1, "", 0, f"h=ok,v={vu.F_PROTOCOL_FEATURES:x}"),
                                 vu.step(vu.SET_FEATURES, 1, vu.u64(virt_acked), 0, "h=ok"),
                                 vu.step(vu.SET_PROTOCOL_FEATURES, 1, vu.u64(pm), 0, "h=ok")]
                        body, nf = vu.valid_request(rng, code)
                        steps.append(vu.step(code, 1 | need, body, nf, vu.hout(rng, code, 0.0)))
                        out.append("srv " + " | ".join(steps))
        # gated request before any negotiation, and after negotiation in unusual orders
        neg_msgs = [lambda: vu.step(vu.GET_FEATURES, 1, "", 0, f"h=ok,v={rng.choice([0, vu.F_PROTOCOL_FEATURES]):x}"),
                    lambda: vu.step(vu.SET_FEATURES, 1, vu.u64(rng.choice([0, vu.F_PROTOCOL_FEATURES])), 0, "h=ok"),
                    lambda: vu.step(vu.GET_PROTOCOL_FEATURES, 1, "", 0, f"h=ok,v={rng.getrandbits(22):x}"),
                    lambda: vu.step(vu.SET_PROTOCOL_FEATURES, 1, vu.u64(rng.choice([0, rng.getrandbits(22), (1 << 22) - 1])), 0,
                                    rng.choice(["h=ok", "h=fail"]))]
        while len(out) < n:
            steps = [rng.choice(neg_msgs)() for _ in range(rng.randint(0, 4))]
            for _ in range(rng.randint(1, 3)):
                code = rng.choice(gated + [vu.SET_VRING_ENABLE])
                body, nf = vu.valid_request(rng, code)
                steps.append(vu.step(code, 1 | rng.choice([0, 8]), body, nf, vu.hout(rng, code, 0.1)))
                if rng.random() < 0.3:
                    steps.append(rng.choice(neg_msgs)())
            out.append("srv " + " | ".join(steps))
        return out

    def mutate(self, rng, code, body, nf):
        """one grammar-aware mutation of a valid request: returns (header flags, size field or None, body, nfds, close)"""
        flags, size, close = 1 | rng.choice([0, 8]), None, False
        b = bytearray(bytes.fromhex(body))
        m = rng.choice(["size", "flags", "code", "trunc", "extend", "field", "fds", "fds", "field", "garbage"])
        if m == "size":
            size = rng.choice([0, 1, len(b) - 1 if b else 7, len(b) + 1, len(b) + 8, 0x1000, 0x1001, 2**31, 2**32 - 1])
            close = size is not None and size > len(b)
        elif m == "flags":
            flags = rng.choice([0, 2, 3, 5, 4 | 1, 0x11, 0x80000001, 0xffffffff, 9, 0xd])
        elif m == "code":
            code = rng.choice([0, 7, 19, 20, 22, 23, 26, 27, 35, 39, 40, 45, 46, 255, 2**31, 2**32 - 1])
        elif m == "trunc" and b:
            k = rng.randrange(0, len(b))
            b = b[:k]
            size = rng.choice([None, len(bytes.fromhex(body))])
            close = size is not None
        elif m == "extend":
            b = b + bytes(rng.getrandbits(8) for _ in range(rng.choice([1, 4, 8, 12, 32])))
            size = rng.choice([None, len(bytes.fromhex(body))])
        elif m == "field" and b:
            # overwrite one aligned word with a boundary value
            w = rng.choice([4, 8])
            if len(b) >= w:
                off = rng.randrange(0, len(b) - w + 1, 4)
                val = rng.choice(C.U64 if w == 8 else C.U32)
                b[off:off + w] = (val % (1 << (8 * w))).to_bytes(w, "little")
        elif m == "fds":
            nf = rng.choice([0, 1, 2, 3, 31, 32, 33, 40])
        elif m == "garbage":
            b = bytearray(rng.getrandbits(8) for _ in range(rng.choice([0, 1, 7, 12, 13, 40, 100])))
        return code, flags, size, b.hex(), nf, close

    def gen_malformed(self, rng, n):
        out = []
        while len(out) < n:
            pre, *_ = vu.negotiation(rng, rng.choice([0, 1, 2, 2, 2, 3, 4]))
            steps = list(pre)
            k = rng.randint(1, 4)
            for i in range(k):
                code = rng.choice(vu.IMPLEMENTED)
                body, nf = vu.valid_request(rng, code)
                if rng.random() < 0.7:
                    code2, flags, size, body2, nf2, close = self.mutate(rng, code, body, nf)
                    steps.append(vu.step(code2, flags, body2, nf2, vu.hout(rng, code), size=size, close=close))
                    if close:
                        break
                else:
                    steps.append(vu.step(code, 1 | rng.choice([0, 8]), body, nf, vu.hout(rng, code)))
            if rng.random() < 0.15 and not steps[-1].endswith(" close"):
                # raw garbage instead of a message
                g = bytes(rng.getrandbits(8) for _ in range(rng.choice([1, 5, 11, 12, 13, 30])))
                steps.append(f"m {g.hex()} f{rng.choice([0, 0, 1, 3])} h=ok close")
            out.append("srv " + " | ".join(steps))
        return out

    def gen_queued(self, rng):
        """the body arrives in two deliveries and the next request is already queued behind the second one: the body read must
        stop at the end of the body and must not write past its buffer (overflow checks / heap corruption = abort = violation)"""
        out = []
        nxt = vu.hdr(vu.GET_FEATURES, 1, 0)
        for code in vu.IMPLEMENTED:
            body, nf = vu.valid_request(rng, code)
            if len(body) < 4:
                continue
            pre, *_ = vu.negotiation(rng, 2)
            full = vu.hdr(code, 1, len(body) // 2) + body
            n2 = len(full)
            for k in sorted(set([26, 24 + len(body) // 4 * 2, n2 - 2])):
                if 24 < k < n2:
                    out.append("srv " + " | ".join(pre + [f"m {full[:24]}+{full[24:k]}+{full[k:]}{nxt} f{nf} {vu.hout(rng, code, 0.0)} seq",
                                                          "m - f0 h=ok,v=1"]))
        return out

    def gen_bodyfds(self, rng):
        """descriptors attached in the middle of a message (on the body segment, header and body written separately), for
        every request that has a body, with and without the descriptors the request itself takes on its first byte"""
        out = []
        for code in vu.IMPLEMENTED:
            body, nf = vu.valid_request(rng, code)
            if not body:
                continue
            for nb in (1, 3):
                for seq in ("", " seq"):
                    for need in (0, 8):
                        pre, *_ = vu.negotiation(rng, 2)
                        h = vu.hdr(code, 1 | need, len(body) // 2)
                        out.append("srv " + " | ".join(pre + [f"m {h}+{body} f{nf} {vu.hout(rng, code, 0.0)} bf{nb}{seq}",
                                                              vu.step(vu.GET_FEATURES, 1, "", 0, "h=ok,v=1")]))
        return out

    def generate(self, tier, rng):
        sz = self.sizes[tier]
        L = []
        if "bodyfds" in self.modes:
            L += self.gen_bodyfds(rng)
        if "queued" in self.modes:
            L += self.gen_queued(rng)
        if "wf" in self.modes:
            L += self.gen_wf(rng, sz["wf"])
        if "gate" in self.modes:
            L += self.gen_gate(rng, sz["gate"])
        if "malformed" in self.modes:
            L += self.gen_malformed(rng, sz["malformed"])
        return L

    # ---------------------------------------------------------------- evaluation
    @staticmethod
    def steps(obs):
        return [p.strip() for p in obs.split(" | ") if p.strip().startswith("r=")]

    def nontrivial(self, line, obs):
        """at least one handler call or one refusal"""
        return any(" c=-" not in p or p.startswith("r=err.") for p in self.steps(obs))

    def distribution(self, lines, impl, dist):
        d = dist.setdefault("srv", {"scenarios": 0, "steps": 0, "steps_with_handler_call": 0, "results": {}, "requests": {}})
        for l in lines:
            d["scenarios"] += 1
            o = impl.get(l, "")
            for p in o.split(" | "):
                if not p.startswith("r="):
                    continue
                d["steps"] += 1
                r = p.split()[0][2:]
                d["results"][r] = d["results"].get(r, 0) + 1
                if " c=-" not in p:
                    d["steps_with_handler_call"] += 1
                    nm = p.split(" c=")[1].split(":")[0]
                    d["requests"][nm] = d["requests"].get(nm, 0) + 1

    def finding_key(self, line, obs, so):
        # spec failure text names the clause: "spec-fail <clause> step=<i> ..."
        return "srv:" + (so.split()[1] if so and so.startswith("spec-fail") and len(so.split()) > 1 else "?")
