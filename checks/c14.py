"""C14 — ring configuration and negotiated features reach queues and backend unchanged."""
import itertools
from .family import Family

PROPS_MODULES = ["C14", "HandlerOps"]
RULE = ("family `vq`: a real VhostUserDaemon (RecordingBackend behind the crate's Mutex / RwLock adapters, 1..4 rings, "
        "max_queue_size 1..32768, arbitrary offered feature and protocol-feature masks) is driven by an independent raw "
        "vhost-user peer with SET_VRING_NUM / ADDR / BASE, GET_VRING_BASE, SET_VRING_KICK / CALL / ERR (raw u64 payloads), "
        "SET_VRING_ENABLE, SET_FEATURES, SET_PROTOCOL_FEATURES, SET_BACKEND_REQ_FD and memory-table updates, in arbitrary order: "
        "ring indexes 0..255 and beyond (u32 path: 0x100, 0x101, 2^16, 2^32-1), sizes and bases over the 0..65535 lattice and "
        "random values and beyond, used-index contents written into the memfd by the front-end, address triples inside and just "
        "outside the mapped regions and misaligned, feature masks that are subsets / non-subsets of the offered mask. After "
        "every message the accessors (size, ready, next_avail, next_used, desc/avail/used address, event_idx, enabled) of every "
        "ring are sampled inside the backend's handle_event (delivery of a custom listener), together with the backend callback "
        "log; `use` ops run add_used + signal_used_queue from inside handle_event and report every changed byte of every memfd "
        "and the counter of every call eventfd the scenario created; `breq` issues shared_object_add / shmem_map through the "
        "Backend the backend was handed and reads the other end of the channel. The Spec driver (Spec.Vring + Spec.MemTable) "
        "judges every token; the model driver predicts every token from Model.Vring. The adapter table Gen.Adapters is "
        "regenerated from the Arc/Mutex/RwLock impls and `adapters_delegate` re-proved on every run. "
        "distinct = distinct scenario lines; non-trivial = scenarios with at least one accepted and one refused message, or a "
        "ring operation, or an accepted SET_FEATURES.")
ASSUMPTIONS = ["virtio-queue 0.17.0 setter rules and add_used layout, vm-memory atomic u16 access rule (read from the crate "
               "sources, exercised by the correspondence run)",
               "Linux eventfd counter semantics",
               "a SET_VRING_NUM value within the maximum that is not a power of two is accepted by the handler and ignored by "
               "virtio-queue: recorded (DESIGN.md section 7, C14 Limits), neither alarmed nor required",
               "max_queue_size is a power of two <= 32768 (virtio-queue refuses anything else when the daemon is created)",
               "kick registration with epoll, ring start/stop and enabling are C11/C12's subject: `ready`/`enabled` are sampled and "
               "compared with the model but the Spec driver does not judge them"]
EXTRA_TRUSTED = ["tools/rs2lean_adapters.py (adapter-table translator; fails loudly on any method body that is not a plain delegation)"]

PG = 0x1000
U64 = 2**64
UBASE = 0x7f00_0000_0000
GBASE = 0x100000
LAT16 = [0, 1, 2, 3, 0xff, 0x100, 0x7fff, 0x8000, 0xfffe, 0xffff]


def hx(v):
    return "%x" % v


class VS:
    """one scenario under construction"""

    def __init__(self, rng, nq=3, maxq=1024, off=None, poff=0x8229, files=("f10000",)):
        self.rng, self.nq, self.max = rng, nq, maxq
        self.off = 0x1_7000_0000 if off is None else off
        self.poff = poff
        self.files = list(files)
        self.ops = []

    def add(self, *ops):
        self.ops += ops
        return self

    def mem(self, size=0x10000, fi=0, gpa=GBASE, uaddr=UBASE, off=0):
        self.ops.append(f"mt:{hx(gpa)}/{hx(size)}/{hx(uaddr)}/{hx(off)}/{hx(fi)}")

    def sizes(self):
        # distinct configured sizes per ring (powers of two within the maximum)
        pows = [1 << k for k in range(16) if (1 << k) <= self.max]
        for q in range(self.nq):
            self.ops.append(f"num:{hx(q)}:{hx(pows[max(0, len(pows) - 1 - q)])}")

    def line(self, vr, lk):
        return (f"vq vr={vr} lk={lk} nq={hx(self.nq)} max={hx(self.max)} off={hx(self.off)} poff={hx(self.poff)} "
                f"files={','.join(self.files) if self.files else '-'} " + " ".join(self.ops))


def masks(rng):
    return rng.choice([0, U64 - 1, 0x1_7000_0000, 0x1_5000_0000, 1 << 29, 1 << 30, (1 << 29) | (1 << 30), rng.getrandbits(64),
                       rng.getrandbits(64) | (1 << 29), rng.getrandbits(64) & ~(1 << 29), rng.getrandbits(64) & rng.getrandbits(64),
                       0x4000_0000, 0x1_0000_0000 | (1 << 63), 0xffff_ffff, 0xffff_ffff_0000_0000])


def submask(rng, m):
    return m & rng.getrandbits(64)


def bad_indexes(nq):
    return [nq, nq + 1, 0xff, 0x100, 0x100 + (nq - 1), 0x101, 0x10000, 0x10000 + (nq - 1), 2**32 - 1, 2**31]


class VqFamily(Family):
    name = "vq"
    timeout = 3000

    def __init__(self):
        super().__init__()
        self._variant = itertools.cycle([("mutex", "mutex"), ("rwlock", "rwlock"), ("rwlock", "mutex"), ("mutex", "rwlock")])

    def emit(self, L, s):
        vr, lk = next(self._variant)
        L.append(s.line(vr, lk))

    def generate(self, tier, rng):
        thorough = tier == "thorough"
        mult = 25 if thorough else 1
        L = []
        MAXES = [1, 2, 16, 256, 1024, 32768]

        # V1: sizes — the whole lattice against every maximum, valid and invalid indexes
        for maxq in MAXES:
            lat = sorted(set([0, 1, 2, 3, 4, 5, 7, 8, 15, 16, 17, 0xff, 0x100, 0x101, 0x3ff, 0x400, 0x401, 0x7fff, 0x8000, 0x8001,
                              0xffff, 0x10000, 0x10001, 0x10000 + maxq, 0x20000, 2**31, 2**32 - 1, maxq - 1, maxq, maxq + 1, 2 * maxq,
                              max(1, maxq // 2), maxq // 2 + 1, 3 * maxq // 4]))
            for rep in range(6 * mult):
                s = VS(rng, nq=rng.choice([1, 2, 3, 3, 4]), maxq=maxq)
                s.sizes()
                vals = rng.sample(lat, min(len(lat), 7)) + [rng.randrange(0, 65536), rng.randrange(0, 2**32)]
                rng.shuffle(vals)
                for v in vals:
                    q = rng.randrange(s.nq) if rng.random() < 0.8 else rng.choice(bad_indexes(s.nq))
                    s.add(f"num:{hx(q)}:{hx(v)}")
                self.emit(L, s)
            # every lattice value once on ring 0 (and a power of two on a bad index)
            s = VS(rng, nq=3, maxq=maxq)
            for v in lat:
                s.add(f"num:0:{hx(v)}")
            for q in bad_indexes(3):
                s.add(f"num:{hx(q)}:1")
            self.emit(L, s)

        # V2: base round trips with other messages in between
        for rep in range(150 * mult):
            s = VS(rng, nq=rng.choice([1, 2, 3, 3, 4]), maxq=rng.choice(MAXES[2:]))
            s.sizes()
            if rep % 3 == 0:
                s.mem()
            for _ in range(rng.randrange(2, 5)):
                q = rng.randrange(s.nq)
                b = rng.choice(LAT16 + [rng.randrange(65536)])
                s.add(f"base:{hx(q)}:{hx(b)}")
                for _ in range(rng.randrange(0, 4)):
                    other = rng.randrange(s.nq)
                    s.add(rng.choice([f"num:{hx(other)}:{hx(rng.choice([1, 2, 16, 3, 0]))}",
                                      f"base:{hx((q + 1) % s.nq)}:{hx(rng.choice(LAT16))}" if s.nq > 1 else f"num:0:1",
                                      f"kick:{hx(other)}:1", f"call:{hx(other)}:1", f"err:{hx(other)}:1",
                                      f"feat:{hx(submask(rng, s.off))}", f"pfeat:{hx(rng.choice([0x8229, 0x8, 0]))}",
                                      f"base:{hx(rng.choice(bad_indexes(s.nq)))}:{hx(b ^ 1)}",
                                      f"addr:{hx(other)}:{hx(UBASE)}/{hx(UBASE + 0x1000)}/{hx(UBASE + 0x2000)}"]))
                s.add(f"gb:{hx(q)}")
                if rng.random() < 0.3:
                    s.add(f"gb:{hx(rng.choice(bad_indexes(s.nq)))}")
            self.emit(L, s)

        # V3: addresses — triples inside, at the edges, just outside, misaligned; used-index contents from the lattice
        for rep in range(260 * mult):
            s = VS(rng, nq=3, maxq=rng.choice([16, 256, 1024]), files=("f10000", "f10000"))
            s.sizes()
            size = rng.choice([0x10000, 0x8000, 0x3000])
            foff = rng.choice([0, 0, PG, 0x4000]) if size <= 0x8000 else 0
            ub = rng.choice([UBASE, 0x10000, 2**63, U64 - 0x20000])
            gb = rng.choice([GBASE, 0, 0x7fff0000, 2**40])
            if rep % 7 == 6:
                s.add(f"addr:0:{hx(ub)}/{hx(ub + 0x100)}/{hx(ub + 0x200)}")      # before any table: refused
            s.mem(size=size, off=foff, uaddr=ub, gpa=gb)
            two = rep % 4 == 1 and size <= 0x8000
            if two:   # a second, adjacent region on the other file
                s.add(f"pfeat:8229", f"add:{hx(gb + size)}/{hx(0x4000)}/{hx(ub + size)}/0/1")
            end = size + (0x4000 if two else 0)
            for _ in range(rng.randrange(2, 6)):
                q = rng.randrange(3) if rng.random() < 0.9 else rng.choice(bad_indexes(3))
                uoff = rng.choice([0, 0x40, 0x1000, size - 0x10, size - 4, end - 4, end - 0x10, size, end, end + 4,
                                   rng.randrange(0, end // 4) * 4])
                doff = rng.choice([0, 0x10, size - 0x10, end - 0x10, end, rng.randrange(0, end // 16) * 16])
                aoff = rng.choice([0, 2, size - 2, end - 2, end, rng.randrange(0, end // 2) * 2])
                if rng.random() < 0.1:
                    doff += rng.choice([1, 8])          # misaligned: refused by the validator
                if rng.random() < 0.06:
                    aoff += 1
                if rng.random() < 0.06:
                    uoff += 2
                # used-index contents (front-end writes them through the file)
                if uoff + 4 <= size:
                    s.add(f"ui:0/{hx(foff + uoff + 2)}:{hx(rng.choice(LAT16 + [rng.randrange(65536)]))}")
                elif two and size <= uoff and uoff + 4 <= end:
                    s.add(f"ui:1/{hx(uoff - size + 2)}:{hx(rng.choice(LAT16))}")
                s.add(f"addr:{hx(q)}:{hx((ub + doff) % U64)}/{hx((ub + aoff) % U64)}/{hx((ub + uoff) % U64)}")
            if rng.random() < 0.3:
                s.add(f"addr:1:{hx((ub - 0x10) % U64)}/{hx(ub)}/{hx(ub)}")
            self.emit(L, s)

        # V4: descriptor messages — every index 0..255 class, flag bit, high bits; enable
        for rep in range(140 * mult):
            s = VS(rng, nq=rng.choice([1, 2, 3, 4]), maxq=256, off=rng.choice([0x1_7000_0000, 0x1_3000_0000]))
            s.add(f"feat:{hx(s.off)}")
            for _ in range(rng.randrange(4, 10)):
                k = rng.choice(["kick", "call", "err"])
                idx = rng.choice(list(range(s.nq)) * 3 + [s.nq, 5, 0x7f, 0x80, 0xfe, 0xff, rng.randrange(256)])
                x = rng.random()
                if x < 0.6:
                    p, fd = idx, 1
                elif x < 0.8:
                    p, fd = idx | 0x100, 0
                elif x < 0.86:
                    p, fd = idx, 0                  # descriptor announced but missing
                elif x < 0.92:
                    p, fd = idx | 0x100, 1          # descriptor attached but flagged absent
                else:
                    p, fd = idx | rng.choice([0x200, 1 << 32, 1 << 63]), 1
                s.add(f"{k}:{hx(p)}:{fd}")
                if rng.random() < 0.3:
                    s.add(f"en:{hx(rng.choice(list(range(s.nq)) + bad_indexes(s.nq)[:4]))}:{rng.randrange(2)}")
            self.emit(L, s)

        # V5: features — arbitrary offered masks, subsets and non-subsets, several rounds, 1..4 rings
        for rep in range(330 * mult):
            off = masks(rng)
            s = VS(rng, nq=rng.choice([1, 2, 3, 3, 4]), maxq=rng.choice([16, 1024]), off=off)
            if rep % 3 == 0:
                s.sizes()
            for _ in range(rng.randrange(2, 6)):
                x = rng.random()
                if x < 0.45:
                    f = submask(rng, off)
                elif x < 0.55:
                    f = off
                elif x < 0.62:
                    f = 0
                elif x < 0.72:
                    f = off & ~(1 << 29)
                elif x < 0.8:
                    f = (off & (1 << 29)) | submask(rng, off)
                else:
                    extra = [b for b in range(64) if not off >> b & 1]
                    f = submask(rng, off) | (1 << rng.choice(extra)) if extra else off
                s.add(f"feat:{hx(f)}")
                if rng.random() < 0.3:
                    s.add(f"en:{hx(rng.randrange(s.nq))}:{rng.randrange(2)}")
                if rng.random() < 0.2:
                    s.add(f"num:{hx(rng.randrange(s.nq))}:{hx(rng.choice([1, 2, 4, 8, 16]))}")
            self.emit(L, s)

        # V6: protocol features and the backend-request channel
        combos = [0x20, 0x28, 0x40020, 0x40028, 0x200020, 0x200028, 0x240020, 0x240028, 0x8, 0x240008, 0, U64 - 1, 0x240028 | 0x8201]
        for rep in range(60 * mult):
            s = VS(rng, nq=2, maxq=16, poff=rng.choice([0x8229, 0, 0x240228, rng.getrandbits(22)]))
            for _ in range(rng.randrange(1, 4)):
                p = rng.choice(combos + [rng.getrandbits(22) | 0x20, rng.getrandbits(64)])
                s.add(f"pfeat:{hx(p)}")
                if rng.random() < 0.3:
                    s.add(f"num:0:{hx(rng.choice([1, 2, 4]))}")
            s.add("breq")
            if rng.random() < 0.3:
                s.add(f"pfeat:{hx(rng.choice(combos))}", "breq")
            self.emit(L, s)

        # V7: ring operations — latest table, latest call descriptor
        for rep in range(330 * mult):
            s = VS(rng, nq=3, maxq=rng.choice([16, 256]), files=("f10000", "f10000"))
            s.add("pfeat:8229")
            s.sizes()
            s.mem(size=0x8000, fi=0)
            rings = {}
            for q in rng.sample(range(3), rng.randrange(1, 4)):
                uoff = rng.choice([0x1000, 0x2000 + 0x100 * q, 0x7000, 0x8000 - 4 - 8 * rng.choice([1, 2, 16])]) & ~3
                s.add(f"ui:0/{hx(uoff + 2)}:{hx(rng.choice(LAT16 + [rng.randrange(65536)]))}")
                s.add(f"addr:{hx(q)}:{hx(UBASE)}/{hx(UBASE + 0x800)}/{hx(UBASE + uoff)}")
                rings[q] = uoff
            acts = []
            for _ in range(rng.randrange(3, 9)):
                q = rng.choice(list(rings) * 3 + [rng.randrange(3)])
                x = rng.random()
                if x < 0.4:
                    s.add(f"use:{hx(q)}:{hx(rng.choice([0, 1, 5, 15, 16, 255, 256, 0xffff]))}:{hx(rng.choice([0, 1, 0x1000, 2**32 - 1, rng.getrandbits(32)]))}")
                elif x < 0.6:
                    s.add(f"call:{hx(q)}:1")
                elif x < 0.68:
                    s.add(f"call:{hx(q | 0x100)}:0")
                elif x < 0.74:
                    s.add(f"gb:{hx(q)}")
                elif x < 0.8:
                    s.add(f"call:{hx(rng.choice([3, 0xff, 0x103]))}:1")
                elif x < 0.88:
                    # replace the table: same guest range on the other file, or a different range
                    if rng.random() < 0.7:
                        s.mem(size=0x8000, fi=rng.choice([0, 1]))
                    else:
                        s.mem(size=0x8000, fi=1, gpa=GBASE + 0x100000)
                elif x < 0.93:
                    s.add(f"rem:{hx(GBASE)}/{hx(0x8000)}/{hx(UBASE)}/0")
                elif x < 0.97:
                    s.add(f"add:{hx(GBASE)}/{hx(0x8000)}/{hx(UBASE)}/0/{rng.choice([0, 1])}")
                else:
                    s.add(f"kick:{hx(q)}:1")
            q = rng.choice(list(rings))
            s.add(f"use:{hx(q)}:0:7")
            if rep % 5 == 0:
                s.add(f"use:{hx(rng.choice([3, 4, 0xff]))}:0:0")
            self.emit(L, s)

        # V8: everything mixed, seeded
        for rep in range(700 * mult):
            off = masks(rng) | rng.choice([0, 1 << 30])
            s = VS(rng, nq=rng.choice([1, 2, 3, 3, 4]), maxq=rng.choice(MAXES), off=off, files=("f10000", "f10000"),
                   poff=rng.choice([0x8229, 0, rng.getrandbits(22)]))
            have_mem = False
            for _ in range(rng.randrange(6, 14)):
                q = rng.randrange(s.nq) if rng.random() < 0.85 else rng.choice(bad_indexes(s.nq))
                x = rng.random()
                if x < 0.14:
                    s.add(f"num:{hx(q)}:{hx(rng.choice([0, 1, 2, 3, 16, s.max, s.max + 1, s.max // 2 or 1, 0xffff, rng.randrange(65536)]))}")
                elif x < 0.26:
                    s.add(f"base:{hx(q)}:{hx(rng.choice(LAT16 + [rng.randrange(65536)]))}")
                elif x < 0.34:
                    s.add(f"gb:{hx(q)}")
                elif x < 0.44:
                    s.add(f"feat:{hx(submask(rng, off) | (rng.choice([0, 0, 0, 1]) << rng.randrange(64)))}")
                elif x < 0.5:
                    s.add(f"pfeat:{hx(rng.choice([0x8229, 0x8221, 0x20, 0x240028, 0]))}")
                elif x < 0.58:
                    s.mem(size=rng.choice([0x8000, 0x10000]), fi=rng.randrange(2))
                    have_mem = True
                elif x < 0.7:
                    uoff = rng.choice([0, 0x1000, 0x7ff0, 0x7ffc, 0x8000, 0xfffc, 0x10000])
                    s.add(f"addr:{hx(q)}:{hx(UBASE + rng.choice([0, 0x10, 0x7ff0, 0x8000]))}/{hx(UBASE + rng.choice([0, 2, 0x7ffe]))}/{hx(UBASE + uoff)}")
                elif x < 0.8:
                    k = rng.choice(["kick", "call", "call", "err"])
                    s.add(f"{k}:{hx(q & 0xff if q < 256 else 0xff)}:1")
                elif x < 0.86:
                    s.add(f"en:{hx(q)}:{rng.randrange(2)}")
                elif x < 0.96:
                    s.add(f"use:{hx(q if q < 256 else 7)}:{hx(rng.choice([0, 1, 15, 16]))}:{hx(rng.getrandbits(32))}")
                else:
                    s.add("breq")
            self.emit(L, s)
        return L

    def nontrivial(self, line, obs):
        t = obs.split()
        oks = sum(1 for x in t if x.split("|")[0].split(":")[1:2] == ["ok"])
        rej = sum(1 for x in t if x.split("|")[0].split(":")[1:2] == ["rej"])
        uses = sum(1 for x in t if x.startswith("use:ok"))
        feats = sum(1 for x in t if x.startswith("feat:ok"))
        return (oks >= 1 and rej >= 1) or uses >= 1 or feats >= 1

    def finding_key(self, line, obs, so):
        return "vq:" + (so or "no-verdict").replace("spec-fail ", "")

    def describe_spec_failure(self, line, obs, so):
        why = (so or "no verdict").replace("spec-fail ", "")
        return (f"vq {why}: ring configuration / features / ring operations do not reach queues and backend as the property demands; "
                f"scenario `{line[:500]}` observed `{obs[:500]}`")

    def distribution(self, lines, impl, dist):
        d = dist.setdefault("vq", {"scenarios": 0, "by_op": {}, "accepted": 0, "refused": 0, "bad_index_ops": 0, "use_ok": 0,
                                   "use_add_used_err": 0, "call_signalled": 0, "features_accepted": 0, "features_refused": 0,
                                   "breq_probed": 0, "reconnects": 0, "by_max": {}, "by_rings": {}})
        for l in lines:
            d["scenarios"] += 1
            kvs = dict(t.split("=", 1) for t in l.split()[1:] if "=" in t and ":" not in t.split("=")[0])
            d["by_max"][kvs.get("max", "?")] = d["by_max"].get(kvs.get("max", "?"), 0) + 1
            d["by_rings"][kvs.get("nq", "?")] = d["by_rings"].get(kvs.get("nq", "?"), 0) + 1
            for x in impl.get(l, "").split():
                b = x.split("|")[0].split(":")
                if len(b) < 2:
                    continue
                d["by_op"][b[0]] = d["by_op"].get(b[0], 0) + 1
                if b[1] == "ok":
                    d["accepted"] += 1
                elif b[1] == "rej":
                    d["refused"] += 1
                    if b[0] not in ("ui", "use"):
                        d["reconnects"] += 1
                if b[0] == "use" and len(b) > 2:
                    d["use_ok"] += b[2].startswith("a")
                    d["use_add_used_err"] += b[2].startswith("A")
                    d["call_signalled"] += (len(b) > 4 and b[4] != "ctr=-")
                if b[0] == "feat":
                    d["features_accepted"] += b[1] == "ok"
                    d["features_refused"] += b[1] == "rej"
                if b[0] == "breq" and b[1] == "ok":
                    d["breq_probed"] += 1


FAMILIES = [VqFamily()]
