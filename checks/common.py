"""Shared machinery of the per-property checks (see DESIGN.md section 10)."""
import fcntl
import hashlib
import json
import os
import random
import re
import subprocess
import sys
import time

VERIF = os.path.dirname(os.path.dirname(os.path.abspath(__file__)))
REPO = os.environ.get("VERIF_REPO", "/repo")
LEAN = os.path.join(VERIF, "lean")
HARNESS = os.path.join(VERIF, "harness")
DRIVER = os.path.join(LEAN, ".lake", "build", "bin", "driver")
SPECDRIVER = os.path.join(LEAN, ".lake", "build", "bin", "specdriver")
HARNESS_BIN = os.path.join(HARNESS, "target", "release", "vharness")
REPLAYS = os.path.join(VERIF, "replays")
EVIDENCE = os.path.join(VERIF, "evidence")
KNOWN = os.path.join(VERIF, "known_findings.txt")

ACCEPTED_AXIOMS = {"propext", "Classical.choice", "Quot.sound"}
FORBIDDEN = re.compile(r"\b(sorry|admit|native_decide|implemented_by|unsafe)\b|^\s*axiom\s|maxHeartbeats\s+0")

TRUSTED_BASE = [
    "Lean 4.33.0 kernel (thorough tier: also leanchecker on the property module)",
    "axioms per theorem as listed under coverage.axioms (accepted: propext, Classical.choice, Quot.sound)",
    "tools/rs2lean.py + tools/rsparse.py (translator for codes, flags, consts, struct layouts, validator bodies, ioctl tables, adapters)",
    "correspondence machinery: harness/ (Rust, links /repo's crates), lean Driver/SpecDriver, checks/*.py; the comparison is sampled",
    "Spec/*.lean: hand transcription of the vhost-user / vhost-user-gpu specifications and <linux/vhost.h>",
    "modelled, not verified: Linux AF_UNIX/epoll/eventfd semantics, std Mutex/RwLock, Rust drop order, vmm-sys-util, vm-memory, virtio-queue",
]


def env_offline():
    e = dict(os.environ)
    e["CARGO_NET_OFFLINE"] = "true"
    e.setdefault("CARGO_TERM_COLOR", "never")
    return e


class BuildLock:
    """Serialises translator + lake + cargo across concurrently started checks."""

    def __enter__(self):
        self.f = open(os.path.join(VERIF, ".build.lock"), "w")
        fcntl.flock(self.f, fcntl.LOCK_EX)
        return self

    def __exit__(self, *a):
        fcntl.flock(self.f, fcntl.LOCK_UN)
        self.f.close()


def run(cmd, cwd=None, inp=None, timeout=None, env=None):
    p = subprocess.run(cmd, cwd=cwd, input=inp, capture_output=True, text=True, timeout=timeout,
                       env=env or env_offline())
    return p.returncode, p.stdout, p.stderr


def translate():
    """Regenerate lean/VhostModel/Gen from /repo. Returns dict(status=..., failed=[...])."""
    rc, out, err = run([sys.executable, os.path.join(VERIF, "tools", "rs2lean.py"), "--repo", REPO])
    try:
        info = json.loads(out.strip().splitlines()[-1])
    except Exception:
        info = {"status": {}, "failed": ["translator-crashed"], "error": err[-2000:]}
    info["stderr"] = err[-2000:]
    return info


def lake_build(targets):
    rc, out, err = run(["lake", "build"] + targets, cwd=LEAN, timeout=3000)
    return rc == 0, out + err


def theorems_of(props_module):
    """Names of the theorems stated in lean/VhostModel/Props/<X>.lean (fully qualified)."""
    path = os.path.join(LEAN, "VhostModel", "Props", props_module + ".lean")
    names = []
    ns = []
    with open(path) as f:
        for line in f:
            m = re.match(r"namespace\s+(\S+)", line)
            if m:
                ns.append(m.group(1))
            m = re.match(r"end\s+(\S+)", line)
            if m and ns and ns[-1] == m.group(1):
                ns.pop()
            m = re.match(r"(?:@\[[^\]]*\]\s*)?theorem\s+([A-Za-z0-9_.']+)", line)
            if m:
                n = m.group(1)
                names.append(n[len("_root_."):] if n.startswith("_root_.") else ".".join(ns + [n]))
    return names


def failed_theorems(props_module, build_output):
    """Map `error: ...Props/X.lean:LINE:COL` lines back to theorem names."""
    path = os.path.join(LEAN, "VhostModel", "Props", props_module + ".lean")
    starts = []
    with open(path) as f:
        for i, line in enumerate(f, 1):
            m = re.match(r"(?:@\[[^\]]*\]\s*)?(theorem|example|def|instance|lemma)\s+([A-Za-z0-9_.']+)?", line)
            if m:
                starts.append((i, m.group(2) or "example"))
    bad = []
    for m in re.finditer(r"error: \S*Props/%s\.lean:(\d+):" % re.escape(props_module), build_output):
        ln = int(m.group(1))
        name = None
        for s, n in starts:
            if s <= ln:
                name = f"{n}@{s}"
        if name and name not in bad:
            bad.append(name)
    return bad


def audit(props_module):
    """#print axioms for every theorem of the module. Returns (ok, {thm: [axioms]}, problems)."""
    thms = theorems_of(props_module)
    os.makedirs(os.path.join(LEAN, ".lake", "audit"), exist_ok=True)
    apath = os.path.join(LEAN, ".lake", "audit", props_module + ".lean")
    with open(apath, "w") as f:
        f.write(f"import VhostModel.Props.{props_module}\n")
        for t in thms:
            f.write(f"#print axioms {t}\n")
    rc, out, err = run(["lake", "env", "lean", apath], cwd=LEAN, timeout=1200)
    axioms = {}
    problems = []
    text = out + err
    for m in re.finditer(r"'([^']+)' depends on axioms: \[([^\]]*)\]", text):
        axs = [a.strip() for a in m.group(2).replace("\n", " ").split(",") if a.strip()]
        axioms[m.group(1)] = axs
        bad = [a for a in axs if a not in ACCEPTED_AXIOMS]
        if bad:
            problems.append(f"{m.group(1)} depends on non-accepted axioms {bad}")
    for m in re.finditer(r"'([^']+)' does not depend on any axioms", text):
        axioms[m.group(1)] = []
    for t in thms:
        if t not in axioms:
            problems.append(f"no axiom report for {t}")
    if rc != 0:
        problems.append("audit file failed to elaborate: " + text[-500:])
    return (not problems), axioms, problems


def strip_lean_comments(src):
    out = []
    i, n, depth = 0, len(src), 0
    while i < n:
        if src.startswith("/-", i):
            depth += 1
            i += 2
        elif src.startswith("-/", i) and depth:
            depth -= 1
            i += 2
        elif depth:
            if src[i] == "\n":
                out.append("\n")
            i += 1
        elif src.startswith("--", i):
            j = src.find("\n", i)
            i = n if j < 0 else j
        else:
            out.append(src[i])
            i += 1
    return "".join(out)


def forbidden_tokens():
    hits = []
    for root, _, files in os.walk(LEAN):
        if ".lake" in root:
            continue
        for fn in files:
            if not fn.endswith(".lean"):
                continue
            p = os.path.join(root, fn)
            src = strip_lean_comments(open(p).read())
            for i, line in enumerate(src.splitlines(), 1):
                if FORBIDDEN.search(line):
                    hits.append(f"{os.path.relpath(p, LEAN)}:{i}: {line.strip()[:100]}")
    return hits


def cargo_build():
    lock_src = os.path.join(REPO, "Cargo.lock")
    lock_dst = os.path.join(HARNESS, "Cargo.lock")
    if not os.path.exists(lock_dst) and os.path.exists(lock_src):
        import shutil
        shutil.copy(lock_src, lock_dst)
    rc, out, err = run(["cargo", "build", "--release", "--offline"], cwd=HARNESS, timeout=3000)
    return rc == 0, out + err


def run_lines(binary, args, lines, timeout=3000, env=None):
    """Feed scenario lines, return {scenario: observation}."""
    inp = "\n".join(lines) + "\n"
    try:
        p = subprocess.run([binary] + args, input=inp, capture_output=True, text=True, timeout=timeout,
                           env=env or env_offline())
        out, rc, err = p.stdout, p.returncode, p.stderr
    except subprocess.TimeoutExpired as e:
        # the program hung for good: keep what it printed; the lines without an observation are reported as missing
        out = e.stdout.decode(errors="replace") if isinstance(e.stdout, bytes) else (e.stdout or "")
        rc, err = 124, f"timeout after {timeout}s"
    res = {}
    for l in out.splitlines():
        if " => " in l:
            k, v = l.rsplit(" => ", 1)
            res[k] = v
    return res, rc, err


def chunked(lines, n):
    k = max(1, (len(lines) + n - 1) // n)
    return [lines[i:i + k] for i in range(0, len(lines), k)]


def run_lines_parallel(binary, args, lines, jobs=8, timeout=3000, env=None):
    from concurrent.futures import ThreadPoolExecutor
    res = {}
    errs = []
    with ThreadPoolExecutor(max_workers=jobs) as ex:
        for r, rc, err in ex.map(lambda ch: run_lines(binary, args, ch, timeout, env), chunked(lines, jobs)):
            res.update(r)
            if rc != 0:
                errs.append((rc, err[-500:]))
    return res, errs


KNOWN_OWNER = {}


def known_findings(prop):
    """Return ({key: desc} of open findings, [fixed lines]) for a property."""
    open_, fixed = {}, []
    if not os.path.exists(KNOWN):
        return open_, fixed
    for line in open(KNOWN):
        line = line.strip()
        if not line or line.startswith("#"):
            continue
        m = re.match(r"finding: property=(\S+) key=(\S+) (.*)$", line)
        if m:
            # findings of other properties are recognised too (families are shared): reported under their owner
            open_[m.group(2)] = m.group(3)
            KNOWN_OWNER[m.group(2)] = m.group(1)
        m = re.match(r"fixed: property=(\S+) (.*)$", line)
        if m and m.group(1) == prop:
            fixed.append(m.group(2))
    return open_, fixed


def write_replay(prop, seed, stream, what, scenarios, expected=None, observed=None, note=""):
    os.makedirs(REPLAYS, exist_ok=True)
    h = hashlib.sha1(("\n".join(scenarios) + what).encode()).hexdigest()[:8]
    path = os.path.join(REPLAYS, f"{prop}-{seed}-{h}.txt")
    with open(path, "w") as f:
        f.write(f"property: {prop}\nstream: {stream}\nwhat: {what}\nseed: {seed}\n")
        if note:
            f.write(f"note: {note}\n")
        for s in scenarios:
            f.write(f"scenario: {s}\n")
        if expected is not None:
            f.write(f"expected: {expected}\n")
        if observed is not None:
            f.write(f"observed: {observed}\n")
        f.write(f"rerun: ./check.py {prop} --replay {path}\n")
    return path


def read_replay(path):
    scen = []
    for line in open(path):
        if line.startswith("scenario: "):
            scen.append(line[len("scenario: "):].rstrip("\n"))
    return scen


def write_evidence(prop, tier, seed, coverage, wall, violations, assumptions):
    os.makedirs(EVIDENCE, exist_ok=True)
    ev = {
        "property_id": prop, "tier": tier, "seed": seed, "level": "proof",
        "coverage": coverage, "assumptions": assumptions, "wall_s": round(wall, 2), "violations": violations,
    }
    with open(os.path.join(EVIDENCE, prop + ".json"), "w") as f:
        json.dump(ev, f, indent=1, sort_keys=True)


class Rng(random.Random):
    pass


# boundary lattices ------------------------------------------------------------------------

U64 = [0, 1, 2, 3, 4, 0xf, 0x10, 0x11, 0xff, 0x100, 0xfff, 0x1000, 0x1001, 0xffff, 0x10000, 2**31 - 1, 2**31,
       2**32 - 1, 2**32, 2**32 + 1, 2**63 - 1, 2**63, 2**63 + 1, 2**64 - 0x1001, 2**64 - 0x1000, 2**64 - 0xfff,
       2**64 - 2, 2**64 - 1]
U32 = [0, 1, 2, 3, 4, 0xf, 0x10, 0xff, 0x100, 0xfff, 0x1000, 0x1001, 0xffff, 0x10000, 2**31 - 1, 2**31, 2**32 - 2,
       2**32 - 1]
U16 = [0, 1, 2, 0xff, 0x100, 0x7fff, 0x8000, 0xffff]


def le(v, n):
    return (v % (1 << (8 * n))).to_bytes(n, "little").hex()
