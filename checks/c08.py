"""C08 — message framing is independent of stream segmentation; truncation is an error."""
from . import common as C
from . import vu
from .family import Family
from .srv import SrvFamily
from .fe import FeFamily

PROPS_MODULES = ["C08", "ConnLoops", "C03", "ErrClass"]
RULE = ("family `srv` (frame mode): every implemented request type, written by the raw peer in 2 and 3 segments at every/sampled split "
        "points, byte by byte, and in random segmentations, both with all segments queued before the server reads and with one "
        "segment arriving at a time (the next is written only when the receive queue is empty); every cut offset 0..len of a message "
        "followed by close, and followed by a full close of the peer while data sent to it is unread (`rst`: ECONNRESET instead of end-of-stream); a body arriving in two deliveries with the next request already queued behind it. family `send`: the crate's send loop on a non-blocking socket with the minimum send buffer, pre-filled so "
        "that writes are accepted partially, drained by a slow reader that records the bytes and which recvmsg carried the descriptors; "
        "plus the iovec offset helper on all small length lists. non-trivial = distinct scenarios with at least two segments or a cut. family `fe` (cut mode): the frontend as receiver - every reply-bearing operation (and acknowledged set-operations) answered by the raw peer with the correct reply cut at every byte offset (size field untouched), then the peer closes: the call must return an error, never success, never wait.")
ASSUMPTIONS = ["signals / ENOMEM appear only as scripted retries in the model", "AF_UNIX stream semantics as modelled in Model/Stream.lean"]


class FrameFamily(SrvFamily):
    """srv scenarios whose last step is split into segments / cut"""

    def __init__(self):
        super().__init__(modes=())

    def messages(self, rng):
        neg, *_ = vu.negotiation(rng, 2)
        out = []
        for code in vu.IMPLEMENTED:
            body, nf = vu.valid_request(rng, code)
            out.append((neg, code, body, nf))
        return out

    def generate(self, tier, rng):
        L = []
        thorough = tier == "thorough"
        for (neg, code, body, nf) in self.messages(rng):
            full = vu.hdr(code, 1 | rng.choice([0, 8]), len(body) // 2) + body
            n = len(full) // 2
            h = vu.hout(rng, code, 0.0)
            pre = "srv " + " | ".join(neg) + " | "
            cuts2 = list(range(1, n)) if (thorough or n <= 60) else sorted(set([1, 4, 8, 11, 12, 13, 16, 20, n - 1] + [rng.randrange(1, n) for _ in range(6)]))
            for mode in ("", " seq"):
                for c in cuts2:
                    if 0 < c < n:
                        L.append(f"{pre}m {full[:2*c]}+{full[2*c:]} f{nf} {h}{mode}")
                # 3 segments (sampled)
                for _ in range(6 if not thorough else 40):
                    if n >= 3:
                        a = rng.randrange(1, n - 1)
                        b = rng.randrange(a + 1, n)
                        L.append(f"{pre}m {full[:2*a]}+{full[2*a:2*b]}+{full[2*b:]} f{nf} {h}{mode}")
                # byte by byte (short messages only: one sendmsg per byte)
                if n <= 64:
                    L.append(f"{pre}m {'+'.join(full[2*i:2*i+2] for i in range(n))} f{nf} {h}{mode}")
                # random segmentation
                for _ in range(3):
                    pts = sorted(set(rng.randrange(1, n) for _ in range(rng.randint(1, 6)))) if n > 1 else []
                    segs = [full[2*a:2*b] for a, b in zip([0] + pts, pts + [n])]
                    L.append(f"{pre}m {'+'.join(segs)} f{nf} {h}{mode}")
            # the body arrives in two deliveries and the next request is already queued behind the second one: the body read
            # must stop at the end of the body (one segment at a time, so that the read really is in two pieces)
            if len(body) >= 4:
                nxt = vu.hdr(vu.GET_FEATURES, 1, 0)
                hl = 24
                for k in sorted(set([hl + 2, hl + len(body) // 2 // 2 * 2, n * 2 - 2])):
                    if hl < k < 2 * n:
                        L.append(f"{pre}m {full[:hl]}+{full[hl:k]}+{full[k:]}{nxt} f{nf} {h} seq | m - f0 h=ok,v=1")
            # cuts followed by close
            cuts = list(range(0, n)) if (thorough or n <= 40) else sorted(set([0, 1, 11, 12, 13, n - 1] + [rng.randrange(0, n) for _ in range(5)]))
            for c in cuts:
                if c == 0:
                    L.append(f"{pre}m - f0 {h} close")
                else:
                    L.append(f"{pre}m {full[:2*c]} f{nf} {h} close")
            # the same cuts, but the peer closes its socket while data sent to it is still unread (the reader then sees
            # ECONNRESET instead of end-of-stream): still an error, and never a clean `disconnected` inside a message
            for c in (cuts if len(cuts) <= 24 else cuts[::max(1, len(cuts) // 24)]):
                L.append(f"{pre}m {full[:2*c] or '-'} f{nf if c else 0} {h} rst")
            L.append(f"{pre}m {full} f{nf} {h} rst")
        return L

    def nontrivial(self, line, obs):
        return "+" in line or " close" in line or " rst" in line


class SendFamily(Family):
    name = "send"

    def generate(self, tier, rng):
        L = []
        for lens in [[12], [12, 8], [12, 0x28], [12, 12, 0x100], [12, 0x1000], [12, 8, 0x1000 - 8], [12, 0x1000, 0x1000, 0x1000], [0], [12, 0]]:
            for nf in (0, 1, 3, 32):
                for pre in (0, 0x400, 0x800, 0xc00, 0x1000, 0x1100, 0x11f0):
                    L.append(f"send bufs={','.join(f'{x:x}' for x in lens)} fds={nf} pre={pre:x} nb=1")
        n = 300 if tier == "quick" else 5000
        for _ in range(n):
            lens = [rng.choice([0, 1, 4, 12, 40, 0x100, 0x1000]) for _ in range(rng.randint(1, 4))]
            L.append(f"send bufs={','.join(f'{x:x}' for x in lens)} fds={rng.choice([0, 1, 2, 32])} pre={rng.randrange(0, 0x1200):x} nb=1")
        # iovec offset helper: all length lists over {0,1,4,5} up to 3 buffers, every skip
        import itertools
        for k in (1, 2, 3):
            for lens in itertools.product([0, 1, 4, 5], repeat=k):
                for skip in range(0, sum(lens) + 1):
                    L.append(f"send subiovs lens={','.join(f'{x:x}' for x in lens)} skip={skip:x}")
        return L

    def nontrivial(self, line, obs):
        return "pre=0 " not in line

    def finding_key(self, line, obs, so):
        return "send:" + (so.split()[1] if so and so.startswith("spec-fail") and len(so.split()) > 1 else "?")


class CutFe(FeFamily):
    """the frontend as receiver: correct replies cut at every byte offset, then the peer closes"""
    def nontrivial(self, line, obs):
        return "then-close" in line or line.rstrip().endswith("r=close")


FAMILIES = [FrameFamily(), SendFamily(), CutFe(modes=("cut",), quick=(0, 0, 0), thorough=(0, 0, 0))]
