"""C16 — daemon shutdown and teardown always complete, whatever the timing."""
import itertools
from .family import Family

PROPS_MODULES = ["C16", "LtsSteps", "ErrClass"]
RULE = ("family `shutdown`: a real VhostUserDaemon (own backend, 1..3 workers, exit events on/off) serves one end of a unix "
        "connection, an independent raw peer the other; a schedule controller registered through verif_hooks::set_controller "
        "parks the daemon thread at the hold points of lib.rs (before handle_request, after it returned Ok, before the final "
        "conn.shutdown) and inside a backend callback, and parks a shutdown caller between the flag store and the socket "
        "shutdown. The script places the shutdown request(s) at every position of the daemon thread's progress (parked before "
        "the first byte; blocked in the header read with a silent peer; blocked after a partial header; between header and "
        "body; in the middle of the body; inside the handler of a reply-bearing and of a reply-less request, i.e. before the "
        "reply is written; after the reply / after Ok; on the exit path before the final socket shutdown; after the thread "
        "is gone) x shutdown variants (1, 2, 3 concurrent callers, repeated calls on one handle, request_shutdown(), a caller "
        "split between its two steps, combinations) x peer behaviours (idle, mid-message, closed before / after the request, "
        "closed with an unread reply in its receive queue); peer close at every byte offset of a request with no shutdown "
        "request; malformed and failing requests; wait() started before the request completes; drop without wait; serve() on "
        "a temporary socket path. After every script event the harness waits until the daemon thread is parked, blocked in "
        "recvmsg (/proc/self/task/<tid>/syscall) or gone. Observed: a snapshot per event, result class of wait() under a "
        "watchdog, shutdown_handle() afterwards, what the peer's read returns (bytes, then eof / would-block), a second "
        "wait(), a second start() with a GET_FEATURES exchange and a disconnect on the new connection, live vring_worker "
        "threads after dropping the daemon; for serve(): result, exit events raised (eventfd duplicates, not consumed), "
        "workers alive. The model driver runs the same script through Model.Shutdown.step / TD.step and must predict the "
        "observation exactly; the spec driver derives the property's hypotheses from the script alone and judges the "
        "observation with Spec.Shutdown. distinct = distinct scenario lines; non-trivial = scenarios in which a clause's "
        "hypothesis is met (a shutdown request followed by wait, a peer disconnect or request error without one, a drop, serve).")
ASSUMPTIONS = [
    "Linux AF_UNIX stream rules of Model/Shutdown.lean (queued data survives shutdown/close; ECONNRESET once if the peer "
    "closed with unread data; EPIPE after shutdown or peer close; shutdown(Both) makes the peer's writes fail and its reads "
    "end with EOF) — exercised by this family on the live kernel",
    "Release/Acquire on the one AtomicBool make each access one atomic step; handlers terminate and do not panic",
    "Arc drops VhostUserHandler when its last owner goes; a worker leaves its loop only on its exit event",
    "liveness statements assume a fair scheduler (explicit hypothesis WeakFair in shutdown_then_wait_ok_fair; 'maximal run' in "
    "drop_terminates_workers); 'blocked' is observed with a watchdog (VERIF_SHUT_WATCHDOG_MS, default 1000 ms)",
    "recorded reading (DESIGN §7 C16 Limits): SocketBroken (ECONNRESET after the peer closed with unread data, EPIPE on a "
    "reply) is mapped to Ok by an explicit arm of wait(); 'peer disconnect' = end-of-stream observed by a read; the Spec "
    "demands nothing there, the model predicts Ok",
    "serve() returning early because Listener::new / accept fails raises no exit event: outside the property's quantifier "
    "(peer behaviours and schedules), not generated",
]

LEN = {"gf": 12, "sf": 20, "svn": 20, "bad": 12}

# shutdown variants: (name, events)
SHUT_QUICK = [("1", ["s0"]), ("2", ["S2x1"]), ("3", ["S3x1"]), ("rep", ["s0", "s0"]), ("3x2", ["S3x2"]), ("rs", ["q"]),
              ("split", ["f0", "g0"]), ("mix", ["f1", "s0", "q", "g1"])]
SHUT_MORE = [("2seq", ["s0", "s1"]), ("rsrep", ["q", "q"]), ("split2", ["f0", "f1", "g1", "g0"]), ("1x3", ["S1x3"]),
             ("2x2", ["S2x2"]), ("splitrs", ["f0", "q", "g0"])]


def line(sched, reqs=(), arm=(), m="wait", ex=1, wk=1, cls="-"):
    return (f"shutdown m={m} ex={ex} wk={wk} arm={'+'.join(arm) if arm else '-'} reqs={','.join(reqs) if reqs else '-'} "
            f"sched={','.join(sched) if sched else '-'} cls={cls}")


def positions():
    """(name, reqs, arm, events before the shutdown request, events after it)"""
    return [
        ("idle", ["gf"], ["pre"], [], ["rpre"]),
        ("blocked", ["gf"], [], [], []),
        ("midhdr", ["gf"], [], ["w5"], []),
        ("hdr-body", ["sf"], [], ["wc"], []),
        ("midbody", ["sf"], [], ["w10"], []),
        ("handler-reply", ["gf"], ["cb"], ["wa"], ["rcb"]),
        ("handler-noreply", ["sf"], ["cb"], ["wa"], ["rcb"]),
        ("after-reply", ["gf"], ["post"], ["wa"], ["rpost"]),
        ("after-ok", ["sf"], ["post"], ["wa"], ["rpost"]),
        ("second-pre", ["sf", "gf"], ["pre"], ["rpre", "apre", "w14"], ["rpre"]),
        ("exit-path", ["bad"], ["fin"], ["wa"], ["rfin"]),
        ("exited-reqerr", ["svn"], [], ["wa"], []),
        ("exited-closed", ["gf"], [], ["pc"], []),
    ]


class ShutdownFamily(Family):
    name = "shutdown"
    timeout = 900

    def nontrivial(self, line, obs):
        t = dict(x.split("=", 1) for x in line.split()[1:] if "=" in x)
        evs = t.get("sched", "-").split(",")
        return (t.get("m") == "serve" or any(e[0] in "sgSqfD" for e in evs if e and e != "-") or "pc" in evs
                or any(k in ("bad", "svn") for k in t.get("reqs", "").split(",")))

    def key(self, line):
        return " ".join(x for x in line.split() if not x.startswith("cls="))

    def finding_key(self, line, obs, so):
        t = dict(x.split("=", 1) for x in line.split()[1:] if "=" in x)
        return "shutdown:" + ":".join(t.get(k, "") for k in ("m", "ex", "wk", "arm", "reqs", "sched"))

    def describe_spec_failure(self, line, obs, spec_out):
        return (f"shutdown: `{line}`: {spec_out} (wait-after-shutdown = wait() after a completed shutdown request did not "
                f"return Ok in time; wait-during-shutdown = with a shutdown request in progress and a peer that gave no reason to "
                f"stop, wait() returned an error; disconnect-not-reported = a disconnect without shutdown request was not an error; "
                f"peer-no-eof = the peer did not read end-of-stream after the daemon thread ended; connection-state-not-reset / "
                f"restart = no new connection possible after wait(); serve-result / exit-events-not-raised; "
                f"drop-does-not-terminate-workers): observed `{obs[:500]}`")

    def generate(self, tier, rng):
        thorough = tier == "thorough"
        L = []
        wk_cycle = itertools.cycle([1, 2, 3])
        shuts = SHUT_QUICK + (SHUT_MORE if thorough else [])
        # A. every position x every shutdown variant, peer otherwise idle / mid-message
        for (pn, reqs, arm, pre, post) in positions():
            for (sn, sev) in shuts:
                L.append(line(pre + sev + post, reqs, arm, wk=next(wk_cycle), cls=f"pos:{pn}/{sn}"))
        # A'. peer closes before / after the request while the thread is parked; closed with an unread reply
        peer_variants = [
            ("idle", ["gf"], ["pre"], ["pc"], ["rpre"]), ("idle", ["gf"], ["pre"], [], ["pc", "rpre"]),
            ("idle-queued", ["gf"], ["pre"], ["wa", "pc"], ["rpre"]), ("idle-queued-open", ["sf", "gf"], ["pre"], ["wa"], ["rpre"]),
            ("handler-reply", ["gf"], ["cb"], ["wa", "pc"], ["rcb"]), ("handler-reply", ["gf"], ["cb"], ["wa"], ["pc", "rcb"]),
            ("handler-noreply", ["sf"], ["cb"], ["wa", "pc"], ["rcb"]),
            ("after-reply-unread", ["gf"], ["post"], ["wa", "pc"], ["rpost"]),
            ("after-reply-read", ["gf"], ["post"], ["wa", "pr", "pc"], ["rpost"]),
            ("after-reply-unread-late", ["gf"], ["post"], ["wa"], ["pc", "rpost"]),
            ("blocked-unread", ["gf"], [], ["wa", "pc"], []), ("blocked-mid", ["sf"], [], ["w5", "pc"], []),
            ("blocked-then-more", ["sf", "sf"], [], ["w14"], ["wa"]),
            ("exit-path-closed", ["gf"], ["fin"], ["pc"], ["rfin"]),
        ]
        for (pn, reqs, arm, pre, post) in peer_variants:
            for (sn, sev) in (shuts if thorough else [shuts[0], shuts[2], shuts[6]]):
                L.append(line(pre + sev + post, reqs, arm, wk=next(wk_cycle), cls=f"peer:{pn}/{sn}"))
        # B. a request in flight: the caller sits between its two steps while things happen; wait() started early
        inflight = [
            (["gf"], [], ["f0", "pc", "g0"]), (["gf"], [], ["f0", "W", "g0"]), (["gf"], [], ["f0", "pc", "W", "g0"]),
            (["gf"], [], ["W", "s0"]), (["gf"], [], ["W", "f0", "g0"]), (["gf"], [], ["f0", "f1", "W", "g1", "g0"]),
            (["gf"], ["fin"], ["pc", "f0", "rfin", "g0"]), (["gf"], ["fin"], ["pc", "f0", "rfin", "W", "g0"]),
            (["sf"], ["cb"], ["wa", "f0", "rcb", "g0"]), (["gf"], ["post"], ["wa", "f0", "rpost", "g0"]),
            (["gf"], [], ["f0", "pc"]), (["bad"], [], ["f0", "wa", "g0"]), (["gf"], [], ["W", "pc"]),
            # a caller stalled between its two steps must not hold up the others
            (["gf"], [], ["f0", "s1"]), (["gf"], [], ["f0", "q"]), (["sf"], [], ["wc", "f0", "f1", "S2x1"]),
            (["gf"], ["pre"], ["f0", "s1", "rpre"]), (["gf"], [], ["f0", "W", "s1"]),
        ]
        for (reqs, arm, ev) in inflight:
            L.append(line(ev, reqs, arm, wk=next(wk_cycle), cls="inflight"))
        # C. no shutdown request: the peer closes at every byte offset of a request
        streams = [["sf"], ["gf"]] + ([["svn"], ["sf", "sf"], ["gf", "sf"], ["sf", "gf"], ["bad"]] if thorough else [])
        for reqs in streams:
            total = sum(LEN[k] for k in reqs)
            for off in range(total + 1):
                ev = ([f"w{off:x}"] if off else []) + ["pc"]
                L.append(line(ev, reqs, wk=next(wk_cycle), cls=f"cut:{'+'.join(reqs)}"))
                if "gf" in reqs:
                    L.append(line(([f"w{off:x}"] if off else []) + ["pr", "pc"], reqs, wk=next(wk_cycle), cls=f"cut-read:{'+'.join(reqs)}"))
        for reqs, ev in [(["gf", "gf"], ["wa", "pr", "pc"]), (["gf", "gf"], ["wc", "pr", "wc", "pc"]), (["sf", "gf"], ["w14", "w5", "pc"]),
                         (["gf"], ["wa", "pc"]), (["gf"], ["pr", "wa", "pc"])]:
            L.append(line(ev, reqs, wk=next(wk_cycle), cls="cut:multi"))
        # C'. no shutdown request, and the reply is written to a peer that has already gone (EPIPE, deterministic: the daemon thread is
        #     held inside the callback while the peer closes): SocketBroken, which wait() maps to Ok
        for reqs, arm, ev in [(["gf"], ["cb"], ["wa", "pc", "rcb"]), (["gf", "gf"], ["cb"], ["wa", "pc", "rcb"]),
                              (["sf", "gf"], ["cb"], ["wa", "rcb", "acb", "pc", "rcb"]), (["gf"], ["cb", "post"], ["wa", "pc", "rcb", "rpost"])]:
            L.append(line(ev, reqs, arm, wk=next(wk_cycle), cls="epipe"))
        L.append(line(["wa", "pc", "rcb"], ["gf"], ["cb"], m="serve", wk=next(wk_cycle), cls="epipe"))
        # D. request errors without a shutdown request
        for reqs, ev in [(["bad"], ["wa"]), (["svn"], ["wa"]), (["sf", "bad"], ["wa"]), (["gf", "svn"], ["wa", "pr"]),
                         (["gf", "svn"], ["wa"]), (["sf", "svn", "gf"], ["wa"]), (["bad"], ["wa", "pc"])]:
            L.append(line(ev, reqs, wk=next(wk_cycle), cls="reqerr"))
        # E. drop without wait; drop when the backend supplies no exit events; nothing happens at all
        for reqs, arm, ev in [(["gf"], ["pre"], ["D"]), (["gf"], [], ["D"]), (["gf"], ["post"], ["wa", "D"]), (["sf"], ["cb"], ["wa", "D"]),
                              (["gf"], [], ["w5", "D"]), (["gf"], [], ["s0", "D"]), (["gf"], [], ["pc", "D"])]:
            L.append(line(ev, reqs, arm, wk=next(wk_cycle), cls="drop"))
        L.append(line(["s0"], ["gf"], ex=0, wk=2, cls="no-exit-events"))
        L.append(line(["pc"], ["gf"], ex=0, wk=1, cls="no-exit-events"))
        L.append(line([], ["gf"], wk=1, cls="nothing"))
        L.append(line(["f0"], ["gf"], wk=2, cls="request-never-completes"))
        if thorough:
            L.append(line(["D"], ["gf"], ex=0, wk=3, cls="no-exit-events"))
            L.append(line(["wa"], ["gf"], wk=1, cls="nothing"))
        # F. serve()
        serve = [([], ["pc"]), (["gf"], ["w3", "pc"]), (["gf"], ["wb", "pc"]), (["sf"], ["wc", "pc"]), (["sf"], ["wf", "pc"]),
                 (["sf"], ["wa", "pc"]), (["gf"], ["wa", "pr", "pc"]), (["gf"], ["wa", "pc"]), (["bad"], ["wa"]), (["svn"], ["wa"]),
                 (["sf", "gf"], ["wa", "pr", "pc"]), (["sf", "sf"], ["w1b", "pc"])]
        for reqs, ev in serve:
            L.append(line(ev, reqs, m="serve", wk=next(wk_cycle), cls="serve"))
        L.append(line(["pc"], [], m="serve", ex=0, wk=2, cls="serve-no-exit-events"))
        if thorough:
            for reqs in (["sf"], ["gf"]):
                for off in range(sum(LEN[k] for k in reqs) + 1):
                    for wk in (1, 3):
                        L.append(line(([f"w{off:x}"] if off else []) + ["pr", "pc"], reqs, m="serve", wk=wk, cls="serve-cut"))
            # every position x every variant x worker counts, and the peer variants with every shutdown variant
            for (pn, reqs, arm, pre, post) in positions():
                for (sn, sev) in shuts:
                    for wk in (1, 2, 3):
                        L.append(line(pre + sev + post, reqs, arm, wk=wk, cls=f"pos:{pn}/{sn}"))
            # random scripts over the whole alphabet (the model must still predict them)
            alphabet = ["s0", "s1", "S2x1", "q", "f0", "g0", "f1", "g1", "w1", "w5", "wc", "wa", "pr", "pc", "apre", "rpre", "apost", "rpost",
                        "acb", "rcb", "afin", "rfin", "W"]
            for _ in range(400):
                n = rng.randrange(2, 9)
                ev = [rng.choice(alphabet) for _ in range(n)]
                # at most one W, and nothing that needs the daemon object after it
                if "W" in ev:
                    i = ev.index("W")
                    ev = ev[:i + 1] + [e for e in ev[i + 1:] if e not in ("W", "q")]
                reqs = [rng.choice(["gf", "sf", "svn", "bad"]) for _ in range(rng.randrange(1, 4))]
                arm = rng.sample(["pre", "post", "cb", "fin"], rng.randrange(0, 3))
                L.append(line(ev, reqs, arm, wk=rng.randrange(1, 4), cls="random"))
        # interleave the (few) scenarios that run into the watchdog so that they land in different harness processes
        slow = [l for l in L if "cls=nothing" in l or "cls=request-never-completes" in l or "cls=no-exit-events" in l]
        fast = [l for l in L if l not in slow]
        step = max(1, len(fast) // (len(slow) + 1))
        for k, s in enumerate(slow):
            fast.insert(min(len(fast), (k + 1) * step + k), s)
        return fast

    def distribution(self, lines, impl, dist):
        d = dist.setdefault("shutdown", {})
        for l in lines:
            cls = next((x[4:] for x in l.split() if x.startswith("cls=")), "-").split("/")[0]
            e = d.setdefault(cls, {"scenarios": 0, "wait_ok": 0, "wait_err": 0, "blocked": 0})
            e["scenarios"] += 1
            obs = impl.get(l, "")
            if " wait=ok" in obs or " serve=ok" in obs:
                e["wait_ok"] += 1
            elif " wait=err" in obs or " serve=err" in obs:
                e["wait_err"] += 1
            elif "=blocked" in obs:
                e["blocked"] += 1


FAMILIES = [ShutdownFamily()]
