"""C13 — guest memory table and address translation always reflect the accepted updates."""
import itertools
from .family import Family

PROPS_MODULES = ["C13", "MemOps", "HandlerOps"]
RULE = ("family `mem`: a real VhostUserDaemon (RecordingBackend, empty initial GuestMemoryMmap) is driven by an independent raw "
        "vhost-user peer through histories of SET_MEM_TABLE / ADD_MEM_REG / REM_MEM_REG with 1..8 memfd-backed regions: "
        "adjacent, overlapping, duplicate and unordered tables, adds in any order, removal of absent and size-mismatched "
        "regions, files that cannot be mapped (unaligned or huge offset, huge size, read-only descriptor, eventfd), files "
        "shorter than the mapping, non-zero mmap offsets, several regions on one file, sparse 64 GiB files, guest and user "
        "ranges up to the top of the 64-bit space, overlapping user ranges. A refused request ends the daemon's connection "
        "thread; the harness reconnects to the same daemon and the history goes on. Observation per update: ack, number of "
        "update_memory callbacks, the region list (guest address, size, mapped file by inode identity, mapping offset) of the "
        "snapshot each callback was handed and of the daemon's memory object; bytes read and written through the latest "
        "snapshot at and around region edges versus the files (both directions); the guest addresses ring 0 holds after "
        "SET_VRING_ADDR with probe user addresses at, inside and just outside region edges. The Spec driver folds the "
        "operations the implementation reported successful (Spec.MemTable) and checks table, notifications, byte backing and "
        "translation; the model driver predicts every token from Model.MemTable / Model.Vring. "
        "distinct = distinct scenario lines; non-trivial = histories with at least one accepted and one refused update, or an "
        "accepted update followed by byte/translation probes.")
ASSUMPTIONS = ["the backend's update_memory callback does not fail (outside the property's quantifier)",
               "vm-memory 0.17.1 region-collection rules (sorted, non-overlapping; insert = stable sort; remove = exact base and size) "
               "and MmapRegion::from_file = one mmap(2) call, as read from its source; exercised by the correspondence run",
               "Linux mmap(2): refuses length 0, unaligned offsets, eventfds, shared writable mappings of read-only descriptors, "
               "sizes beyond the address space; does NOT refuse mappings that extend past the end of the file (such tails are not "
               "touched by the harness: SIGBUS)",
               "a SET_MEM_TABLE whose regions are not in ascending guest-address order is refused by GuestMemoryMmap::from_regions; "
               "the property does not say which updates must be accepted, so this is recorded, not alarmed"]

PG = 0x1000
TOP = 2**64


def hx(v):
    return "%x" % v


class Reg:
    def __init__(self, gpa, size, uaddr, off, fi):
        self.gpa, self.size, self.uaddr, self.off, self.fi = gpa, size, uaddr, off, fi

    def tok(self):
        return f"{hx(self.gpa)}/{hx(self.size)}/{hx(self.uaddr)}/{hx(self.off)}/{hx(self.fi)}"

    def remtok(self, size=None, gpa=None):
        return f"{hx(self.gpa if gpa is None else gpa)}/{hx(self.size if size is None else size)}/{hx(self.uaddr)}/{hx(self.off)}"


class Scen:
    """builds one scenario line; keeps the generator's own idea of the table only to aim probes"""

    def __init__(self, rng):
        self.rng = rng
        self.files = []       # specs
        self.ops = []
        self.table = []       # list of Reg the generator believes are in the table
        self.short = set()    # file indices that are shorter than some mapping

    def file(self, length, kind="f"):
        self.files.append("e" if kind == "e" else f"{kind}{hx(length)}")
        return len(self.files) - 1

    def backed_file(self, off, size, slack=0):
        return self.file(((off + size + PG - 1) // PG) * PG + slack)

    # -- aiming helpers (a mirror of the obvious rules, not an oracle)
    def _overlaps(self, r, others):
        return any(r.gpa < o.gpa + o.size and o.gpa < r.gpa + r.size for o in others)

    def mt(self, regs, expect_ok=None):
        self.ops.append("mt:" + ",".join(r.tok() for r in regs))
        ok = all(regs[i].gpa + regs[i].size <= regs[i + 1].gpa for i in range(len(regs) - 1)) and len(regs) > 0
        if expect_ok is not None:
            ok = expect_ok
        if ok:
            self.table = list(regs)

    def add(self, r, expect_ok=None):
        self.ops.append("add:" + r.tok())
        ok = not self._overlaps(r, self.table) if expect_ok is None else expect_ok
        if ok:
            self.table.append(r)

    def rem(self, r, size=None, gpa=None):
        self.ops.append("rem:" + r.remtok(size, gpa))
        if size is None and gpa is None:
            self.table = [x for x in self.table if not (x.gpa == r.gpa and x.size == r.size)]

    def anchor(self):
        """a user address that is 16-aligned, whose region is fully file-backed and whose guest address is 16-aligned"""
        for r in self.table:
            if r.fi not in self.short and r.gpa % 16 == 0 and r.uaddr % 16 == 0 and r.size >= 16:
                return r.uaddr
        return None

    def va(self, desc, avail, used):
        self.ops.append(f"va:{hx(desc % TOP)}/{hx(avail % TOP)}/{hx(used % TOP)}")

    def translation_probes(self, regs=None, count=3):
        a = self.anchor()
        if a is None:
            a = 0x10
        regs = self.table if regs is None else regs
        cands = []
        for r in regs:
            u, e = r.uaddr, r.uaddr + r.size
            al = lambda x, k: x - x % k
            # desc slot: 16-aligned probes
            cands += [(al(u, 16), a, a), (al(e - 16, 16), a, a), (al(e + 15, 16), a, a), (al(u - 16, 16), a, a)]
            # avail slot: 2-aligned
            cands += [(a, al(e - 2, 2), a), (a, al(e + 1, 2), a), (a, al(u - 2, 2), a)]
            # used slot: 4-aligned; the used index is read at +2, so stay inside backed memory unless rejection is expected
            if r.fi not in self.short:
                cands += [(a, a, al(u, 4)), (a, a, al(e - 4, 4)), (a, a, al(e + 3, 4)), (a, a, al(u - 4, 4))]
        cands = [c for c in cands if all(0 <= x < TOP for x in c)]
        self.rng.shuffle(cands)
        for c in cands[:count]:
            self.va(*c)

    def byte_probes(self, regs=None, count=4):
        regs = self.table if regs is None else regs
        cands = []
        for r in regs:
            g, e = r.gpa, r.gpa + r.size
            cands += [f"rd:{hx(g)}", f"rd:{hx(e - 1)}", f"wr:{hx(g)}", f"wr:{hx(e - 1)}"]
            if e < TOP:
                cands += [f"rd:{hx(e)}", f"wr:{hx(e)}"]
            if g > 0:
                cands += [f"rd:{hx(g - 1)}", f"wr:{hx(g - 1)}"]
            if r.size > PG:
                cands += [f"rd:{hx(g + PG - 1)}", f"rd:{hx(g + PG)}", f"wr:{hx(e - PG)}"]
        self.rng.shuffle(cands)
        self.ops += cands[:count]
        # front-end writes followed by a read at the guest address the property names
        for r in self.rng.sample(regs, min(len(regs), 2)):
            d = self.rng.choice([0, r.size - 1, min(r.size - 1, PG - 1), min(r.size - 1, PG)])
            self.ops += [f"fw:{hx(r.fi)}/{hx(r.off + d)}", f"rd:{hx(r.gpa + d)}"]

    def line(self, vr, lk):
        if not self.files:
            self.file(PG)
        return f"mem vr={vr} lk={lk} files={','.join(self.files)} " + " ".join(self.ops)


def sizes(rng):
    return rng.choice([PG, PG, 2 * PG, 3 * PG, 0x10000, 0x5000, 0x1001, 0x1800, 0x800, 0x23000])


def layout(s, rng, k, gbase=None, adjacent=None, share_file=False, ubase=None, offs=None):
    """k sorted non-overlapping regions"""
    g = rng.choice([0, PG, 0x10000, 0x100000000, 0x7f000, 2**40]) if gbase is None else gbase
    u = rng.choice([0x7f0000000000, 0x10000, 2**63, 0x5555_0000_0000, 16]) if ubase is None else ubase
    regs = []
    shared = None
    foff = 0
    for i in range(k):
        sz = sizes(rng)
        off = rng.choice([0, 0, PG, 3 * PG, 0x10000]) if offs is None else offs
        if share_file:
            if shared is None:
                shared = s.file(0x140000)
            fi, off = shared, foff
            foff += ((sz + PG - 1) // PG) * PG + rng.choice([0, PG])
        else:
            fi = s.backed_file(off, sz)
        regs.append(Reg(g, sz, u, off, fi))
        adj = rng.random() < 0.5 if adjacent is None else adjacent
        gap = 0 if adj else rng.choice([1, 16, PG, 0x10000])
        g += sz + gap
        u += sz + rng.choice([0, 0, PG, 0x100000])
        u -= u % 16
    return regs


class MemFamily(Family):
    name = "mem"
    timeout = 3000

    def __init__(self):
        super().__init__()
        self._variant = itertools.cycle([("mutex", "mutex"), ("rwlock", "rwlock"), ("rwlock", "mutex"), ("mutex", "rwlock")])

    def emit(self, L, s):
        vr, lk = next(self._variant)
        L.append(s.line(vr, lk))

    def generate(self, tier, rng):
        thorough = tier == "thorough"
        L = []
        mult = 20 if thorough else 1

        # H1: table of k regions, probes, then adds / removals with probes after each
        for k in range(1, 9):
            for rep in range(30 * mult):
                s = Scen(rng)
                regs = layout(s, rng, k, share_file=(rep % 5 == 4))
                s.mt(regs)
                s.byte_probes(count=4)
                s.translation_probes(count=3)
                # an add somewhere (before, between, after, overlapping, duplicate)
                choice = rep % 6
                last = regs[-1]
                if choice == 0:
                    r = Reg(last.gpa + last.size, PG, 0x6000_0000_0000, 0, s.backed_file(0, PG))          # adjacent after
                elif choice == 1:
                    r = Reg(last.gpa + last.size - 1, PG, 0x6000_0000_0000, 0, s.backed_file(0, PG))      # overlaps last byte
                elif choice == 2:
                    r = Reg(regs[0].gpa, regs[0].size, 0x6000_0000_0000, 0, s.backed_file(0, regs[0].size))  # duplicate
                elif choice == 3 and regs[0].gpa >= PG:
                    r = Reg(regs[0].gpa - PG, PG, regs[0].uaddr, 0, s.backed_file(0, PG))                 # before, user range overlaps
                elif choice == 4:
                    r = Reg(last.gpa + last.size + 0x100000, 2 * PG, 0x6000_0000_0000, PG, s.backed_file(PG, 2 * PG))
                else:
                    mid = regs[len(regs) // 2]
                    r = Reg(mid.gpa + mid.size // 2, PG, 0x6000_0000_0000, 0, s.backed_file(0, PG))       # inside
                s.add(r)
                s.translation_probes(regs=[r] + regs[:1], count=2)
                s.byte_probes(regs=[r], count=2)
                # removals: size mismatch, absent, exact
                victim = rng.choice(regs)
                if rep % 3 == 0:
                    s.rem(victim, size=victim.size + PG)
                elif rep % 3 == 1:
                    s.rem(victim, gpa=victim.gpa + 16)
                else:
                    s.rem(victim, size=max(1, victim.size - 1))
                s.byte_probes(regs=[victim], count=2)
                s.rem(victim)
                s.byte_probes(regs=[victim], count=2)
                s.translation_probes(regs=[victim], count=2)
                if rep % 4 == 0:
                    s.rem(victim)           # now absent
                    s.add(victim)           # and back
                    s.byte_probes(regs=[victim], count=2)
                self.emit(L, s)

        # H2: a good table, then a defective replacement that must leave it intact
        for rep in range(200 * mult):
            s = Scen(rng)
            k = rng.randrange(1, 5)
            good = layout(s, rng, k)
            s.mt(good)
            k2 = rng.randrange(2, 9)
            bad = layout(s, rng, k2, gbase=rng.choice([0x200000000, good[0].gpa]))
            defect = rep % 8
            if defect == 0:
                bad.reverse()                                                            # unordered
            elif defect == 1:
                i = rng.randrange(len(bad) - 1)
                bad[i], bad[i + 1] = bad[i + 1], bad[i]                                 # one swap
            elif defect == 2:
                i = rng.randrange(1, len(bad))
                bad[i].gpa = bad[i - 1].gpa + bad[i - 1].size - 1                        # overlap by one byte
            elif defect == 3:
                i = rng.randrange(1, len(bad))
                bad[i] = Reg(bad[i - 1].gpa, bad[i - 1].size, bad[i].uaddr, 0, s.backed_file(0, bad[i - 1].size))  # duplicate
            elif defect == 4:
                i = rng.randrange(len(bad))
                bad[i].off += rng.choice([1, 0x800, 0xfff])                              # unaligned offset: mmap fails
            elif defect == 5:
                i = rng.randrange(len(bad))
                bad[i].fi = s.file(0, "e") if rng.random() < 0.5 else s.file(0x10000, "r")   # unmappable descriptor
            elif defect == 6:
                i = rng.randrange(len(bad))
                bad[i].size = rng.choice([2**47, 2**48 + PG, 2**62])                     # no room in the address space
                for j in range(i + 1, len(bad)):
                    bad[j].gpa += 2**62
            else:
                pass                                                                     # no defect: accepted replacement
            s.mt(bad, expect_ok=(defect == 7))
            cur = bad if defect == 7 else good
            s.byte_probes(regs=cur, count=4)
            s.translation_probes(regs=cur, count=3)
            if defect != 7:
                s.byte_probes(regs=[r for r in bad if r.size < 2**40][:2], count=2)
            self.emit(L, s)

        # H3: building a table by adds only, in random order, with failing mmaps in between
        for rep in range(200 * mult):
            s = Scen(rng)
            k = rng.randrange(2, 9)
            regs = layout(s, rng, k, adjacent=(rep % 3 == 0))
            order = list(regs)
            rng.shuffle(order)
            for i, r in enumerate(order):
                if rep % 4 == 1 and i == 1:
                    f = Reg(r.gpa + 2**41, PG, 0x1000, rng.choice([1, 0x10, 2**63, 2**64 - 2 * PG]), s.file(PG))  # bad offset
                    s.add(f, expect_ok=False)
                if rep % 4 == 2 and i == 1:
                    f = Reg(r.gpa + 2**41, PG, 0x1000, 0, s.file(0, "e"))
                    s.add(f, expect_ok=False)
                s.add(r)
                if i % 3 == 0:
                    s.byte_probes(regs=[r], count=2)
            s.translation_probes(count=3)
            v = rng.choice(regs)
            s.rem(v)
            s.translation_probes(regs=[v], count=2)
            s.byte_probes(regs=[v] + [r for r in regs if r is not v][:1], count=3)
            self.emit(L, s)

        # H4: user and guest ranges anywhere in the 64-bit space (up to the very top), overlapping user ranges
        for rep in range(160 * mult):
            s = Scen(rng)
            sz = rng.choice([PG, 2 * PG, 0x10000])
            tops = [(TOP - sz - 16, TOP - sz - PG), (TOP - sz - PG, TOP - sz - 16), (2**63 - sz, 2**63), (2**63, 2**63 - sz),
                    (0, TOP - sz - 16), (TOP - sz - 16 - (TOP - sz - 16) % PG, 0), (2**32 - PG, 2**32), (0x10, 0x7fff_ffff_f000)]
            g, u = tops[rep % len(tops)]
            g -= g % 16
            u -= u % 16
            r0 = Reg(g, sz, u, rng.choice([0, PG]), 0)
            r0.fi = s.backed_file(r0.off, sz)
            low = Reg(0x100000 if g != 0x100000 else 0x300000, 2 * PG, 0x7f00_0000_0000, 0, s.backed_file(0, 2 * PG))
            regs = sorted([r0, low], key=lambda r: r.gpa)
            if rep % 2 == 0:
                s.mt(regs)
            else:
                s.add(r0)
                s.add(low)
            s.translation_probes(count=5)
            s.byte_probes(regs=[r0], count=3)
            if rep % 3 == 0:
                # a second region whose user range overlaps the first one's
                dup = Reg(0x900000, sz, r0.uaddr + (16 if rep % 2 else 0), 0, s.backed_file(0, sz))
                s.add(dup)
                s.translation_probes(regs=[dup, r0], count=3)
                s.rem(r0)
                s.translation_probes(regs=[dup, r0], count=3)
            self.emit(L, s)

        # H5: files shorter than the mapping (accepted by vm-memory 0.17.1), sparse huge files, huge regions
        for rep in range(120 * mult):
            s = Scen(rng)
            if rep % 2 == 0:
                sz = rng.choice([2 * PG, 4 * PG, 0x10000])
                fi = s.file(sz - PG)            # last page missing
                s.short.add(fi)
                r = Reg(0x40000, sz, 0x7f00_0004_0000, 0, fi)
                ok = Reg(0x10000, PG, 0x7f00_0001_0000, 0, s.backed_file(0, PG))
                s.mt([ok, r])
                s.ops += [f"rd:{hx(r.gpa)}", f"rd:{hx(r.gpa + sz - PG - 1)}", f"rd:{hx(r.gpa + sz - 1)}", f"wr:{hx(r.gpa + sz - PG)}",
                          f"wr:{hx(r.gpa + 1)}"]
                s.va(r.uaddr + sz - 16, ok.uaddr, ok.uaddr)
                s.va(r.uaddr + sz, ok.uaddr, ok.uaddr)
                s.rem(r, size=sz - PG)
                s.rem(r)
            else:
                sz = rng.choice([2**30, 2**32 + PG, 2**36])
                off = rng.choice([0, PG, 2**30])
                fi = s.file(off + sz)
                r = Reg(rng.choice([0, 2**40, 2**36]), sz, rng.choice([2**46, 2**62, 0x7f00_0000_0000]), off, fi)
                small = Reg(r.gpa + sz, PG, 0x10000, 0, s.backed_file(0, PG))
                if rep % 4 == 1:
                    s.mt([r, small])
                else:
                    s.add(small)
                    s.add(r)
                s.byte_probes(regs=[r, small], count=6)
                s.translation_probes(regs=[r, small], count=4)
                s.rem(r, size=sz - PG)
                s.rem(r)
                s.byte_probes(regs=[r], count=2)
            self.emit(L, s)

        # H6: seeded random histories over a small universe of regions
        for rep in range(720 * mult):
            s = Scen(rng)
            n = rng.randrange(2, 7)
            uni = layout(s, rng, n, adjacent=rng.random() < 0.5, share_file=rng.random() < 0.2)
            # a few extra regions that collide with the universe
            extra = []
            for _ in range(2):
                b = rng.choice(uni)
                extra.append(Reg(b.gpa + rng.choice([0, b.size - 1, b.size // 2 - (b.size // 2) % 16]), rng.choice([PG, b.size]),
                                 0x4000_0000_0000 + 0x100000 * len(extra), 0, s.backed_file(0, max(PG, b.size))))
            allr = uni + extra
            for _ in range(rng.randrange(5, 11)):
                x = rng.random()
                if x < 0.15:
                    sub = sorted(rng.sample(uni, rng.randrange(1, len(uni) + 1)), key=lambda r: r.gpa)
                    if rng.random() < 0.2:
                        rng.shuffle(sub)
                    s.mt(sub)
                elif x < 0.5:
                    s.add(rng.choice(allr))
                elif x < 0.75:
                    v = rng.choice(allr)
                    y = rng.random()
                    if y < 0.6:
                        s.rem(v)
                    elif y < 0.8:
                        s.rem(v, size=v.size + rng.choice([1, PG]))
                    else:
                        s.rem(v, gpa=v.gpa + PG)
                elif x < 0.88:
                    s.byte_probes(regs=[rng.choice(allr)], count=2)
                else:
                    s.translation_probes(regs=[rng.choice(allr)], count=2)
            s.byte_probes(regs=s.table[:2] if s.table else uni[:1], count=2)
            self.emit(L, s)
        return L

    @staticmethod
    def _toks(obs):
        return obs.split()

    def nontrivial(self, line, obs):
        t = obs.split()
        oks = sum(1 for x in t if x.split(":")[0] in ("mt", "add", "rem") and x.split(":")[1] == "ok")
        fails = sum(1 for x in t if x.split(":")[0] in ("mt", "add", "rem") and x.split(":")[1] in ("fail", "closed"))
        probes = sum(1 for x in t if x.split(":")[0] in ("rd", "wr", "va"))
        return oks >= 1 and (fails >= 1 or probes >= 1)

    def finding_key(self, line, obs, so):
        return "mem:" + (so or "no-verdict").replace("spec-fail ", "")

    def describe_spec_failure(self, line, obs, so):
        why = (so or "no verdict").replace("spec-fail ", "")
        return f"mem {why}: the daemon's memory table / translation does not reflect the accepted updates; scenario `{line[:400]}` observed `{obs[:400]}`"

    def distribution(self, lines, impl, dist):
        d = dist.setdefault("mem", {"scenarios": 0, "updates_ok": 0, "updates_refused": 0, "mt": 0, "add": 0, "rem": 0,
                                    "byte_reads": 0, "byte_reads_refused": 0, "byte_writes": 0, "frontend_writes": 0,
                                    "unbacked_cells_skipped": 0, "translations_ok": 0, "translations_refused": 0,
                                    "reconnects": 0, "regions_in_largest_table": 0})
        for l in lines:
            d["scenarios"] += 1
            for x in impl.get(l, "").split():
                p = x.split(":")
                if p[0] in ("mt", "add", "rem") and len(p) >= 5:
                    d[p[0]] += 1
                    if p[1] == "ok":
                        d["updates_ok"] += 1
                    else:
                        d["updates_refused"] += 1
                        d["reconnects"] += 1
                    if p[4] != "-":
                        d["regions_in_largest_table"] = max(d["regions_in_largest_table"], p[4].count(",") + 1)
                elif p[0] == "rd":
                    d["byte_reads"] += 1
                    d["byte_reads_refused"] += p[1] == "err"
                    d["unbacked_cells_skipped"] += p[1] == "unbacked"
                elif p[0] == "wr":
                    d["byte_writes"] += 1
                    d["unbacked_cells_skipped"] += p[1] == "unbacked"
                elif p[0] == "fw":
                    d["frontend_writes"] += 1
                elif p[0] == "va":
                    if p[1] == "ok":
                        d["translations_ok"] += 1
                    else:
                        d["translations_refused"] += 1
                        d["reconnects"] += 1


FAMILIES = [MemFamily()]
