"""C05 — no frontend input can crash the backend or reach the handler unvalidated."""
from .srv import SrvFamily
from .c13 import MemFamily   # daemon part of the statement: memory-table messages with adversarial 64-bit values
from .c14 import VqFamily    # daemon part: per-ring messages, features, indexes beyond the ring count, raw u64 payloads

PROPS_MODULES = ["C05", "C05Args", "Dispatch", "Helpers", "MemOps", "RoutingOps"]
RULE = ("family `srv` (malformed + well-formed modes): grammar-aware mutations of valid requests (size/flags/code/body field "
        "perturbed to boundary values, truncated/extended bodies, 0..40 descriptors, raw garbage, early close) after every "
        "negotiation prefix, fed to the real BackendReqHandler built with overflow checks and debug assertions; a panic is a "
        "violation; every handler call is checked against the protocol's validity rules (Spec.Proto.validCall) and requests "
        "violating a listed rule must be refused without a handler call. non-trivial = distinct scenarios with at least one "
        "refusal or handler call. Daemon part of the statement: families `mem` and `vq` (see C13/C14) drive a real VhostUserDaemon with "
        "memory-table and per-ring messages carrying adversarial 64-bit values (top-of-address-space ranges, indexes beyond the ring "
        "count, raw u64 payloads); a request thread that panics (overflow checks on) or stops answering is a violation (`no-answer`).")
ASSUMPTIONS = ["memory safety of the unsafe casts is trusted to rustc given the proved length guards", "allocation failure not modelled"]
FAMILIES = [SrvFamily(modes=("queued", "malformed", "wf"), quick=(600, 0, 4000), thorough=(5000, 0, 150000)),
            MemFamily(), VqFamily()]
