"""C05 — no frontend input can crash the backend or reach the handler unvalidated."""
from .srv import SrvFamily

PROPS_MODULES = ["C05", "C05Args", "Dispatch", "Helpers"]
RULE = ("family `srv` (malformed + well-formed modes): grammar-aware mutations of valid requests (size/flags/code/body field "
        "perturbed to boundary values, truncated/extended bodies, 0..40 descriptors, raw garbage, early close) after every "
        "negotiation prefix, fed to the real BackendReqHandler built with overflow checks and debug assertions; a panic is a "
        "violation; every handler call is checked against the protocol's validity rules (Spec.Proto.validCall) and requests "
        "violating a listed rule must be refused without a handler call. non-trivial = distinct scenarios with at least one "
        "refusal or handler call.")
ASSUMPTIONS = ["memory safety of the unsafe casts is trusted to rustc given the proved length guards", "allocation failure not modelled"]
FAMILIES = [SrvFamily(modes=("malformed", "wf"), quick=(600, 0, 4000), thorough=(5000, 0, 150000))]
