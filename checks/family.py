"""Base class of a correspondence family."""
import os
from . import common as C


class Family:
    name = "?"            # first token of every scenario line
    harness_cmd = None    # harness sub-command (defaults to name)
    has_model = True
    timeout = 1800
    serial = False        # True: harness must see all lines in one process / no parallel chunks

    def __init__(self):
        if self.harness_cmd is None:
            self.harness_cmd = self.name

    def jobs(self, jobs):
        return 1 if self.serial else jobs

    def env(self):
        return C.env_offline()

    def corpus(self):
        p = os.path.join(C.VERIF, "corpus", self.name + ".txt")
        if os.path.exists(p):
            return [l.rstrip("\n") for l in open(p) if l.strip() and not l.startswith("#")]
        return []

    def generate(self, tier, rng):
        raise NotImplementedError

    # model driver gets the scenario only (default); spec driver gets scenario + observation
    def model_input(self, line, obs):
        return line

    def spec_input(self, line, obs):
        return line + " => " + obs

    def model_agrees(self, model_out, obs):
        return model_out == obs

    def spec_ok(self, spec_out, obs):
        return spec_out == "spec-ok"

    def key(self, line):
        return line

    def finding_key(self, line, obs, spec_out):
        return self.key(line)

    def nontrivial(self, line, obs):
        return True

    def distribution(self, lines, impl, dist):
        d = dist.setdefault(self.name, {})
        d["scenarios"] = d.get("scenarios", 0) + len(lines)

    def describe_spec_failure(self, line, obs, spec_out):
        return f"{self.name}: implementation violates the Spec on `{line[:300]}`: observed `{obs[:300]}`, spec says `{spec_out}`"
