"""C06 — frontend-side parsers accept only the matching reply, survive hostile peers."""
from .fe import FeFamily
from .c18_extra import ProxyPeerMut, BeSrvMalformed, GpuFamily   # C18 machinery: proxy / GPU proxy / frontend request server

PROPS_MODULES = ["C06", "C06b", "DispatchFe", "ProxyOps", "FeRecv"]
RULE = ("family `fe` (peer mode): the raw peer answers each request with the correct reply or with the correct reply mutated in one "
        "field (code, REPLY flag, each other flag bit, version, size, a body byte, 0..3 descriptors, truncation, extra bytes) or "
        "with random strings, then closes; the frontend may return success only for a conforming reply and then exactly the "
        "decoded value. non-trivial = distinct sessions whose last reply was mutated or random.")
ASSUMPTIONS = ["fixed-size reply readers do not compare the header's size field with the bytes read (recorded limit, not alarmed)"]
class MutFe(FeFamily):
    def nontrivial(self, line, obs):
        # the last operation was answered by a scripted reply (mutated or random bytes), i.e. a reply reader ran on it
        last = line.split(" | ")[-1]
        m = [t for t in last.split() if t.startswith("r=")]
        return bool(m) and m[0] not in ("r=-", "r=close")


FAMILIES = [MutFe(modes=("peer", "mut"), quick=(800, 0, 4000) if False else (0, 800, 4000), thorough=(0, 10000, 100000)),
            ProxyPeerMut(), GpuFamily(), BeSrvMalformed()]
