"""C11 — ring state follows the protocol; kicks are dispatched iff the ring is started and enabled."""
import itertools
import re
from .family import Family

PROPS_MODULES = ["C11", "HandlerOps"]
RULE = ("family `ring`: a real VhostUserDaemon (RecordingBackend; VringMutex- and VringRwLock-backed rings; one worker owning "
        "2 rings) is driven by an independent raw vhost-user peer through histories over {SET_FEATURES with/without bit 30, "
        "SET_VRING_KICK with a fresh eventfd / with the no-descriptor flag, SET_VRING_CALL likewise, SET_VRING_ENABLE 0/1, "
        "GET_VRING_BASE, RESET_DEVICE, guest kick on the most recently sent kick descriptor of a ring or on the one sent "
        "before it, front-end closing a replaced descriptor}. Every control message carries NEED_REPLY (REPLY_ACK "
        "negotiated), so a step is complete when its acknowledgement arrived; after every step a two-phase barrier on the "
        "worker makes 'no dispatch' observable without sleeping. Observation per step = reply + which rings hold a call descriptor + the handle_event calls "
        "(thread, device_event, identity of the ring the slice holds at that index). Histories start with nothing "
        "negotiated and all rings stopped and disabled: exhaustive to depth 4 over the full 2-ring alphabet (19 events) plus "
        "exhaustive depth-3 (1-ring alphabet) / depth-2 (2-ring alphabet) suffixes after 8 warm-up prefixes (quick); in "
        "thorough additionally 250k sampled depth-5 histories, exhaustive depth 6 over a 10-event 1-ring alphabet and one "
        "level deeper suffixes; random histories of length 20 (700 / 6000); alternating Mutex/RwLock. The Spec driver runs Spec.RingAutomaton on the same history and demands exactly the handler calls "
        "the automaton delivers (none while a ring is not started and enabled, one per ring with pending kicks on its "
        "current descriptor otherwise) and the owed replies; the model driver (Model.RingReg: handler.rs/vring.rs/"
        "event_loop.rs + epoll/eventfd rules) must predict the whole observation, including what happens outside the "
        "protocol's domain (refused requests, closed connection). distinct = distinct scenario lines; non-trivial = "
        "histories in which at least one handler call was observed or a kick was raised on a ring that had a kick "
        "descriptor.")
ASSUMPTIONS = [
    "Linux epoll is level-triggered; eventfd counters; a registration disappears only when the last reference to the file "
    "is closed (the front-end keeps its copy of every descriptor it sent until it says otherwise)",
    "kick descriptors are non-blocking eventfds (as QEMU's are); with a blocking eventfd a read of an empty counter blocks "
    "the worker inside the ring lock instead of ending it",
    "every SET_VRING_KICK / SET_VRING_CALL carries a fresh descriptor (re-sending the same file is not generated)",
    "one worker owns every ring (routing to several workers is C17)",
    "decisions D1-D5 of Spec/RingAutomaton.lean (SET_VRING_ENABLE without negotiated bit 30 and unknown ring indexes are "
    "outside the domain; pending kicks belong to the descriptor; no-descriptor SET_VRING_KICK does not start or stop; "
    "RESET_DEVICE only disables; one handler call per wake-up)",
]


def ring_ops(r):
    return [f"kick {r} new", f"kick {r} none", f"call {r} new", f"en {r} 0", f"en {r} 1", f"base {r}", f"gk {r} c", f"gk {r} p"]


GLOBAL = ["feat 0", "feat 1", "reset"]
ALPHA2 = GLOBAL + ring_ops(0) + ring_ops(1)                       # 19
ALPHA1 = GLOBAL + ring_ops(0) + ["call 0 none", "pc 0"]           # 13
ALPHA1R = GLOBAL + [o for o in ring_ops(0) if not o.startswith("call")]   # 10
EXTRA = ["call 0 none", "call 1 none", "pc 0", "pc 1"]
RARE = ["kick 2 new", "en 2 1", "base 2", "gk 2 c"]

# warm-up prefixes: negotiated / legacy, started and enabled in both orders, with a pending kick
PREFIXES = [
    "feat 1 | kick 0 new | en 0 1",
    "feat 1 | en 0 1 | kick 0 new",
    "feat 0 | kick 0 new",
    "feat 1 | kick 0 new | gk 0 c",
    "feat 1 | kick 0 new | kick 1 new | en 1 1",
    "kick 0 new | gk 0 c",
    "feat 1 | kick 0 new | en 0 1 | kick 0 new",
    "feat 0 | kick 0 new | base 0",
]


class RingFamily(Family):
    name = "ring"
    timeout = 3000

    def __init__(self):
        super().__init__()
        self._k = 0

    def line(self, ops, q=2):
        self._k += 1
        cfg = "mutex" if self._k % 2 else "rwlock"
        return f"ring cfg={cfg} q={q:x} | " + " | ".join(ops)

    @staticmethod
    def ops_of(line):
        return [o.strip() for o in line.split("|")[1:]]

    def generate(self, tier, rng):
        thorough = tier == "thorough"
        L = []
        # 1. exhaustive from the initial state: depth <= 4 over the 2-ring alphabet (19^4 = 130k histories)
        for d in range(1, 5):
            for seq in itertools.product(ALPHA2, repeat=d):
                L.append(self.line(seq))
        if thorough:
            seqs = list(itertools.product(ALPHA2, repeat=5))
            for seq in rng.sample(seqs, 250000):
                L.append(self.line(seq))
            for seq in itertools.product(ALPHA1R, repeat=6):
                L.append(self.line(seq))
        # 2. exhaustive suffixes after warm-up prefixes
        for pre in PREFIXES:
            p = pre.split(" | ")
            for seq in itertools.product(ALPHA1, repeat=4 if thorough else 3):
                L.append(self.line(p + list(seq)))
            for seq in itertools.product(ALPHA2, repeat=3 if thorough else 2):
                L.append(self.line(p + list(seq)))
        # 2b. the empty feature word in place of `feat 0` in every position of short histories over the 1-ring alphabet
        for pre in (["feat z"], ["feat 1", "kick 0 new", "feat z"], ["feat 0", "kick 0 new", "reset", "feat z"], ["kick 0 new", "feat z"]):
            for seq in itertools.product(ALPHA1R, repeat=3 if thorough else 2):
                L.append(self.line(pre + list(seq)))
        # 3. random, depth 20 (weights keep the connection alive most of the time: SET_VRING_ENABLE is drawn mostly
        #    while bit 30 is negotiated)
        for _ in range(6000 if thorough else 700):
            ops = []
            nego = False
            for _ in range(20):
                x = rng.random()
                if x < 0.02:
                    op = rng.choice(RARE)
                elif x < 0.08:
                    op = rng.choice(EXTRA)
                else:
                    op = rng.choice(ALPHA2)
                    if op.startswith("en ") and not nego and rng.random() < 0.9:
                        op = rng.choice(["feat 1", "gk 0 c", "gk 1 c", "kick 0 new", "kick 1 new"])
                if op == "feat 1":
                    nego = True
                elif op in ("feat 0", "reset"):
                    nego = False
                    if op == "feat 0" and rng.random() < 0.4:
                        op = "feat z"          # the empty feature word: equal to the initial acked word, still without bit 30
                ops.append(op)
            L.append(self.line(ops))
        # slow scenarios (a worker that stopped costs one watchdog period) cluster by prefix: spread them over the chunks
        rng.shuffle(L)
        L.sort(key=lambda l: l.count("|"))        # stable: shortest histories first, so the first failure shown is a short one
        return L

    def nontrivial(self, line, obs):
        if "q" in obs.replace("ok", ""):       # some handler call observed (`t..e..q..`)
            return True
        have = set()
        for op in self.ops_of(line):
            t = op.split()
            if t[0] == "kick" and t[2] == "new":
                have.add(t[1])
            if t[0] == "gk" and t[1] in have:
                return True
        return False

    def finding_key(self, line, obs, so):
        why = (so or "no-verdict").replace("spec-fail ", "")
        return "ring:" + why

    def describe_spec_failure(self, line, obs, so):
        why = (so or "no verdict").replace("spec-fail ", "")
        kind = re.sub(r"-[0-9a-f]+$", "", why)
        return (f"ring {kind}: the handler calls / replies of the daemon differ from the ring "
                f"automaton ({why}); history `{line}` observed `{obs[:400]}`")

    def distribution(self, lines, impl, dist):
        d = dist.setdefault("ring", {"scenarios": 0, "by_length": {}, "ops": {}, "handler_calls": 0, "steps": 0,
                                     "connection_closed": 0, "worker_stopped": 0, "storm": 0, "mutex": 0, "rwlock": 0})
        for l in lines:
            ops = self.ops_of(l)
            d["scenarios"] += 1
            d["steps"] += len(ops)
            d["mutex" if "cfg=mutex" in l else "rwlock"] += 1
            k = str(len(ops))
            d["by_length"][k] = d["by_length"].get(k, 0) + 1
            for op in ops:
                t = op.split()
                key = t[0] + ("" if t[0] in ("reset", "base", "pc") else " " + t[-1])
                d["ops"][key] = d["ops"].get(key, 0) + 1
            o = impl.get(l, "")
            d["handler_calls"] += o.count("t0e")
            if "closed" in o:
                d["connection_closed"] += 1
            if "!" in o:
                d["worker_stopped"] += 1
            if "storm" in o:
                d["storm"] += 1


FAMILIES = [RingFamily()]
