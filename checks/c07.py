"""C07 — feature-dependent operations are impossible before the feature is negotiated."""
from .srv import SrvFamily
from .fe import FeFamily
from .c18_extra import ProxyGate   # C18 machinery: the proxy clause (theorem Props.C18.proxy_gate)

PROPS_MODULES = ["C07", "Dispatch", "C18", "FrontendOps"]
RULE = ("family `srv` (gate mode): for every gated request, negotiation histories in which exactly its protocol-feature bit is "
        "missing / exactly it is present / none / all, with VHOST_USER_F_PROTOCOL_FEATURES acknowledged or not, NEED_REPLY on/off, "
        "plus random orders of GET/SET_FEATURES, GET/SET_PROTOCOL_FEATURES interleaved with gated requests; the real "
        "BackendReqHandler is driven by the raw peer; observation = handler log, bytes written, result. non-trivial = distinct "
        "scenarios in which at least one handler call or one refusal of a gated request was observed. family `fe` (peer mode): the real "
        "Frontend with random negotiation prefixes and every gated API call; a refused call must leave the wire untouched.")
ASSUMPTIONS = ["the handler script stands for any application handler", "little-endian host"]
FAMILIES = [SrvFamily(modes=("gate",)), FeFamily(modes=("gate", "peer"), quick=(0, 2000, 0), thorough=(0, 40000, 0)),
            ProxyGate()]
