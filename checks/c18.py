"""C18 — backend-initiated requests reach the frontend handler faithfully, with status.

Families (generators written from the specification: independent codec, no reference to the Rust structs):
 * `proxy`  — real `Backend` proxy against the real `FrontendReqHandler<Mutex<RecFe>>` (mode=srv) or the raw peer (mode=peer)
 * `besrv`  — raw peer feeding the real `FrontendReqHandler` step by step
 * `gpu`    — real `GpuBackend` against the raw peer (exposed through checks/c18_extra.py for C01/C06)
"""
from . import common as C
from .family import Family

le = C.le

# back-end request codes (vhost-user spec, "Back-end message types")
IOTLB_MSG, CONFIG_CHANGE_MSG, VRING_HOST_NOTIFIER_MSG, VRING_CALL, VRING_ERR = 1, 2, 3, 4, 5
SHARED_OBJECT_ADD, SHARED_OBJECT_REMOVE, SHARED_OBJECT_LOOKUP, SHMEM_MAP, SHMEM_UNMAP = 6, 7, 8, 9, 10
KIND_CODE = {"add": 6, "remove": 7, "lookup": 8, "map": 9, "unmap": 10}
SERVED = [2, 6, 7, 8, 9, 10]

A64 = [0, 1, 2, 0xfff, 0x1000, 0x1001, 2**31, 2**32 - 1, 2**32, 2**63 - 1, 2**63, 2**64 - 0x1001, 2**64 - 0x1000, 2**64 - 2, 2**64 - 1]
UUIDS = [0, 2**128 - 1, 1, 2, 2**127, 2**128 - 2, 2**64, 2**64 - 1, 0xff, 0xff << 120, 0x0123456789abcdef0fedcba987654321]
ERRNOS = list(range(1, 134)) + [0xfff, 0x7fffffff]
OKVALS = [0, 0, 0, 1, 2, 0x16, 0xff, 0x100, 2**31, 2**32 - 1, 2**32, 2**63, 2**64 - 22, 2**64 - 2, 2**64 - 1]


def hdr(code, flags, size):
    return le(code, 4) + le(flags, 4) + le(size, 4)


def uuid_valid(u):
    return u != 0 and u != 2**128 - 1


def mmap_valid(fo, so, ln, fl):
    return ln != 0 and fo + ln < 2**64 and so + ln < 2**64 and fl < 2


def gen_uuid(rng, valid=None):
    if valid is True:
        return rng.choice([u for u in UUIDS if uuid_valid(u)] + [rng.getrandbits(128) | 1 for _ in range(3)])
    if valid is False:
        return rng.choice([0, 2**128 - 1])
    return rng.choice(UUIDS + [rng.getrandbits(128)])


def gen_mmap(rng, valid=None):
    """(shmid, fd_offset, shm_offset, len, flags, padding hex | '-')"""
    pad = rng.choice(["-", "-", "ffffffffffffff", "01020304050607", bytes(rng.getrandbits(8) for _ in range(7)).hex()])
    shmid = rng.choice([0, 1, 3, 0x7f, 0xff])
    if valid is True:
        ln = rng.choice([1, 0x1000, 0x1001, 2**32, 2**63, 2**64 - 1, rng.getrandbits(48) | 1])
        top = 2**64 - ln - 1
        fo = rng.choice([0, top, top // 2, min(0x1000, top), rng.randrange(0, top + 1)])
        so = rng.choice([0, top, top // 3, min(0x404, top), rng.randrange(0, top + 1)])
        return (shmid, fo, so, ln, rng.choice([0, 1]), pad)
    while True:
        t = (shmid, rng.choice(A64), rng.choice(A64), rng.choice(A64 + [0]), rng.choice([0, 1, 1, 2, 3, 2**63, 2**64 - 1]), pad)
        if valid is None or mmap_valid(*t[1:5]) == valid:
            return t


def mmap_body(t):
    shmid, fo, so, ln, fl, pad = t
    return le(shmid, 1) + ("00" * 7 if pad == "-" else pad) + le(fo, 8) + le(so, 8) + le(ln, 8) + le(fl, 8)


def gen_hout(rng, p_zero=0.45):
    r = rng.random()
    if r < p_zero:
        return "h=ok:0"
    if r < p_zero + 0.2:
        return f"h=ok:{rng.choice(OKVALS + [rng.getrandbits(64)]):x}"
    if r < p_zero + 0.45:
        return f"h=errno:{rng.choice(ERRNOS):x}"
    return "h=err"


def gen_op(rng, valid=True, kind=None):
    """(op text, kind, valid?) of a proxy call"""
    kind = kind or rng.choice(["add", "remove", "lookup", "map", "unmap"])
    if kind in ("add", "remove", "lookup"):
        u = gen_uuid(rng, valid)
        return f"{kind} {u:x}", kind, uuid_valid(u)
    t = gen_mmap(rng, valid)
    return f"{kind} {t[0]:x} {t[1]:x} {t[2]:x} {t[3]:x} {t[4]:x} {t[5]}", kind, mmap_valid(*t[1:5])


def op_body(op):
    """request body (hex) of an op text, by the independent codec"""
    t = op.split()
    if t[0] in ("add", "remove", "lookup"):
        return le(int(t[1], 16), 16)
    return mmap_body((int(t[1], 16), int(t[2], 16), int(t[3], 16), int(t[4], 16), int(t[5], 16), t[6]))


def ack(code, value, flags=5, size=8, nfds=0):
    return f"{hdr(code, flags, size)}{le(value, 8)}/{nfds}"


def mutate_ack(rng, code, value):
    """one-field mutation of a correct acknowledgement; returns (r= text, tag)"""
    flags, size, nfds = 5, 8, 0
    b = bytearray(bytes.fromhex(le(value, 8)))
    m = rng.choice(["code", "reply", "flagbit", "version", "size", "body", "fds", "trunc", "extend", "random", "value"])
    if m == "code":
        code = rng.choice([c for c in [0, 1, 2, 5, 6, 7, 8, 9, 10, 11, 44, 2**32 - 1] if c != code])
    elif m == "reply":
        flags = 1
    elif m == "flagbit":
        flags = 5 ^ (1 << rng.choice([3, 4, 5, 16, 31]))
    elif m == "version":
        flags = rng.choice([4, 6, 7])
    elif m == "size":
        size = rng.choice([0, 1, 7, 9, 16, 0x1000, 0x1001, 2**32 - 1])
    elif m == "body":
        k = rng.randrange(8)
        b[k] = (b[k] + rng.choice([1, 0x80, 0xff])) & 0xff
    elif m == "fds":
        nfds = rng.choice([1, 2, 3])
    elif m == "trunc":
        b = b[:rng.randrange(8)]
    elif m == "extend":
        b = b + bytes(rng.getrandbits(8) for _ in range(rng.choice([1, 8, 12])))
    elif m == "value":
        b = bytearray(bytes.fromhex(le(rng.choice([1, 2, 2**32, 2**63, 2**64 - 22, 2**64 - 1]), 8)))
    elif m == "random":
        rb = bytes(rng.getrandbits(8) for _ in range(rng.choice([1, 11, 12, 13, 20, 40])))
        return rb.hex() + f"/{rng.choice([0, 0, 1])}", m
    return f"{hdr(code, flags, size)}{bytes(b).hex()}/{nfds}", m


class ProxyFamily(Family):
    name = "proxy"
    MODES = ("srv", "gate", "peer", "mut")

    def __init__(self, modes=MODES, quick=(1600, 400, 500, 0), thorough=(30000, 4000, 8000, 0)):
        super().__init__()
        self.modes = modes
        self.sizes = {"quick": dict(zip(self.MODES, quick)), "thorough": dict(zip(self.MODES, thorough))}

    # ------------------------------------------------------------------ generators
    def prefix(self, rng, srv, ra, so=1, shm=1, consistent=True):
        ops = []
        if ra:
            ops.append("ra 1")
        if srv and (ra if consistent else not ra):
            ops.append("sra 1")
        if so:
            ops.append("so 1")
        if shm:
            ops.append("shm 1")
        rng.shuffle(ops)
        return ops

    def gen_srv(self, rng, n):
        out = []
        # exhaustive small part: five kinds x REPLY_ACK x handler result classes
        for kind in KIND_CODE:
            for ra in (0, 1):
                for h in ["h=ok:0", "h=ok:1", f"h=ok:{2**64 - 1:x}", f"h=ok:{2**64 - 22:x}", "h=err"] + [f"h=errno:{e:x}" for e in ERRNOS]:
                    op, _, _ = gen_op(rng, True, kind)
                    out.append("proxy mode=srv | " + " | ".join(self.prefix(rng, True, ra) + [f"{op} {h}"]))
        while len(out) < n:
            ra = rng.choice([0, 1])
            consistent = rng.random() >= 0.02
            ops = self.prefix(rng, True, ra, consistent=consistent)
            k = rng.randint(1, 8)
            for i in range(k):
                # requests the protocol declares invalid close the channel: mostly as the last operation
                inv = (i == k - 1 and rng.random() < 0.12) or rng.random() < 0.01
                op, _, _ = gen_op(rng, None if inv else True)
                ops.append(f"{op} {gen_hout(rng)}")
                if rng.random() < 0.03:
                    # renegotiation in the middle of a session (both ends)
                    ra = 1 - ra
                    ops += [f"ra {ra}", f"sra {ra}"]
            out.append("proxy mode=srv | " + " | ".join(ops))
        return out

    def gen_gate(self, rng, n):
        """C07 (proxy clause) / C18 proxy_gate: all subsets of the two enabling flags x REPLY_ACK x the five calls, plus
        flags toggled in the middle of a session; both modes"""
        out = []
        for mode in ("srv", "peer"):
            for so in (0, 1):
                for shm in (0, 1):
                    for ra in (0, 1):
                        for kind in KIND_CODE:
                            op, _, _ = gen_op(rng, True, kind)
                            tail = gen_hout(rng) if mode == "srv" else (f"r={ack(KIND_CODE[kind], 0)}" if ra else "r=-")
                            out.append(f"proxy mode={mode} | " + " | ".join(self.prefix(rng, mode == "srv", ra, so, shm) + [f"{op} {tail}"]))
        while len(out) < n:
            mode = rng.choice(["srv", "peer"])
            ra = rng.choice([0, 1])
            st = {"so": 0, "shm": 0}
            ops = self.prefix(rng, mode == "srv", ra, 0, 0)
            for _ in range(rng.randint(2, 8)):
                if rng.random() < 0.4:
                    f = rng.choice(["so", "shm"])
                    st[f] = rng.choice([0, 1])
                    ops.append(f"{f} {st[f]}")
                else:
                    op, kind, _ = gen_op(rng, True)
                    tail = gen_hout(rng) if mode == "srv" else (f"r={ack(KIND_CODE[kind], 0)}" if ra and st["so" if kind in ("add", "remove", "lookup") else "shm"] else "r=-")
                    ops.append(f"{op} {tail}")
            out.append(f"proxy mode={mode} | " + " | ".join(ops))
        return out

    def gen_peer(self, rng, n, mutate):
        out = []
        while len(out) < n:
            ra = 1 if mutate else rng.choice([0, 1, 1])
            ops = self.prefix(rng, False, ra)
            k = rng.randint(1, 5)
            for i in range(k):
                op, kind, _ = gen_op(rng, None if rng.random() < 0.15 else True)
                code = KIND_CODE[kind]
                last = i == k - 1
                if ra:
                    v = rng.choice([0, 0, 0, 1, 2**64 - 22, 2**64 - 1, rng.getrandbits(64)]) if last else 0
                    r = ack(code, v)
                    tag = ""
                    if mutate and last:
                        r, tag = mutate_ack(rng, code, rng.choice([0, 0, 1]))
                    if not mutate and rng.random() < 0.04:
                        r = "close"
                    ops.append(f"{op} r={r}" + (" then-close" if (mutate and last and r != "close") else ""))
                    if r == "close":
                        break
                else:
                    r = "-" if rng.random() >= 0.03 else ack(code, 0)
                    ops.append(f"{op} r={r}")
                    if r != "-":
                        break
            out.append("proxy mode=peer | " + " | ".join(ops))
        return out

    def generate(self, tier, rng):
        sz = self.sizes[tier]
        L = []
        if "srv" in self.modes:
            L += self.gen_srv(rng, sz["srv"])
        if "gate" in self.modes:
            L += self.gen_gate(rng, sz["gate"])
        if "peer" in self.modes:
            L += self.gen_peer(rng, sz["peer"], False)
        if "mut" in self.modes:
            L += self.gen_peer(rng, sz["mut"], True)
        return L

    # ------------------------------------------------------------------ evaluation
    def nontrivial(self, line, obs):
        # the property's hypothesis is met: at least one request reached the handler / was written
        return any((" c=" in p and " c=-" not in p) or (" w=" in p and " w=-" not in p) for p in obs.split(" | "))

    def distribution(self, lines, impl, dist):
        d = dist.setdefault("proxy", {"scenarios": 0, "ops": 0, "ret": {}, "kinds": {}, "handler": {"ok0": 0, "okN": 0, "errno": 0, "err": 0},
                                      "reply_ack_on": 0, "handler_calls": 0})
        for l in lines:
            d["scenarios"] += 1
            if " ra 1" in l:
                d["reply_ack_on"] += 1
            ops = [x.strip() for x in l.split("|")[1:]]
            obs = impl.get(l, "").split(" | ")
            for op, o in zip(ops, obs):
                nm = op.split()[0]
                if nm not in KIND_CODE:
                    continue
                d["ops"] += 1
                d["kinds"][nm] = d["kinds"].get(nm, 0) + 1
                r = o.split()[0][4:].split(":")[0] if o.startswith("ret=") else "?"
                d["ret"][r] = d["ret"].get(r, 0) + 1
                if " c=" in o and " c=-" not in o:
                    d["handler_calls"] += 1
                for t in op.split():
                    if t.startswith("h="):
                        k = "ok0" if t == "h=ok:0" else "okN" if t.startswith("h=ok:") else "errno" if t.startswith("h=errno:") else "err"
                        d["handler"][k] += 1

    def finding_key(self, line, obs, so):
        return "proxy:" + (so.split()[1] if so and so.startswith("spec-fail") and len(so.split()) > 1 else "?")


class BeSrvFamily(Family):
    name = "besrv"
    MODES = ("wf", "malformed")

    def __init__(self, modes=MODES, quick=(1200, 2500), thorough=(20000, 60000)):
        super().__init__()
        self.modes = modes
        self.sizes = {"quick": dict(zip(self.MODES, quick)), "thorough": dict(zip(self.MODES, thorough))}

    def valid_request(self, rng, code, valid=True):
        """(body hex, nfds)"""
        if code in (6, 7, 8):
            return le(gen_uuid(rng, valid), 16), 1 if code == 8 else 0
        if code in (9, 10):
            return mmap_body(gen_mmap(rng, valid)), 1 if code == 9 else 0
        return "", 0

    def step(self, rng, code, flags, body, nfds, h, size=None, close=False, split=True, allow_seq=True):
        size = len(body) // 2 if size is None else size
        head = hdr(code, flags, size)
        msg = head + body
        tail = ""
        if split and body:
            r = rng.random()
            if r < 0.25:
                msg = head + "+" + body
                tail = " seq" if (allow_seq and rng.random() < 0.5) else ""
            elif r < 0.35:
                k = rng.randrange(1, len(msg) // 2)
                msg = msg[:2 * k] + "+" + msg[2 * k:]
                tail = " seq" if (allow_seq and rng.random() < 0.5) else ""
            elif r < 0.4 and len(body) >= 8:
                k = 12 + rng.randrange(1, len(body) // 2)
                msg = head + "+" + msg[24:2 * k] + "+" + msg[2 * k:]
                tail = " seq" if allow_seq else ""
        return f"m {msg} f{nfds} {h}{tail}" + (" close" if close else "")

    def gen_wf(self, rng, n):
        out = []
        for code in range(1, 11):
            for ra in (0, 1):
                for need in (0, 8):
                    for h in ("h=ok:0", "h=ok:7", "h=errno:5", "h=errno:16", "h=err", f"h=ok:{2**64 - 1:x}"):
                        body, nf = self.valid_request(rng, code)
                        out.append("besrv " + " | ".join([f"ra {ra}", self.step(rng, code, 1 | need, body, nf, h, split=False)]))
        while len(out) < n:
            ra = rng.choice([0, 1, 1])
            steps = [f"ra {ra}"]
            for _ in range(rng.randint(1, 8)):
                code = rng.choice(SERVED * 4 + [1, 3, 4, 5])
                # a request the protocol declares invalid (nil / all-ones UUID, zero length, wrapping range, undefined flag)
                body, nf = self.valid_request(rng, code, None if rng.random() < 0.15 else True)
                steps.append(self.step(rng, code, 1 | rng.choice([0, 8]), body, nf, gen_hout(rng)))
                if rng.random() < 0.05:
                    ra = 1 - ra
                    steps.append(f"ra {ra}")
            out.append("besrv " + " | ".join(steps))
        return out

    def mutate(self, rng, code, body, nf):
        flags, size, close = 1 | rng.choice([0, 8]), None, False
        b = bytearray(bytes.fromhex(body))
        m = rng.choice(["size", "flags", "code", "trunc", "extend", "field", "fds", "fds", "fds", "field", "garbage"])
        if m == "size":
            size = rng.choice([0, 1, len(b) - 1 if b else 7, len(b) + 1, len(b) + 8, 16, 40, 0x1000, 0x1001, 2**31, 2**32 - 1])
            close = size > len(b)
        elif m == "flags":
            flags = rng.choice([0, 2, 3, 5, 0xd, 0x11, 0x19, 0x80000001, 0xffffffff, 9])
        elif m == "code":
            code = rng.choice([0, 1, 2, 3, 4, 5, 6, 7, 8, 9, 10, 11, 12, 44, 255, 2**31, 2**32 - 1])
        elif m == "trunc" and b:
            b = b[:rng.randrange(0, len(b))]
            size = rng.choice([None, len(bytes.fromhex(body))])
            close = size is not None
        elif m == "extend":
            b = b + bytes(rng.getrandbits(8) for _ in range(rng.choice([1, 4, 8, 12, 24, 32])))
            size = rng.choice([None, len(bytes.fromhex(body))])
        elif m == "field" and b:
            w = rng.choice([1, 8, 8, 16]) if len(b) >= 16 else 8
            w = min(w, len(b))
            off = rng.randrange(0, len(b) - w + 1, 8) if len(b) > w else 0
            val = rng.choice(C.U64 + [2**128 - 1, 0]) if w >= 8 else rng.choice([0, 1, 0xff])
            b[off:off + w] = (val % (1 << (8 * w))).to_bytes(w, "little")
        elif m == "fds":
            nf = rng.choice([0, 1, 2, 3, 31, 32, 33, 40])
        elif m == "garbage":
            b = bytearray(rng.getrandbits(8) for _ in range(rng.choice([0, 1, 7, 12, 13, 16, 40, 100])))
        return code, flags, size, b.hex(), nf, close

    def gen_malformed(self, rng, n):
        out = []
        while len(out) < n:
            steps = [f"ra {rng.choice([0, 1, 1])}"]
            k = rng.randint(1, 4)
            # `seq` (one segment in flight at a time) is only well defined while nothing is left over in the socket
            aligned = True
            for i in range(k):
                code = rng.choice(SERVED * 3 + [1, 3, 4, 5])
                body, nf = self.valid_request(rng, code)
                if rng.random() < 0.75:
                    code2, flags, size, body2, nf2, close = self.mutate(rng, code, body, nf)
                    steps.append(self.step(rng, code2, flags, body2, nf2, gen_hout(rng), size=size, close=close, split=rng.random() < 0.5,
                                           allow_seq=aligned))
                    aligned = False
                    if close:
                        break
                else:
                    steps.append(self.step(rng, code, 1 | rng.choice([0, 8]), body, nf, gen_hout(rng), allow_seq=aligned))
            if rng.random() < 0.15 and not steps[-1].endswith(" close"):
                g = bytes(rng.getrandbits(8) for _ in range(rng.choice([1, 5, 11, 12, 13, 30])))
                steps.append(f"m {g.hex()} f{rng.choice([0, 0, 1, 3])} h=ok:0 close")
            out.append("besrv " + " | ".join(steps))
        return out

    def generate(self, tier, rng):
        sz = self.sizes[tier]
        L = []
        if "wf" in self.modes:
            L += self.gen_wf(rng, sz["wf"])
        if "malformed" in self.modes:
            L += self.gen_malformed(rng, sz["malformed"])
        return L

    def nontrivial(self, line, obs):
        return any(p.strip().startswith("r=") and not p.strip().startswith("r=set") for p in obs.split("|"))

    def distribution(self, lines, impl, dist):
        d = dist.setdefault("besrv", {"scenarios": 0, "steps": 0, "steps_with_handler_call": 0, "acks": 0, "results": {}, "requests": {}})
        for l in lines:
            d["scenarios"] += 1
            for p in impl.get(l, "").split(" | "):
                if not p.startswith("r=") or p.startswith("r=set"):
                    continue
                d["steps"] += 1
                r = p.split()[0][2:].split(":")[0]
                d["results"][r] = d["results"].get(r, 0) + 1
                if " o=-" not in p:
                    d["acks"] += 1
                if " c=-" not in p:
                    d["steps_with_handler_call"] += 1
                    nm = p.split(" c=")[1].split(":")[0]
                    d["requests"][nm] = d["requests"].get(nm, 0) + 1

    def finding_key(self, line, obs, so):
        return "besrv:" + (so.split()[1] if so and so.startswith("spec-fail") and len(so.split()) > 1 else "?")


PROPS_MODULES = ["C18", "DispatchFe", "ProxyOps"]
RULE = ("family `proxy` (mode=srv): the real Backend proxy against the real FrontendReqHandler with a recording application handler: "
        "five request kinds x UUID / mapping lattice (64-bit offsets and lengths at the wrap boundaries, flag values, padding bytes, "
        "nil / all-ones UUID, zero length) x scripted handler results (0, non-zero values incl. 2^64-1 and 2^64-22, every errno 1..133, "
        "0xfff, 0x7fffffff, errors without errno) x REPLY_ACK on/off (both ends, also renegotiated mid-session) x histories of up to 8 "
        "requests mixing failing and succeeding ones; exhaustive over kind x REPLY_ACK x every errno. Judged by the Spec: handler invoked "
        "exactly once with equal arguments and the same open file (fstat identity), proxy result ok iff handler returned 0 (with "
        "REPLY_ACK) / always ok and nothing awaited (without), refused locally unless the enabling flag is set. mode=peer: the bytes and "
        "descriptors the proxy writes vs the Spec encoder; scripted acknowledgements. family `besrv`: the raw peer feeds requests "
        "(all ten codes, NEED_REPLY on/off, split over several segments) and malformed streams; every acknowledgement is decoded by the "
        "independent codec: k-th ack answers k-th request, value = handler value resp. 2^64 - errno. non-trivial = distinct scenarios in "
        "which at least one request reached the server / the wire.")
ASSUMPTIONS = ["the frontend's serve loop drops the request server (closing the channel) when handle_request fails with anything but the "
               "application handler's error", "identity of passed files by (st_dev, st_ino) of fresh memfds", "little-endian host",
               "handler errors carrying errno 0 or a negative errno are outside `every errno class` (not generated)"]
FAMILIES = [ProxyFamily(), BeSrvFamily()]
