"""C04 — the backend emits exactly the replies the protocol prescribes; peers stay in step."""
from .srv import SrvFamily

PROPS_MODULES = ["C04", "C04Owed", "Dispatch", "Helpers"]
RULE = ("family `srv` (well-formed mode): every implemented request x NEED_REPLY x handler ok/fail after each negotiation prefix "
        "(none / virtio only / all protocol features / REPLY_ACK only / protocol features acknowledged but not offered), plus "
        "random histories of up to 10 requests; bytes written by the server are compared with the Spec's owed reply "
        "(same code, REPLY set, NEED_REPLY clear, version 1, size = payload; ack 0 iff handler ok) and with the model. "
        "non-trivial = distinct scenarios in which a reply or acknowledgement was owed at least once.")
ASSUMPTIONS = ["SET_FEATURES/SET_PROTOCOL_FEATURES take effect with the message that carries them (both ends of the library "
               "decide on the acknowledgement with the new state)", "the SET_LOG_BASE reply body (echo of the log descriptor) is taken as the reference"]
class OwedSrv(SrvFamily):
    def nontrivial(self, line, obs):
        # something was written in answer to a request at least once
        return any(" o=-" not in p for p in self.steps(obs))


FAMILIES = [OwedSrv(modes=("wf",), quick=(3000, 0, 0), thorough=(80000, 0, 0))]
