"""C10 — concurrent callers get their own replies: request/response pairs are atomic."""
import itertools
from .family import Family

PROPS_MODULES = ["C10", "LockShapes"]
RULE = ("family `locks`: clones of one Frontend / Backend (backend->frontend proxy) / GpuBackend are driven from 2 (quick) or "
        "2-3 (thorough) threads against a scripted raw peer on a socketpair; a schedule controller registered through "
        "verif_hooks::set_controller parks each thread at the hold point between 'request written' and 'reply read' and "
        "the scenario line says in which order threads are started (sN) and released (rN). Enumerated: every order of the "
        "start/release events with start before release (all 6 for 2 threads, all 90 for 3 threads in thorough; a sample of "
        "the 90 in quick) plus orders in which a thread is released before it starts (passes the hold point without "
        "parking), over mixes of reply-bearing, acknowledged (REPLY_ACK on/off) and fire-and-forget calls, calls with the "
        "same request code and different arguments, identical calls, and locally rejected calls. Observed per event: which "
        "threads are parked / blocked / returned and how many requests the peer has seen; finally the arrival order at "
        "the peer, each caller's result, completion under a watchdog. The model driver runs the same schedule through "
        "Model.Locks.step (exploring every choice where several threads wait for the free lock) and must predict the "
        "observation; the spec driver rebuilds the most lenient history consistent with the observation and judges it with "
        "Spec.Locks.atomicB / own result / completion. Plus randomized stress (8 threads x N LCG-drawn calls per endpoint "
        "kind): every call compares its result with the reply owed to its own request, the peer counts requests that "
        "were already waiting while it still owed a reply. distinct = distinct scenario lines; non-trivial = scheduled "
        "scenarios in which some thread was observed blocked while another was parked between its send and its receive "
        "(the window the property is about), and stress lines. "
        "Reply faults (error paths of the reply readers under concurrency): scheduled scenarios with `fault=<k>:<kind>` make the "
        "scripted peer mistreat the request of thread k — `code` (a right-sized reply with another request code), `noreply` "
        "(REPLY flag missing), `fd` (an unexpected descriptor attached, where the reply takes none), `close` (the peer shuts the "
        "socket down instead of answering). Enumerated: every reply-reading method of each endpoint kind (13 reply-bearing + 4 "
        "acknowledged Frontend methods with REPLY_ACK, the 5 Backend-proxy methods with REPLY_ACK, the 4 reply-bearing GpuBackend "
        "methods) x every applicable fault kind x schedules with a second caller queued behind the faulted one while it is "
        "parked between send and receive, the faulted caller queued behind a good one, two callers queued behind / the faulted "
        "one in the middle of three (quick: the first plus one of the others in rotation; thorough: all, plus pre-released and "
        "partner-faulted variants). Demanded (Spec.Locks.FaultClauses + the three clauses): the faulted call returns an error — "
        "never a value, never blocks (watchdog) —, every call whose request the peer received and answered correctly gets its "
        "own reply (the faulty reply has the size the reader consumes, so the stream stays aligned), after `close` the remaining "
        "calls return errors, all threads finish. The model driver predicts the same observation from Model.Locks.step with "
        "Cfg.fault (Props.C10.faulty_reply_releases_lock, others_unaffected_by_faulty_reply; the mutated rule that re-locks on "
        "the error path is the deadlock of relock_on_error_deadlocks). Stress lines with `fault=<tag>:<kind>` make every reply "
        "to one request tag faulty (a few percent of all calls): those calls must return errors, all others their own replies.")
ASSUMPTIONS = [
    "std::sync::Mutex provides mutual exclusion; AF_UNIX stream sockets are FIFO per direction",
    "the peer produces a reply exactly for requests that have one by the protocol (reply-bearing requests; others iff "
    "REPLY_ACK negotiated and NEED_REPLY set) and answers in arrival order",
    "liveness assumes a fair OS scheduler; 'blocked' is observed as no progress within a bounded wait "
    "(VERIF_LOCKS_WAIT_MS, default 150 ms; extended while the thread is runnable but starved)",
    "reply faults: a faulty reply has exactly the size the reader consumes in one recv_body (header + fixed body; for "
    "GET_CONFIG the payload-less form), so what a reader leaves behind after refusing a reply is not exercised; after "
    "`close` the peer is gone for good; in fault scenarios results are compared up to the kind of error",
    "Frontend::set_log_base without a region never reads a reply although the header may carry NEED_REPLY: which replies "
    "are owed is outside C10 (C04/C06); that call is only exercised with REPLY_ACK off",
]

# call tags (see harness/src/fam_locks.rs) ---------------------------------------------------------------------------
FE_ACK_PAIRS = [("gf", "gvb1"), ("gvb0", "gvb1"), ("gf", "so"), ("svn1.100", "svn2.8000"), ("gcfg10", "scfg30"),
                ("sdsf", "cds"), ("gqn", "svb3.7"), ("gpf", "gmms"), ("gf", "gf"), ("gvb2", "svn40.1"),
                ("so", "sf40001111")]
FE_NOACK_PAIRS = [("gf", "so"), ("svn1.100", "gvb1"), ("so", "svb3.7"), ("slb", "gf"), ("gcfg20", "svn2.8000")]
BE_ACK_PAIRS = [("soa1.0", "soa2.1"), ("sor3.0", "smap4.1"), ("sol5.1", "sunm6.0")]
BE_NOACK_PAIRS = [("soa1.0", "smap2.1")]
GPU_PAIRS = [("gpf", "gdi"), ("ged1", "ged2"), ("uds1", "sc2"), ("gdi", "cp1"), ("cu", "ged3"), ("spf", "us4")]

FE_ACK_TRIPLES = [("gf", "gvb1", "so"), ("gvb0", "gvb1", "gvb2"), ("svn1.8000", "gcfg10", "sdsf"), ("gf", "svn40.1", "cds")]
FE_NOACK_TRIPLES = [("gf", "so", "svn1.100"), ("slb", "gvb3", "sf40001111")]
BE_TRIPLES = [("soa1.0", "sor2.1", "smap3.0"), ("sol4.1", "sunm5.1", "soa6.0")]
GPU_TRIPLES = [("gpf", "cp1", "ged2"), ("uds1", "gdi", "sc3"), ("ged1", "ged2", "ged3")]

# one tag per public method (every row of the table in lean/VhostModel/Model/Locks.lean)
FE_METHODS = ["gf", "sf40001111", "so", "ro", "smt", "slbr", "slf", "svn1.100", "sva1", "svb3.7", "gvb2", "svc2", "svk3",
              "svr4", "gpf", "spfe", "gqn", "rd", "sen5", "gcfg10", "scfg30", "sbrf", "gso", "gif3", "sif2", "gmms", "amr", "rmr",
              "gsc", "sdsf", "cds", "pca", "pcl", "pce"]
BE_METHODS = ["soa1.0", "sor2.0", "sol3.0", "smap4.0", "sunm5.0"]
GPU_METHODS = ["gpf", "spf", "gdi", "ged1", "sc2", "us3", "ds4", "dt5", "uds6", "cp7", "cph8", "cu"]

# reply faults: (endpoint, ack, methods whose reply is read, partner, third caller, alternative third caller)
FAULT_KINDS = ["code", "noreply", "fd", "close"]
FE_FAULT_METHODS = ["gf", "gpf", "gqn", "gmms", "cds", "sdsf", "slbr", "gso", "pca", "gsc", "gif3", "gvb2", "gcfg10",   # reply-bearing
                    "so", "svn1.100", "smt", "sf40001111"]                                                            # acknowledged
NO_FD_FAULT = {"sdsf", "gso", "pca", "gif3"}          # replies that may / must carry a descriptor anyway
FAULT_GROUPS = [("fe", 1, FE_FAULT_METHODS, "gvb1", "so", "sen5"),
                ("be", 1, ["soa1.0", "sor2.0", "sol3.0", "smap4.0", "sunm5.0"], "sor9.0", "soa7.0", "sunm7.0"),
                ("gpu", 0, ["gpf", "gdi", "ged1", "uds6"], "ged9", "cp7", "cp7")]
# thread 0 = the method under test (faulted), thread 1 = partner, thread 2 = third caller
FAULT_BEHIND = "s0,s1,r0,r1"                 # a second caller queued behind the faulted one (parked in the window)
FAULT_ROTATE = ["s1,s0,r1,r0",               # the faulted caller queued behind a good one
                "s0,s1,s2,r0,r1,r2",         # two callers queued behind the faulted one
                "s1,s0,s2,r1,r0,r2"]         # the faulted one in the middle of three
FAULT_MORE = ["r0,s0,s1,r1", "s0,r0,s1,r1", "s0,s1,s2,r0,r2,r1"]


def orders(n, prerelease):
    """all orders of s0..s(n-1), r0..r(n-1); with prerelease=False only those with s_i before r_i"""
    evs = [f"s{i}" for i in range(n)] + [f"r{i}" for i in range(n)]
    out = []
    for p in itertools.permutations(evs):
        pos = {e: k for k, e in enumerate(p)}
        ok = all(pos[f"s{i}"] < pos[f"r{i}"] for i in range(n))
        if ok or prerelease:
            out.append(",".join(p))
    return out


def line(ep, ack, calls, sched, fault=None):
    n = 3 if "s2" in sched else 2
    l = f"locks ep={ep} ack={ack} calls={','.join(calls[:n])} sched={sched}"
    return l + (f" fault={fault}" if fault else "")


def fault_lines(thorough):
    """every reply-reading method x fault kind x schedules with other callers queued behind / in front"""
    L = []
    k = 0
    for ep, ack, methods, partner, third, third_alt in FAULT_GROUPS:
        for m in methods:
            t3 = third_alt if m == third else third
            calls = (m, partner, t3)
            for kind in FAULT_KINDS:
                if kind == "fd" and m in NO_FD_FAULT:
                    continue
                L.append(line(ep, ack, calls, FAULT_BEHIND, f"0:{kind}"))
                if thorough:
                    for sc in FAULT_ROTATE + FAULT_MORE:
                        L.append(line(ep, ack, calls, sc, f"0:{kind}"))
                    # the partner's reply is the faulty one, the method under test is the bystander
                    if not (kind == "fd" and partner in NO_FD_FAULT):
                        L.append(line(ep, ack, calls, FAULT_BEHIND, f"1:{kind}"))
                        L.append(line(ep, ack, calls, "s1,s0,r1,r0", f"1:{kind}"))
                else:
                    L.append(line(ep, ack, calls, FAULT_ROTATE[k % len(FAULT_ROTATE)], f"0:{kind}"))
                k += 1
    return L


class LocksFamily(Family):
    name = "locks"
    timeout = 1500

    # check.py keys the spec driver's answers by the text before the first " => ", so the separator
    # between scenario and observation must not contain that string (the spec driver accepts `==>` too)
    def spec_input(self, line, obs):
        return line + " ==> " + obs

    def model_agrees(self, model_out, obs):
        return obs in model_out.split(" | ")

    def nontrivial(self, line, obs):
        if "stress=" in line:
            return True
        for sn in _snaps(obs):
            st = sn.split(":")[1].split("/")[0] if ":" in sn else ""
            if "h" in st and "b" in st:
                return True
        return False

    def finding_key(self, line, obs, so):
        t = dict(x.split("=", 1) for x in line.split()[1:] if "=" in x)
        return "locks:" + ":".join(t.get(k, "") for k in ("ep", "ack", "calls", "sched", "stress", "only")) + \
            (":fault=" + t["fault"] if "fault" in t else "")

    def describe_spec_failure(self, line, obs, spec_out):
        return (f"locks: `{line}`: {spec_out} (atomic = a request reached the peer between another caller's request and "
                f"the consumption of its reply; own_reply = a caller did not get the reply to its own request; "
                f"all_complete = a call did not return — blocked or deadlocked; faulty_is_error = the call whose reply the "
                f"peer made faulty returned a value): observed `{obs[:400]}`")

    def generate(self, tier, rng):
        thorough = tier == "thorough"
        L = []
        two = orders(2, False)                                    # 6
        two_pre = orders(2, True) if thorough else two + ["r1,s0,s1,r0", "r0,s1,s0,r1"]
        groups2 = [("fe", 1, FE_ACK_PAIRS), ("fe", 0, FE_NOACK_PAIRS), ("be", 1, BE_ACK_PAIRS), ("be", 0, BE_NOACK_PAIRS),
                   ("gpu", 0, GPU_PAIRS)]
        for ep, ack, pairs in groups2:
            for calls in pairs:
                for sc in two_pre:
                    L.append(line(ep, ack, calls, sc))
                if thorough and calls[0] != calls[1]:
                    for sc in two:
                        L.append(line(ep, ack, (calls[1], calls[0]), sc))
        three = orders(3, False)                                  # 90
        groups3 = [("fe", 1, FE_ACK_TRIPLES), ("fe", 0, FE_NOACK_TRIPLES), ("be", 1, BE_TRIPLES), ("gpu", 0, GPU_TRIPLES)]
        for ep, ack, triples in groups3:
            for k, calls in enumerate(triples):
                if thorough:
                    scs = three + ["r2,s0,s1,s2,r0,r1", "r1,r2,s0,s1,s2,r0", "s0,s1,r1,s2,r2,r0"]
                elif k == 0:
                    scs = rng.sample(three, 4) + ["s0,s1,s2,r0,r1,r2"]
                else:
                    scs = []
                for sc in scs:
                    L.append(line(ep, ack, calls, sc))
        # every public method once on each side of the window, against a reply-bearing partner
        for ep, ack, methods, partner in (("fe", 1, FE_METHODS, "gvb1"), ("be", 1, BE_METHODS, "sor9.1"),
                                          ("gpu", 0, GPU_METHODS, "ged9")):
            for m in methods:
                for sc in (("s0,s1,r0,r1", "s1,s0,r1,r0") if not thorough else two):
                    L.append(line(ep, ack, (m, partner), sc))
            if thorough and ep == "fe":
                for m in methods:
                    L.append(line(ep, 0, (m, partner), "s0,s1,r0,r1"))
                    L.append(line(ep, 0, (m, partner), "s1,s0,r1,r0"))
        # reply faults, spread over the chunks that check.py hands to parallel harness processes (a deadlocking
        # endpoint kind costs one watchdog period per scenario; keep those out of a single chunk)
        F = fault_lines(thorough)
        stepf = max(1, len(L) // (len(F) + 1))
        for k, f in enumerate(F):
            L.insert(min(len(L), (k + 1) * stepf + k), f)
        # randomized stress
        per = 2000 if thorough else 250
        seeds = [rng.getrandbits(32) for _ in range(4 if thorough else 1)]
        stress = []
        for sd in seeds:
            for ep, ack in (("fe", 1), ("fe", 0), ("be", 1), ("gpu", 0)):
                stress.append(f"locks ep={ep} ack={ack} stress=8x{per} seed={sd:x}")
        # stress with a small fraction of faulty replies: every reply to one request tag
        fstress = [("fe", 1, "gvb1", "code"), ("be", 1, "sor3.0", "noreply"), ("gpu", 0, "ged1", "fd")]
        if thorough:
            fstress += [("fe", 1, "gcfg10", "noreply"), ("fe", 1, "gso", "code"), ("fe", 1, "so", "fd"), ("fe", 0, "gf", "fd"),
                        ("be", 1, "smap7.0", "code"), ("be", 1, "soa1.0", "fd"), ("gpu", 0, "gpf", "code"),
                        ("gpu", 0, "gdi", "noreply"), ("gpu", 0, "uds1", "code")]
        for ep, ack, tag, kind in fstress:
            stress.append(f"locks ep={ep} ack={ack} stress=8x{per} seed={rng.getrandbits(32):x} fault={tag}:{kind}")
        # focused stress: each public method against a reply-bearing partner from 8 threads (a method that
        # drops the guard between send and receive only misbehaves when another thread gets the lock in that gap)
        fper = 600 if thorough else 150
        for ep, ack, methods, partner in (("fe", 1, FE_METHODS, "gvb1"), ("be", 1, BE_METHODS, "sor9.1"),
                                          ("gpu", 0, GPU_METHODS, "ged9")):
            for m in methods:
                stress.append(f"locks ep={ep} ack={ack} stress=8x{fper} seed={rng.getrandbits(32):x} only={m},{partner}")
        # spread the stress lines over the chunks that check.py hands to parallel harness processes
        step = max(1, len(L) // (len(stress) + 1))
        for k, s in enumerate(stress):
            L.insert(min(len(L), (k + 1) * step + k), s)
        return L

    def distribution(self, lines, impl, dist):
        d = dist.setdefault("locks", {})
        for l in lines:
            t = dict(x.split("=", 1) for x in l.split()[1:] if "=" in x)
            kind = "stress" if "stress" in t else f"{len(t.get('calls', '').split(','))}-thread"
            if "fault" in t:
                kind += "+fault:" + t["fault"].split(":")[1]
            key = f"{t.get('ep')}/ack={t.get('ack')}/{kind}"
            e = d.setdefault(key, {"scenarios": 0, "window_exercised": 0, "lock_contended_by_2": 0})
            e["scenarios"] += 1
            obs = impl.get(l, "")
            if self.nontrivial(l, obs):
                e["window_exercised"] += 1
            if any(sn.split(":")[1].split("/")[0].count("b") >= 2 for sn in _snaps(obs) if ":" in sn):
                e["lock_contended_by_2"] += 1


def _snaps(obs):
    for tok in obs.split():
        if tok.startswith("snaps="):
            return tok[len("snaps="):].split(",")
    return []


FAMILIES = [LocksFamily()]
