"""C09 — every descriptor received is handed over exactly once or closed; none leak."""
from .srv import SrvFamily
from .fe import FeFamily
from .c18_extra import ProxyPeerMut, BeSrvMalformed   # C18 machinery: descriptors on the backend->frontend channel

PROPS_MODULES = ["C09", "C09Dispatch", "ConnLoops"]
RULE = ("family `srv` (malformed + well-formed modes): request histories with 0..40 fresh memfds attached at arbitrary positions (on "
        "requests that take none, with wrong counts, beyond the 32-descriptor limit, on garbage, in the middle of a message on the body segment `bf<n>`), files returned by value from handlers (GET_INFLIGHT_FD, GET_SHARED_OBJECT, … ids 900+), early close, teardown after the "
        "last step of every scenario; after dropping handler, endpoint and sockets the process's descriptor table is scanned "
        "(/proc/self/fd + fstat) for objects that travelled over the socket (`L=`); descriptors delivered to the recording handler "
        "are identified by (st_dev, st_ino). family `fe`: the frontend side — descriptors lent to API calls must still be open and "
        "refer to the same object after the call (`lc=`), reply descriptors (0..3, also on replies that define none) must not "
        "leak. non-trivial = distinct scenarios in which at least one descriptor travelled.")
ASSUMPTIONS = ["identity by (st_dev, st_ino) of fresh memfds", "descriptors that never travelled over a vhost-user socket (exit-event consumers of the workers) are not counted"]


class FdSrv(SrvFamily):
    def generate(self, tier, rng):
        L = super().generate(tier, rng)
        # every tenth scenario once more with descriptor number 0 free in the server process (`z0` on the first step that
        # carries descriptors): a received descriptor whose number is 0 is a descriptor like any other
        out = []
        for i, l in enumerate(L):
            if i % 10 == 0:
                steps = l.split(" | ")
                for k, st in enumerate(steps):
                    t = st.split()
                    if len(t) > 2 and t[0] == "m" and t[2].startswith("f") and t[2] != "f0":
                        steps[k] = st + " z0"
                        out.append(" | ".join(steps))
                        break
        return L + out

    def nontrivial(self, line, obs):
        return any(t.startswith("f") and t[1:].isdigit() and t != "f0" for t in line.split())


class FdFe(FeFamily):
    def nontrivial(self, line, obs):
        return "wf=-" not in obs or "/1" in line or "/2" in line or "/3" in line or ":1" in obs


FAMILIES = [FdSrv(modes=("bodyfds", "malformed", "wf"), quick=(800, 0, 3500), thorough=(10000, 0, 60000)),
            FdFe(modes=("srv", "mut"), quick=(1500, 0, 2500), thorough=(20000, 0, 40000)),
            BeSrvMalformed(), ProxyPeerMut()]
