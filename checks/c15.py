"""C15 — dirty-page logging records every backend write, precisely and atomically."""
import itertools
from .family import Family

PROPS_MODULES = ["C15", "BitmapOps", "HandlerOps"]
RULE = ("family `log`: a real VhostUserDaemon whose guest memory is GuestMemoryMmap<BitmapMmapRegion> is driven by an "
        "independent raw vhost-user peer: SET_MEM_TABLE / ADD_MEM_REG / REM_MEM_REG with 1..4 page-aligned memfd-backed "
        "regions whose pages share log bytes, SET_LOG_BASE on a shared memfd with every log size from too small to ample "
        "and mmap offsets 0/0x1000/0x2000 (the bytes before and after the window are guard bytes), interleaved in several "
        "history shapes; then writes through GuestMemory (write_slice, write_obj), the Bitmap interface directly "
        "(slice_at + mark_dirty with zero, huge and overflowing offsets/lengths) and vring.add_used on the daemon's own "
        "ring object, with offsets/lengths crossing 0, 1 and many page and region boundaries; 2..16 concurrent writer "
        "threads on the bits of one log byte, also while SET_LOG_BASE is re-sent (`cwl`). Observation = the newly set / cleared bits of the whole log file after each "
        "op; the Spec driver recomputes the touched pages (Spec.DirtyLog.pages) and demands exactly bit gpa/4096 (LSB "
        "first) of the window and nothing else; the model driver predicts the same bytes from Model.Bitmap. "
        "A refused request ends the daemon's connection thread; the harness reconnects to the same daemon and the history goes on (a refused SET_LOG_BASE must leave the accepted log in force). distinct = distinct scenario lines; non-trivial = scenarios in which a log was accepted and at least one write "
        "set a log bit.")
ASSUMPTIONS = ["vm-memory calls Bitmap::mark_dirty once per region chunk of a guest write (observed, not proved)",
               "virtio-queue add_used writes the 8-byte used element and the 2-byte used index (observed, not proved)",
               "regions are page-aligned (the property's domain; unaligned regions are recorded as F-C15-unaligned and not checked)",
               "a single fetch_or on one byte is atomic (Relaxed ordering suffices for a single location)"]

PG = 0x1000
HUGE = 2**64 - 1


def hx(v):
    return "%x" % v


class Layout:
    """page-aligned regions: list of (first page, number of pages)"""

    def __init__(self, regs):
        self.regs = regs

    def token(self, regs=None):
        regs = self.regs if regs is None else regs
        return ",".join(f"{hx(p * PG)}/{hx(n * PG)}" for p, n in regs)

    def need(self, regs=None):
        regs = self.regs if regs is None else regs
        return max((p + n - 1) // 8 for p, n in regs) + 1


def layouts(rng, count):
    out = [Layout([(5, 3), (8, 2)]), Layout([(0, 8)]), Layout([(8, 16)]), Layout([(3, 1), (4, 1), (5, 1), (6, 1)]),
           Layout([(7, 2), (9, 7), (16, 1)]), Layout([(1, 6), (9, 3)]), Layout([(0x7ff0, 9)]), Layout([(0x13, 5), (0x7ffc, 4)])]
    while len(out) < count:
        k = rng.randrange(1, 5)
        p = rng.choice([0, 1, 3, 5, 7, 8, 12, 15, 16, 30, 0x100, 0x7f3])
        regs = []
        for _ in range(k):
            n = rng.choice([1, 1, 2, 3, 5, 8, 9, 16, 23])
            regs.append((p, n))
            p += n + rng.choice([0, 0, 0, 1, 3, 8])
        out.append(Layout(regs))
    return out[:count]


def writes_for(regs, rng, many):
    """write-like ops for a table `regs` (list of (page, npages)); all inside guest memory unless marked"""
    ops = []
    for i, (p, n) in enumerate(regs):
        s, e = p * PG, (p + n) * PG
        adjacent = i + 1 < len(regs) and regs[i + 1][0] == p + n
        cands = [(s, 1), (s + PG - 1, 1), (e - 1, 1), (s + 5, 0), (s, PG), (s + 1, PG - 1), (s, n * PG), (s + 100, n * PG - 100)]
        if n > 1:
            cands += [(s + PG - 1, 2), (s, PG + 1), (s + 1, PG), (s + PG // 2, (n - 1) * PG)]
        if n > 2:
            cands += [(s + PG - 1, PG + 2), (s + 2 * PG - 1, 2)]
        if adjacent:
            n2 = regs[i + 1][1]
            cands += [(e - 1, 2), (e - PG, 2 * PG), (s, (n + n2) * PG), (e - 3, 8)]
        for g, l in (cands if many else rng.sample(cands, min(len(cands), 4))):
            ops.append(f"w:{hx(g)}:{hx(l)}")
        # write_obj at and across page boundaries
        objs = [(s, 8), (e - 8, 8), (s + PG - 1, 1)]
        if n > 1:
            objs += [(s + PG - 4, 8), (s + PG - 1, 2), (s + PG - 2, 4)]
        if adjacent:
            objs += [(e - 4, 8), (e - 1, 2)]
        for g, k in (objs if many else rng.sample(objs, min(len(objs), 2))):
            ops.append(f"wo:{hx(g)}:{hx(k)}")
        # Bitmap interface: slices, zero / huge / overflowing values, ranges leaving the region
        marks = [(0, 0, HUGE), (PG, PG - 1, 2), (HUGE, 0, 1), (HUGE, 1, 1), (2**63, 2**63, 5), (0, n * PG - 1, HUGE), (n * PG, 0, 1),
                 (0, 0, n * PG + 1), (0, 0, 0), (5, 7, 0), (PG - 1, 0, 1), (1, PG - 2, 1), (0, HUGE, HUGE), (HUGE - PG, PG - 1, 2),
                 (n * PG - 1, 0, 2), (0, (n - 1) * PG, PG), (PG // 2, PG // 2, 2**32)]
        for sl, off, ln in (marks if many else rng.sample(marks, 4)):
            ops.append(f"mk:{hx(s)}:{hx(sl)}:{hx(off)}:{hx(ln)}")
    return ops


def used_ring_ops(regs, rng):
    ops = []
    for p, n in regs:
        if n < 2:
            continue
        b = (p + 1) * PG  # a page boundary inside the region
        # used ring placed so that element `k % qsz` straddles / abuts the boundary
        for used, qsz, k in [(b - 8, 4, 0), (b - 8, 4, 5), (b - 4, 2, 0xffff), (b - 16, 4, 1), (b - 0x24, 4, 3), (b, 8, 0x102), (b - 2 * 4, 1, 7)]:
            if used < p * PG or used + 4 + 8 * qsz > (p + n) * PG:
                continue
            ops.append(f"au:{rng.randrange(2)}:{hx(used)}:{hx(qsz)}:{hx(k)}:{hx(rng.randrange(qsz))}:{hx(rng.choice([0, 1, 0x1000, 2**32 - 1]))}")
        break
    return ops


class LogFamily(Family):
    name = "log"
    timeout = 3000

    def __init__(self):
        super().__init__()
        self._variant = itertools.cycle([("mutex", "mutex"), ("rwlock", "rwlock"), ("rwlock", "mutex"), ("mutex", "rwlock")])

    def line(self, ops, init=0, fsz=0x3000):
        vr, lk = next(self._variant)
        # the log file always extends at least one guard page beyond every window the scenario maps (a window reaching
        # beyond the end of the file would be the front-end's fault and ends in SIGBUS)
        for o in ops:
            if o.startswith("lb:"):
                _, sz, off = o.split(":")
                fsz = max(fsz, int(off, 16) + (int(sz, 16) + PG - 1) // PG * PG + PG)
        return f"log vr={vr} lk={lk} fsz={hx(fsz)} init={hx(init)} " + " ".join(ops)

    def generate(self, tier, rng):
        thorough = tier == "thorough"
        L = []
        lays = layouts(rng, 60 if thorough else 22)
        offs = [0, 0x1000, 0x2000]

        def chunks(ops, k):
            return [ops[i:i + k] for i in range(0, len(ops), k)] or [[]]

        for li, lay in enumerate(lays):
            need = lay.need()
            many = thorough or li < 8
            wr = writes_for(lay.regs, rng, many) + used_ring_ops(lay.regs, rng)
            rng.shuffle(wr)
            # H1: table, log of every size from too small to ample, writes
            sizes = sorted(set(x for x in [1, need - 1, need, need + 1, need + 7, 0x1000] if 1 <= x <= 0x1000))
            if need <= 10:      # small layouts: every size from 1 to just above the need
                sizes = sorted(set(sizes) | set(range(1, need + 3)))
            for sz in sizes:
                off = offs[(li + sz) % 3]
                if sz < need:
                    L.append(self.line([f"mt:{lay.token()}", f"lb:{hx(sz)}:{hx(off)}", "w:%x:1" % (lay.regs[0][0] * PG)]))
                else:
                    for ch in chunks(wr, 6) if sz in (need, 0x1000) else chunks(wr, 6)[:2]:
                        L.append(self.line([f"mt:{lay.token()}", f"lb:{hx(sz)}:{hx(off)}"] + ch, init=rng.choice([0, 0, 0, 0, 0x5a, 0x81, 0xff])))
            # H7: writes before any log are not logged; then log; then the same writes are
            L.append(self.line([f"mt:{lay.token()}"] + wr[:5] + [f"lb:{hx(need)}:0"] + wr[:5]))
            # H2: log accepted on the empty table, table afterwards (retention)
            L.append(self.line([f"lb:{hx(need)}:{hx(offs[li % 3])}", f"mt:{lay.token()}"] + wr[:12]))
            L.append(self.line([f"lb:{hx(max(need - 1, 1))}:0", f"mt:{lay.token()}"] + wr[:3]))
            # H4: table replaced after the log was set
            other = lays[(li + 1) % len(lays)]
            sz = max(need, other.need())
            L.append(self.line([f"mt:{lay.token()}", f"lb:{hx(sz)}:{hx(offs[li % 3])}"] + wr[:3] + [f"mt:{other.token()}"]
                               + writes_for(other.regs, rng, False)[:10]))
            L.append(self.line([f"mt:{lay.token()}", f"lb:{hx(need)}:0", f"mt:{other.token()}"] + writes_for(other.regs, rng, False)[:4]))
            # H3/H5: regions added / removed after the log was set (covered and not covered)
            top = max(p + n for p, n in lay.regs)
            newp = top + rng.choice([0, 1, 5])
            newn = rng.choice([1, 2, 9])
            add_need = (newp + newn - 1) // 8 + 1
            newtok = f"{hx(newp * PG)}/{hx(newn * PG)}"
            wn = writes_for([(newp, newn)], rng, False)
            for sz in sorted(set([need, max(need, add_need), max(need, add_need) + 3])):
                ops = [f"mt:{lay.token()}", f"lb:{hx(sz)}:{hx(offs[(li + 1) % 3])}", f"add:{newtok}"] + wn[:6] + wr[:3]
                p0, n0 = lay.regs[0]
                ops += [f"rem:{hx(p0 * PG)}/{hx(n0 * PG)}"] + wn[6:9]
                if len(lay.regs) > 1:
                    # after the removal: ops on the remaining regions, plus plain writes into the removed one (they fail)
                    def addr(o):
                        f = o.split(":")
                        return int(f[2] if f[0] == "au" else f[1], 16)
                    rest = [o for o in wr if any(q * PG <= addr(o) < (q + m) * PG for q, m in lay.regs[1:])]
                    gone = [o for o in wr if o.startswith("w:") and p0 * PG <= addr(o) < (p0 + n0) * PG]
                    ops += rest[:3] + gone[:1]
                ops += [f"add:{hx(p0 * PG)}/{hx(n0 * PG)}"] + writes_for([(p0, n0)], rng, False)[:4]
                L.append(self.line(ops, init=rng.choice([0, 0x5a])))
            # H6: a second SET_LOG_BASE moves the window
            L.append(self.line([f"mt:{lay.token()}", f"lb:{hx(need)}:0"] + wr[:3] + [f"lb:{hx(need + 2)}:2000"] + wr[:6]))
            # H8: the window is replaced (moved and/or resized) and only then regions join: they are logged in the window in force
            big = max(need, add_need)
            for (s1, o1, s2, o2) in ((big, 0, big, 0x2000), (need, 0x1000, big + 1, 0), (big + 2, 0x2000, big, 0x1000)):
                L.append(self.line([f"mt:{lay.token()}", f"lb:{hx(s1)}:{hx(o1)}"] + wr[:2] + [f"lb:{hx(s2)}:{hx(o2)}", f"add:{newtok}"]
                                   + wn[:5] + wr[:2]))
                L.append(self.line([f"lb:{hx(s1)}:{hx(o1)}", f"lb:{hx(s2)}:{hx(o2)}", f"mt:{lay.token()}"] + wr[:4] + [f"add:{newtok}"] + wn[:4]))
            L.append(self.line([f"mt:{lay.token()}", f"lb:{hx(sz)}:0", f"lb:{hx(max(sz, other.need()))}:2000", f"mt:{other.token()}"]
                               + writes_for(other.regs, rng, False)[:6]))
            # H9: an accepted log, then a SET_LOG_BASE that is refused (covers the low regions but not the highest page): the
            # accepted log stays in force for every region, also for regions that join afterwards (the refusal ends the
            # connection; the harness reconnects to the same daemon)
            if len(lay.regs) > 1 and need > 1:
                low = max((lay.regs[0][0] + lay.regs[0][1] - 1) // 8 + 1, 1)
                small = min(low, need - 1)
                o1, o2 = offs[li % 3], offs[(li + 1) % 3]
                L.append(self.line([f"mt:{lay.token()}", f"lb:{hx(big)}:{hx(o1)}"] + wr[:2] + [f"lb:{hx(small)}:{hx(o2)}"] + wr[:6]
                                   + [f"add:{newtok}"] + wn[:4]))
                L.append(self.line([f"mt:{lay.token()}", f"lb:{hx(need)}:{hx(o1)}", f"lb:{hx(small)}:{hx(o2)}"] + wr[:8]))
                # … and a region that joins afterwards at a LOW address (one the refused log would have covered) is logged in the
                # accepted log, not in the refused one
                if lay.regs[0][0] >= 2:
                    L.append(self.line([f"mt:{lay.token()}", f"lb:{hx(need)}:{hx(o1)}", f"lb:{hx(small)}:{hx(o2)}", "add:0/1000", "w:0:1",
                                        "w:fff:1"] + wr[:3]))
                    L.append(self.line([f"mt:{lay.token()}", f"lb:{hx(need)}:{hx(o1)}"] + wr[:1] + [f"lb:{hx(small)}:{hx(o2)}", "add:1000/1000",
                                        "w:1000:1000", "w:1001:1"]))
                L.append(self.line([f"mt:{lay.token()}", f"lb:{hx(need)}:{hx(o1)}", "lb:0:0"] + wr[:4] + [f"lb:{hx(need)}:{hx(o2)}"] + wr[:4]))
        # concurrent writers on the bits of one byte (region of 16 pages starting at a multiple of 8)
        rounds = 10000 if thorough else 150
        for nt in ([2, 3, 4, 5, 7, 8, 9, 12, 16] if thorough else [2, 3, 8, 16]):
            for start in (8, 0x40):
                L.append(self.line([f"mt:{hx(start * PG)}/{hx(16 * PG)}", f"lb:{hx(0x40)}:1000",
                                    f"cw:{hx(nt)}:{hx(rounds)}:{hx(start * PG)}", f"cw:{hx(nt)}:{hx(rounds // 3)}:{hx((start + 8) * PG)}"]))
        # writers concurrent with a re-sent SET_LOG_BASE (same window / moved window): no write may miss its bit
        for nt in ([2, 4, 8, 16] if thorough else [4, 8]):
            for start in (8, 0x40):
                L.append(self.line([f"mt:{hx(start * PG)}/{hx(16 * PG)}", f"lb:{hx(0x40)}:1000",
                                    f"cwl:{hx(nt)}:{hx(400 if thorough else 60)}:{hx(start * PG)}:40:1000", "w:%x:1" % (start * PG)]))
                L.append(self.line([f"mt:{hx(start * PG)}/{hx(16 * PG)}", f"lb:{hx(0x40)}:0",
                                    f"cwl:{hx(nt)}:{hx(400 if thorough else 60)}:{hx((start + 8) * PG)}:40:2000"]))
        # log retention with concurrent writers in a region added later
        L.append(self.line(["mt:8000/8000", "lb:40:0", "add:10000/8000", f"cw:8:{hx(rounds // 3)}:10000"]))
        seen = set()
        return [l for l in L if not (l in seen or seen.add(l))]

    @staticmethod
    def ops_of(line):
        return [t for t in line.split()[1:] if "=" not in t]

    def shape(self, line, upto=None):
        kinds = [o.split(":")[0] for o in self.ops_of(line)]
        if upto is not None:
            kinds = kinds[:upto + 1]
        out = []
        for k in kinds:
            k = "w" if k in ("w", "wo", "mk", "au", "cw", "cwl") else k
            if not out or out[-1] != k:
                out.append(k)
        return ">".join(out)

    def nontrivial(self, line, obs):
        toks = obs.split()
        return "lb:ok" in toks and any("+" in t and not t.endswith("+-") for t in toks)

    def finding_key(self, line, obs, so):
        why = (so or "").replace("spec-fail ", "")
        # first op whose observation the Spec rejects is not reported by the driver; key by reason and history shape
        return f"{why}:{self.shape(line)}"

    def describe_spec_failure(self, line, obs, so):
        why = (so or "no verdict").replace("spec-fail ", "")
        return f"log {why}: shape {self.shape(line)}; scenario `{line[:400]}` observed `{obs[:400]}`"

    def distribution(self, lines, impl, dist):
        d = dist.setdefault("log", {"scenarios": 0, "ops": {}, "log_accepted": 0, "log_refused": 0, "table_change_after_log": 0,
                                    "table_change_refused": 0, "writes_setting_bits": 0, "writes_without_new_bits": 0,
                                    "shapes": {}})
        for l in lines:
            d["scenarios"] += 1
            ops = self.ops_of(l)
            for o in ops:
                k = o.split(":")[0]
                d["ops"][k] = d["ops"].get(k, 0) + 1
            sh = self.shape(l)
            d["shapes"][sh] = d["shapes"].get(sh, 0) + 1
            toks = impl.get(l, "").split()
            d["log_accepted"] += toks.count("lb:ok")
            d["log_refused"] += toks.count("lb:closed")
            seen_lb = False
            for o, t in zip(ops, toks):
                k = o.split(":")[0]
                if t == "lb:ok":
                    seen_lb = True
                elif k in ("mt", "add", "rem") and seen_lb:
                    d["table_change_after_log"] += 1
                    if not t.endswith(":ok"):
                        d["table_change_refused"] += 1
                elif k in ("w", "wo", "mk", "au", "cw") and "+" in t:
                    if t.endswith("+-"):
                        d["writes_without_new_bits"] += 1
                    else:
                        d["writes_setting_bits"] += 1


FAMILIES = [LogFamily()]
