"""Correspondence family `fe`: the real Frontend endpoint driven op by op (mode=srv: against the real request
server with the recording handler; mode=peer: against the raw peer with scripted, possibly mutated, replies)."""
from . import common as C
from . import vu
from .family import Family

ALLP = (1 << 22) - 1

QS = [0, 1, 2, 3, 0xff, 0x100, 0x101, 0x7fff, 0x8000]
A64 = [0, 1, 0x10, 0x1000, 0x7f0000000000, 2**32, 2**63, 2**64 - 0x1000, 2**64 - 1]


def h64(v):
    return f"{v:x}"


class Sess:
    """mirror of the state that decides which reply a scripted peer has to send"""

    def __init__(self, mq):
        self.mq, self.virtio, self.acked, self.ap, self.flags = mq, 0, 0, 0, 0

    def waits_ack(self):
        return bool(self.ap & 8) and bool(self.flags & 8)


def reply(code, body_hex, nfds=0, flags=5, size=None):
    size = len(body_hex) // 2 if size is None else size
    return f"{vu.hdr(code, flags, size)}{body_hex}/{nfds}"


def op_catalog(rng, s):
    """(op text, request code, kind, correct reply body hex, reply fds) for a random API call with lattice arguments"""
    q = rng.choice([0, 1, s.mq - 1 if s.mq else 0, s.mq, s.mq + 1, 0xff, 0x100])
    v = rng.choice(C.U64 + [rng.getrandbits(64)])
    ops = []
    a = ops.append
    a(("get_features", 1, "u64", vu.u64(v), 0))
    a((f"set_features {h64(v)}", 2, "ack", "", 0))
    a(("set_owner", 3, "ack", "", 0))
    a(("reset_owner", 4, "ack", "", 0))
    n = rng.choice([1, 1, 2, 3, 8, 32, 33, 0])
    regs = []
    for i in range(n):
        g, sz, u, o = vu.good_region(rng)
        if rng.random() < 0.05:
            sz = 0
        regs.append(f"{h64(g)},{h64(sz)},{h64(u)},{h64(o)}" + (",badfd" if rng.random() < 0.03 else ""))
    a(("set_mem_table " + (";".join(regs) if regs else "-"), 5, "ack", "", 0))
    a((f"set_log_base {h64(rng.choice(A64))} " + rng.choice(["-", f"{h64(rng.choice([1, 0x1000, 2**40]))},{h64(rng.choice([0, 0x1000]))}"]), 6, "log", "", 0))
    a(("set_log_fd", 7, "ack", "", 0))
    a((f"set_vring_num {h64(q)} {h64(rng.choice([0, 1, 0x100, 0xffff]))}", 8, "ack", "", 0))
    a((f"set_vring_addr {h64(q)} {h64(rng.choice([0, 1, 1, 2, 3, 0x80000000]))} {h64(rng.choice(A64))} {h64(rng.choice(A64))} "
       f"{h64(rng.choice(A64))} {rng.choice(['-', h64(rng.choice(A64))])}", 9, "ack", "", 0))
    a((f"set_vring_base {h64(q)} {h64(rng.choice([0, 1, 0xffff]))}", 10, "ack", "", 0))
    a((f"get_vring_base {h64(q)}", 11, "state", vu.vring_state(q, rng.choice([0, 1, 0xffff, 2**32 - 1])), 0))
    a((f"set_vring_call {h64(q)}", 13, "ack", "", 0))
    a((f"set_vring_kick {h64(q)}", 12, "ack", "", 0))
    a((f"set_vring_err {h64(q)}", 14, "ack", "", 0))
    a(("get_protocol_features", 15, "u64", vu.u64(rng.choice([ALLP, 8, 0, rng.getrandbits(22), 2**64 - 1])), 0))
    a((f"set_protocol_features {h64(rng.choice([ALLP, 8, 0, rng.getrandbits(22), ALLP & ~8]))}", 16, "ack", "", 0))
    a(("get_queue_num", 17, "u64", vu.u64(rng.choice([0, 1, 2, 0x101, 0x8000, 0x8001, 2**64 - 1])), 0))
    a(("reset_device", 34, "ack", "", 0))
    a((f"set_vring_enable {h64(q)} {rng.choice([0, 1])}", 18, "ack", "", 0))
    # (0xc, 0xff4): the largest window the API accepts (message body of exactly MAX_MSG_SIZE bytes, offset + size == 0x1000)
    off, sz = rng.choice([(o_, s_) for o_ in (0, 1, 0x100, 0xfff, 0x1000) for s_ in (0, 1, 8, 0x100, 0xff0, 0x1000)] + [(0xc, 0xff4), (0, 0xff4), (0xc, 0xff3)] * 4)
    fl = rng.choice([0, 1, 2, 3, 4])
    blen = rng.choice([sz, sz, sz, 0, 1, 8])
    a((f"get_config {h64(off)} {h64(sz)} {h64(fl)} {h64(blen)}", 24, "config",
       vu.config(off, sz, fl, bytes(rng.getrandbits(8) for _ in range(min(sz, 0x1000)))), 0))
    pl = bytes(rng.getrandbits(8) for _ in range(rng.choice([0, 1, 8, 0x100, 0xff4, 0xff5, 0x1001])))
    a((f"set_config {h64(off)} {h64(fl)} {pl.hex() or '-'}", 25, "ack", "", 0))
    a(("set_backend_req_fd", 21, "ack", "", 0))
    a((f"get_shared_object {rng.choice([0, 1, 2**127, 2**128 - 1, rng.getrandbits(128)]):x}", 41, "emptyfd", "", 1))
    inf = (rng.choice([0, 0x1000]), rng.choice([0, 0x2000]), rng.choice([0, 1, 0xffff]), rng.choice([0, 1, 0x100]))
    a((f"get_inflight_fd {h64(inf[0])} {h64(inf[1])} {h64(inf[2])} {h64(inf[3])}", 31, "inflight",
       vu.inflight(rng.choice([0, 0x4000]), inf[1], max(inf[2], 1), max(inf[3], 1)), 1))
    a((f"set_inflight_fd {h64(inf[0])} {h64(inf[1])} {h64(inf[2])} {h64(inf[3])}" + (" badfd" if rng.random() < 0.1 else ""), 32, "ack", "", 0))
    a(("get_max_mem_slots", 36, "u64", vu.u64(rng.choice([0, 1, 509, 2**64 - 1])), 0))
    g, sz2, u, o = vu.good_region(rng)
    if rng.random() < 0.1:
        sz2 = 0
    a((f"add_mem_region {h64(g)} {h64(sz2)} {h64(u)} {h64(o)}" + (" badfd" if rng.random() < 0.1 else ""), 37, "ack", "", 0))
    a((f"remove_mem_region {h64(g)} {h64(sz2)} {h64(u)} {h64(o)}", 38, "ack", "", 0))
    nreg = rng.choice([0, 1, 2, 256])
    a(("get_shmem_config", 44, "shmem", C.le(nreg, 4) + C.le(0, 4) + "".join(C.le(0x1000 * (i + 1) if i < nreg else 0, 8) for i in range(256)), 0))
    a((f"set_device_state_fd {rng.choice([0, 1])} 0", 42, "devstate", "", 0))
    a(("check_device_state", 43, "u64", vu.u64(rng.choice([0, 0, 1, 2**64 - 1])), 0))
    a(("postcopy_advise", 28, "emptyfd", "", 1))
    a(("postcopy_listen", 29, "ack", "", 0))
    a(("postcopy_end", 30, "ack", "", 0))
    return rng.choice(ops)


def hout_for(rng, kind, fail_p):
    ok = rng.random() >= fail_p
    s = "h=ok" if ok else ("h=fail" + rng.choice(["", "", "", "I", "P", "S", "F", "M", "X"]))
    s += f",v={rng.choice([0, 1, 0x100, 0xffff, 2**32 - 1, 2**63, 2**64 - 1, rng.getrandbits(64)]):x}"
    if kind == "config":
        s += ",b=%s" % rng.choice(["-", "00", "0102030405060708", "11" * 0x100, "22" * 0xff0, "33" * 0xff4, "33" * 0xff4, "44" * 0xff3])
    if kind == "shmem":
        s += ",b=%s" % rng.choice(["-", "0010000000000000", "0010000000000000" + "0000100000000000"])
    if kind == "devstate":
        s += ",f=%d" % rng.choice([0, 1])
    return s


def mutate_reply(rng, code, body, nfds):
    """one-field mutation of a correct reply"""
    flags, size = 5, None
    b = bytearray(bytes.fromhex(body))
    m = rng.choice(["code", "reply", "flagbit", "version", "size", "body", "fds", "trunc", "extend", "random", "cut", "cut"])
    if m == "cut":
        # the stream ends inside the (otherwise correct) reply: a prefix of header+body, the size field untouched
        full = reply(code, body, nfds).split("/")[0]
        k = rng.randrange(0, len(full) // 2)
        return (full[:2 * k] or "-") + f"/{nfds if k > 0 else 0}", m
    if m == "code":
        code = rng.choice([c for c in [1, 2, 11, 15, 17, 24, 31, 36, 41, 43, 44, 0, 45, 2**32 - 1] if c != code])
    elif m == "reply":
        flags = 1
    elif m == "flagbit":
        flags = 5 ^ (1 << rng.choice([3, 4, 5, 16, 31]))
    elif m == "version":
        flags = rng.choice([4, 6, 7])
    elif m == "size":
        size = rng.choice([0, 1, len(b) + 1, len(b) - 1 if b else 3, 0x1000, 0x1001, 2**32 - 1])
    elif m == "body" and b:
        k = rng.randrange(len(b))
        b[k] = (b[k] + rng.choice([1, 0x80, 0xff])) & 0xff
    elif m == "fds":
        nfds = rng.choice([x for x in [0, 1, 2, 3] if x != nfds])
    elif m == "trunc" and b:
        b = b[:rng.randrange(len(b))]
    elif m == "extend":
        b = b + bytes(rng.getrandbits(8) for _ in range(rng.choice([1, 8, 12])))
    elif m == "random":
        rb = bytes(rng.getrandbits(8) for _ in range(rng.choice([0, 1, 11, 12, 13, 20, 40])))
        return (rb.hex() or "00") + f"/{rng.choice([0, 0, 1])}", m
    return reply(code, b.hex(), nfds, flags, size), m


class FeFamily(Family):
    name = "fe"

    def __init__(self, modes=("srv", "peer", "mut"), quick=(2500, 1200, 2500), thorough=(50000, 20000, 60000)):
        super().__init__()
        self.modes = modes
        self.sizes = {"quick": dict(zip(("srv", "peer", "mut"), quick)), "thorough": dict(zip(("srv", "peer", "mut"), thorough))}

    def prefix(self, rng, s, srv):
        """negotiation prefix; returns op texts (with h=/r= attached)"""
        kind = rng.choice([0, 1, 2, 2, 2, 3, 4])
        ops = []
        if kind == 0:
            return ops
        virt = vu.F_PROTOCOL_FEATURES | rng.choice([0, 1])
        if kind == 4:
            virt = rng.choice([0, 1])
        ops.append(("get_features", f"h=ok,v={virt:x}", reply(1, vu.u64(virt))))
        s.virtio = virt
        ops.append((f"set_features {virt:x}", "h=ok", "-"))
        s.acked = virt
        if kind >= 2:
            pm = {2: ALLP, 3: rng.getrandbits(22), 4: ALLP}[kind]
            ops.append(("get_protocol_features", f"h=ok,v={ALLP:x}", reply(15, vu.u64(ALLP))))
            ops.append((f"set_protocol_features {pm:x}", "h=ok", "-"))
            if virt & vu.F_PROTOCOL_FEATURES:
                s.ap = pm
        r_ = rng.random()
        if r_ < 0.5:
            # NEED_REPLY, sometimes together with the VERSION constant of the flag type (must not change the wire version)
            v_ = 8 if r_ < 0.4 else rng.choice([0xb, 0x9, 0xa])
            ops.append((f"set_hdr_flags {v_:x}", "", ""))
            s.flags = 8
        elif r_ < 0.56:
            ops.append((f"set_hdr_flags {rng.choice([3, 1, 2]):x}", "", ""))
        return [f"{o} {h if srv else ('r=' + r if r else '')}".strip() for o, h, r in ops]

    def gen_srv(self, rng, n):
        out = []
        while len(out) < n:
            mq = rng.choice([0, 1, 2, 2, 0x100, 0x101, 0x8000])
            s = Sess(mq)
            ops = self.prefix(rng, s, True)
            k = rng.randint(1, 6)
            for i in range(k):
                text, code, kind, body, nf = op_catalog(rng, s)
                # at most the last operation fails (a failing request closes the connection, as the daemon does)
                fail_p = 0.5 if i == k - 1 else 0.0
                ops.append(f"{text} {hout_for(rng, kind, fail_p)}")
            out.append(f"fe mq={mq:x} mode=srv | " + " | ".join(ops))
        return out

    def gen_peer(self, rng, n, mutate):
        out = []
        while len(out) < n:
            mq = rng.choice([1, 2, 2, 0x100, 0x101])
            s = Sess(mq)
            ops = self.prefix(rng, s, False)
            k = rng.randint(1, 4)
            for i in range(k):
                text, code, kind, body, nf = op_catalog(rng, s)
                if kind == "ack":
                    r = reply(code, vu.u64(rng.choice([0, 0, 0, 1, 2**64 - 1]))) if (s.waits_ack() or rng.random() < 0.05) else "-"
                    if text.startswith("set_protocol_features") and (s.virtio & vu.F_PROTOCOL_FEATURES):
                        newap = int(text.split()[1], 16)
                        r = reply(code, vu.u64(0)) if (newap & 8 and s.flags & 8) else "-"
                        s.ap = newap
                elif kind == "log":
                    parts = text.split()
                    r = reply(code, vu.log(*[int(x, 16) for x in parts[2].split(",")])) if (parts[2] != "-" and s.ap & 2) else "-"
                elif kind == "devstate":
                    r = rng.choice([reply(code, vu.u64(0), 1), reply(code, vu.u64(0x100), 0), reply(code, vu.u64(0x101), 0),
                                    reply(code, vu.u64(0), 0), reply(code, vu.u64(0x100), 1)])
                else:
                    r = reply(code, body, nf)
                tag = ""
                if mutate and r != "-" and i == k - 1:
                    r, tag = mutate_reply(rng, code, r.split("/")[0][24:], int(r.split("/")[1]))
                if not mutate and rng.random() < 0.05:
                    r = "close"
                ops.append(f"{text} r={r}" + (" then-close" if (mutate and i == k - 1 and r not in ("-", "close")) else ""))
                if text == "get_features" and r not in ("-", "close"):
                    s.virtio = int.from_bytes(bytes.fromhex(body[:16]), "little")
            out.append(f"fe mq={mq:x} mode=peer | " + " | ".join(ops))
        return out

    def gen_cut(self, rng):
        """C08, receiver side of the frontend: every reply-bearing operation answered with the correct reply cut at EVERY byte
        offset (the size field says the full length), then the peer closes: an error, never success, never a wait"""
        out = []
        ops = {"get_features": (1, vu.u64(0x140000000), 0), "get_protocol_features": (15, vu.u64(0x3fffff), 0),
               "get_queue_num": (17, vu.u64(2), 0), "get_vring_base 0": (11, C.le(0, 4) + C.le(7, 4), 0),
               "get_config 0 8 0 8": (24, vu.config(0, 8, 0, bytes(range(1, 9))), 0),
               "get_config 10 20 0 20": (24, vu.config(0x10, 0x20, 0, bytes(range(0x20))), 0),
               "get_config c ff4 0 ff4": (24, vu.config(0xc, 0xff4, 0, bytes(range(256)) * 15 + bytes(244)), 0),
               "get_inflight_fd 1000 0 1 100": (31, vu.inflight(0x1000, 0, 1, 0x100), 1), "get_max_mem_slots": (36, vu.u64(8), 0),
               "check_device_state": (43, vu.u64(0), 0), "set_device_state_fd 0 0": (42, vu.u64(0x100), 0),
               "set_owner": (3, vu.u64(0), 0), "set_vring_num 0 100": (8, vu.u64(0), 0)}
        pre = [f"get_features r={reply(1, vu.u64(vu.F_PROTOCOL_FEATURES))}", f"set_features {vu.F_PROTOCOL_FEATURES:x} r=-",
               f"get_protocol_features r={reply(15, vu.u64(ALLP))}", f"set_protocol_features {ALLP:x} r=-", "set_hdr_flags 8"]
        for text, (code, body, nf) in ops.items():
            full = reply(code, body, nf).split("/")[0]
            n = len(full) // 2
            cuts = range(0, n) if n <= 48 else list(range(0, 40)) + [n // 2, n - 9, n - 2, n - 1]
            for k in cuts:
                r = (full[:2 * k] + f"/{nf if k > 0 else 0}") if k > 0 else "close"
                out.append("fe mq=2 mode=peer | " + " | ".join(pre + [f"{text} r={r}" + (" then-close" if k > 0 else "")]))
        return out

    def gen_gate(self, rng):
        """frontend gates, systematically: every gated API call with exactly its bit missing / only its bit / none / all
        acknowledged, VHOST_USER_F_PROTOCOL_FEATURES offered or not and acknowledged or not (peer mode: a refused call must
        leave the wire untouched)"""
        gated = {"get_queue_num": (0, "get_queue_num", 17, vu.u64(2)), "get_config 0 8 0 8": (9, None, 24, vu.config(0, 8, 0, bytes(8))),
                 "set_config 0 0 0102": (9, None, 25, ""), "set_backend_req_fd": (5, None, 21, ""),
                 "get_inflight_fd 1000 0 1 100": (12, None, 31, vu.inflight(0x1000, 0, 1, 0x100)),
                 "set_inflight_fd 1000 0 1 100": (12, None, 32, ""), "get_max_mem_slots": (15, None, 36, vu.u64(8)),
                 "add_mem_region 1000 1000 7f0000 0": (15, None, 37, ""), "remove_mem_region 1000 1000 7f0000 0": (15, None, 38, ""),
                 "reset_device": (13, None, 34, ""), "get_shared_object 1234": (18, None, 41, ""),
                 "get_shmem_config": (21, None, 44, C.le(0, 4) + C.le(0, 4) + "00" * 2048),
                 "set_device_state_fd 0 0": (19, None, 42, vu.u64(0x100)), "check_device_state": (19, None, 43, vu.u64(0)),
                 "postcopy_advise": (8, None, 28, ""), "postcopy_listen": (8, None, 29, ""), "postcopy_end": (8, None, 30, "")}
        bits = sorted(set(v[0] for v in gated.values()) | {3})
        full = sum(1 << b for b in bits)
        out = []
        for text, (bit, _, code, body) in gated.items():
            nf = 1 if code in (31, 41, 28) else 0
            for pm in (full & ~(1 << bit), 1 << bit, 0, full):
                r = reply(code, body, nf) if body or code in (41, 28) else "-"
                ops = [f"get_features r={reply(1, vu.u64(vu.F_PROTOCOL_FEATURES))}", f"set_features {vu.F_PROTOCOL_FEATURES:x} r=-",
                       f"get_protocol_features r={reply(15, vu.u64(ALLP))}", f"set_protocol_features {pm:x} r=-", f"{text} r={r} then-close"]
                out.append("fe mq=2 mode=peer | " + " | ".join(ops))
        # the protocol-feature exchange and ring enable depend on VHOST_USER_F_PROTOCOL_FEATURES being offered resp. acknowledged
        for offered in (vu.F_PROTOCOL_FEATURES, 0, vu.F_PROTOCOL_FEATURES | 1, 1):
            for acked in (vu.F_PROTOCOL_FEATURES, 0, vu.F_PROTOCOL_FEATURES | 1, 1):
                pre = [f"get_features r={reply(1, vu.u64(offered))}", f"set_features {acked:x} r=-"]
                for last in (f"set_vring_enable 1 1 r=-", f"set_vring_enable 0 0 r=-", f"get_protocol_features r={reply(15, vu.u64(ALLP))}",
                             f"set_protocol_features {ALLP:x} r=-"):
                    out.append("fe mq=2 mode=peer | " + " | ".join(pre + [last]))
        # before any negotiation
        for text in list(gated) + ["set_vring_enable 0 1", "get_protocol_features", f"set_protocol_features {ALLP:x}"]:
            out.append(f"fe mq=2 mode=peer | {text} r=-")
        return out

    def generate(self, tier, rng):
        sz = self.sizes[tier]
        L = []
        if "gate" in self.modes:
            L += self.gen_gate(rng)
        if "cut" in self.modes:
            L += self.gen_cut(rng)
        if "srv" in self.modes:
            L += self.gen_srv(rng, sz["srv"])
        if "peer" in self.modes:
            L += self.gen_peer(rng, sz["peer"], False)
        if "mut" in self.modes:
            L += self.gen_peer(rng, sz["mut"], True)
        return L

    def distribution(self, lines, impl, dist):
        d = dist.setdefault("fe", {"scenarios": 0, "ops": 0, "ret": {}, "ops_by_name": {}})
        for l in lines:
            d["scenarios"] += 1
            ops = [x.strip().split()[0] for x in l.split("|")[1:]]
            obs = impl.get(l, "").split(" | ")
            for nm, o in zip(ops, obs):
                d["ops"] += 1
                r = o.split()[0][4:].split(":")[0] if o.startswith("ret=") else "?"
                d["ret"][r] = d["ret"].get(r, 0) + 1
                e = d["ops_by_name"].setdefault(nm, {"n": 0, "ok": 0})
                e["n"] += 1
                if r == "ok":
                    e["ok"] += 1

    @staticmethod
    def steps(obs):
        return [p.strip() for p in obs.split(" | ") if p.strip().startswith("ret=")]

    def nontrivial(self, line, obs):
        """at least one call reached the handler / the wire, or was refused"""
        return any(" c=-" not in p and " c=" in p or " w=-" not in p and " w=" in p or p.startswith("ret=err.") for p in self.steps(obs))

    def finding_key(self, line, obs, so):
        return "fe:" + (so.split()[1] if so and so.startswith("spec-fail") and len(so.split()) > 1 else "?")
