//! Correspondence harness: runs the real rust-vmm/vhost crates on scenario lines (stdin) and
//! prints one canonical observation line per scenario (stdout).  One sub-command per family.

mod util;
mod rawsock;
mod rec;
mod fam_valid;
mod fam_srv;
mod fam_fe;
mod fam_send;
mod fam_locks;
mod fam_kern;
mod fam_mem;
mod fam_vq;
mod rec_fe;
mod fam_proxy;
mod fam_besrv;
mod fam_gpu;
mod fam_ring;
mod fam_worker;
mod fam_shutdown;
mod peer;
mod daemon;
mod fam_route;
mod fam_log;

use std::io::{self, BufRead, Write};

fn main() {
    let args: Vec<String> = std::env::args().collect();
    if args.len() < 2 {
        eprintln!("usage: vharness <family>   (scenario lines on stdin)");
        std::process::exit(2);
    }
    let fam: String = args[1].clone();
    let stdin = io::stdin();
    let stdout = io::stdout();
    let mut out = io::BufWriter::new(stdout.lock());
    // silence panic messages: a panic is reported on the observation line instead
    std::panic::set_hook(Box::new(|_| {}));
    // A scenario that does not come back (a deadlocked worker or caller that even teardown cannot join) must not take the
    // whole run down: every line runs on its own thread under a watchdog; on expiry the line is reported as `HANG` and the
    // remaining lines are handed to a fresh process (the hung threads and any global controller state stay behind).
    let limit = std::time::Duration::from_secs(
        std::env::var("VHARNESS_LINE_TIMEOUT_S").ok().and_then(|v| v.parse().ok()).unwrap_or(120),
    );
    let lines: Vec<String> = stdin.lock().lines().map(|l| l.unwrap()).collect();
    // after three hangs in one run the rest is not attempted any more (each hang costs the whole watchdog)
    let hangs: u32 = std::env::var("VHARNESS_HANGS").ok().and_then(|v| v.parse().ok()).unwrap_or(0);
    for (idx, line) in lines.iter().enumerate() {
        let line = line.trim();
        if line.is_empty() || line.starts_with('#') {
            continue;
        }
        if hangs >= 3 {
            writeln!(out, "{} => SKIPPED-AFTER-HANGS", line).unwrap();
            continue;
        }
        let l2 = line.to_string();
        let f2 = fam.clone();
        let (tx, rx) = std::sync::mpsc::channel();
        std::thread::spawn(move || {
            let res = std::panic::catch_unwind(move || match fam_dispatch(&f2, &l2) {
                Some(r) => r,
                None => "bad-family".to_string(),
            });
            let obs = match res {
                Ok(s) => s,
                Err(e) => {
                    let msg = if let Some(s) = e.downcast_ref::<String>() {
                        s.clone()
                    } else if let Some(s) = e.downcast_ref::<&str>() {
                        s.to_string()
                    } else {
                        "?".to_string()
                    };
                    format!("PANIC {}", msg.replace('\n', " "))
                }
            };
            let _ = tx.send(obs);
        });
        match rx.recv_timeout(limit) {
            Ok(obs) => writeln!(out, "{} => {}", line, obs).unwrap(),
            Err(_) => {
                writeln!(out, "{} => HANG", line).unwrap();
                out.flush().unwrap();
                drop(out);
                let rest: String = lines[idx + 1..].iter().map(|l| format!("{}\n", l)).collect();
                let exe = std::env::current_exe().expect("current_exe");
                let mut child = std::process::Command::new(exe)
                    .arg(&fam)
                    .env("VHARNESS_HANGS", (hangs + 1).to_string())
                    .stdin(std::process::Stdio::piped())
                    .spawn()
                    .expect("respawn");
                {
                    use std::io::Write as _;
                    let mut cin = child.stdin.take().unwrap();
                    let _ = cin.write_all(rest.as_bytes());
                }
                let st = child.wait().map(|s| s.code().unwrap_or(1)).unwrap_or(1);
                std::process::exit(st);
            }
        }
    }
    out.flush().unwrap();
}

fn fam_dispatch(fam: &str, line: &str) -> Option<String> {
    match fam {
        "valid" => Some(fam_valid::run(line)),
        "srv" => Some(fam_srv::run(line)),
        "fe" => Some(fam_fe::run(line)),
        "send" => Some(fam_send::run(line)),
        "locks" => Some(fam_locks::run(line)),
        "route" => Some(fam_route::run(line)),
        "log" => Some(fam_log::run(line)),
        "kern" => Some(fam_kern::run(line)),
        "mem" => Some(fam_mem::run(line)),
        "vq" => Some(fam_vq::run(line)),
        "proxy" => Some(fam_proxy::run(line)),
        "besrv" => Some(fam_besrv::run(line)),
        "gpu" => Some(fam_gpu::run(line)),
        "ring" => Some(fam_ring::run(line)),
        "worker" => Some(fam_worker::run(line)),
        "shutdown" => Some(fam_shutdown::run(line)),
        _ => None,
    }
}
