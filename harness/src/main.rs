//! Correspondence harness: runs the real rust-vmm/vhost crates on scenario lines (stdin) and
//! prints one canonical observation line per scenario (stdout).  One sub-command per family.

mod util;
mod rawsock;
mod rec;
mod fam_valid;
mod fam_srv;
mod fam_fe;
mod fam_send;
mod fam_locks;
mod fam_kern;
mod fam_mem;
mod fam_vq;
mod rec_fe;
mod fam_proxy;
mod fam_besrv;
mod fam_gpu;
mod fam_ring;
mod fam_worker;
mod fam_shutdown;
mod peer;
mod daemon;
mod fam_route;
mod fam_log;

use std::io::{self, BufRead, Write};

fn main() {
    let args: Vec<String> = std::env::args().collect();
    if args.len() < 2 {
        eprintln!("usage: vharness <family>   (scenario lines on stdin)");
        std::process::exit(2);
    }
    let fam: String = args[1].clone();
    let stdin = io::stdin();
    let stdout = io::stdout();
    let mut out = io::BufWriter::new(stdout.lock());
    // silence panic messages: a panic is reported on the observation line instead
    std::panic::set_hook(Box::new(|_| {}));
    for line in stdin.lock().lines() {
        let line = line.unwrap();
        let line = line.trim();
        if line.is_empty() || line.starts_with('#') {
            continue;
        }
        let l2 = line.to_string();
        let f2 = fam.clone();
        let res = std::panic::catch_unwind(move || match fam_dispatch(&f2, &l2) {
            Some(r) => r,
            None => "bad-family".to_string(),
        });
        let obs = match res {
            Ok(s) => s,
            Err(e) => {
                let msg = if let Some(s) = e.downcast_ref::<String>() {
                    s.clone()
                } else if let Some(s) = e.downcast_ref::<&str>() {
                    s.to_string()
                } else {
                    "?".to_string()
                };
                format!("PANIC {}", msg.replace('\n', " "))
            }
        };
        writeln!(out, "{} => {}", line, obs).unwrap();
    }
    out.flush().unwrap();
}

fn fam_dispatch(fam: &str, line: &str) -> Option<String> {
    match fam {
        "valid" => Some(fam_valid::run(line)),
        "srv" => Some(fam_srv::run(line)),
        "fe" => Some(fam_fe::run(line)),
        "send" => Some(fam_send::run(line)),
        "locks" => Some(fam_locks::run(line)),
        "route" => Some(fam_route::run(line)),
        "log" => Some(fam_log::run(line)),
        "kern" => Some(fam_kern::run(line)),
        "mem" => Some(fam_mem::run(line)),
        "vq" => Some(fam_vq::run(line)),
        "proxy" => Some(fam_proxy::run(line)),
        "besrv" => Some(fam_besrv::run(line)),
        "gpu" => Some(fam_gpu::run(line)),
        "ring" => Some(fam_ring::run(line)),
        "worker" => Some(fam_worker::run(line)),
        "shutdown" => Some(fam_shutdown::run(line)),
        _ => None,
    }
}
