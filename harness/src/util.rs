#![allow(dead_code)]
pub fn hex_to_bytes(s: &str) -> Vec<u8> {
    let s = s.trim();
    if s == "-" {
        return vec![];
    }
    assert!(s.len() % 2 == 0, "odd hex length");
    (0..s.len() / 2)
        .map(|i| u8::from_str_radix(&s[2 * i..2 * i + 2], 16).expect("bad hex"))
        .collect()
}

pub fn bytes_to_hex(b: &[u8]) -> String {
    if b.is_empty() {
        return "-".to_string();
    }
    let mut s = String::with_capacity(b.len() * 2);
    for x in b {
        s.push_str(&format!("{:02x}", x));
    }
    s
}

pub fn parse_hex_u64(s: &str) -> u64 {
    u64::from_str_radix(s, 16).expect("bad hex u64")
}

/// `key=value` lookup in a token list.
pub fn kv<'a>(toks: &'a [&'a str], key: &str) -> Option<&'a str> {
    for t in toks {
        if let Some(rest) = t.strip_prefix(key) {
            if let Some(v) = rest.strip_prefix('=') {
                return Some(v);
            }
        }
    }
    None
}
