//! family `vq` (C14): ring configuration, feature negotiation and ring operations of a real daemon.
//!
//! scenario: `vq vr=mutex|rwlock lk=mutex|rwlock nq=<n> max=<max_queue_size> off=<offered features> poff=<offered
//!            protocol features> files=<spec,..> <op> ...`   (numbers hex; file specs as in family `mem`)
//!   ops (one token each):
//!   `num:<index>:<num>`  SET_VRING_NUM          `base:<index>:<num>`  SET_VRING_BASE       `gb:<index>`  GET_VRING_BASE
//!   `addr:<index>:<desc>/<avail>/<used>`  SET_VRING_ADDR with three front-end virtual addresses
//!   `kick|call|err:<payload>:<0|1>`       SET_VRING_KICK/CALL/ERR with the raw u64 payload; 1 = a fresh eventfd is attached
//!                                         (eventfds are numbered 0,1,.. in the order the scenario creates them)
//!   `en:<index>:<0|1>`   SET_VRING_ENABLE       `feat:<mask>`  SET_FEATURES       `pfeat:<mask>`  SET_PROTOCOL_FEATURES
//!   `breq`               SET_BACKEND_REQ_FD with one end of a socket pair; then `shared_object_add` and `shmem_map` are
//!                        issued through the `Backend` the backend was handed and the other end is read
//!   `mt:..` `add:..` `rem:..`  memory table updates (syntax of family `mem`)
//!   `ui:<file>/<off>:<val>`  the front-end stores the 16-bit value (little endian) into the file (used-index contents)
//!   `use:<ring>:<head>:<len>`  inside the backend's `handle_event`: `vrings[ring].add_used(head, len)` and
//!                        `vrings[ring].signal_used_queue()`
//! observation: one token per op: `<op>:<ok|rej>[:detail]|<sample>` where
//!   detail: `gb` → `<index>.<num>` of the reply; `feat`/`mt`/`add`/`rem`/`breq` → backend callbacks during the op
//!           (`E<0|1>` set_event_idx, `A<mask>` acked_features, `U` update_memory, `B` set_backend_req_fd; `-` = none);
//!           `breq` additionally `:so<0|1>sm<0|1>ra<0|1|?>` (did shared_object_add / shmem_map go out, did the requests
//!           carry NEED_REPLY);
//!           `use` → `<a|A><s|S>` (add_used / signal result, capital = Err), `:cells=<file>@<off>=<byte>,..` every
//!           file byte that changed, `:ctr=<eventfd>+<n>,..` every call eventfd whose counter is non-zero (read and reset)
//!   sample: queue accessors of every ring read inside `handle_event`
//!           `s<size>.r<ready>.a<next_avail>.u<next_used>.d<desc>.v<avail>.w<used>.e<event_idx>.n<enabled>` joined by `;`,
//!           or `=` when nothing changed since the previous sample.
//! A refused request ends the connection; the harness reconnects to the same daemon and restores the per-connection
//! negotiation state of the request server (GET_FEATURES, last SET_PROTOCOL_FEATURES value, last accepted SET_FEATURES
//! value) before the next op; callbacks caused by that are not attributed to any op.
use std::os::fd::{AsRawFd, OwnedFd, RawFd};
use std::os::unix::net::UnixStream;
use std::time::Duration;

use vhost::vhost_user::message::{VhostUserMMap, VhostUserSharedMsg};
use vhost::vhost_user::VhostUserFrontendReqHandler;
use vhost_user_backend::{VringMutex, VringRwLock, VringT};
use vm_memory::{GuestMemoryAtomic, GuestMemoryMmap};

use crate::daemon::{self, Bench, Config, Ev, LockKind, RingFull, GM};
use crate::fam_mem::{parse_region, ScFile};
use crate::peer::{self, codes, hflags, Ack, Hdr, PeerErr, RawPeer, Region};
use crate::util::*;

fn fmt_sample(rs: &[RingFull]) -> String {
    rs.iter()
        .map(|r| {
            format!(
                "s{:x}.r{}.a{:x}.u{:x}.d{:x}.v{:x}.w{:x}.e{}.n{}",
                r.size, r.ready as u8, r.next_avail, r.next_used, r.desc_table, r.avail_ring, r.used_ring, r.event_idx as u8, r.enabled as u8
            )
        })
        .collect::<Vec<_>>()
        .join(";")
}

fn fmt_log(evs: &[Ev]) -> String {
    let v: Vec<String> = evs
        .iter()
        .filter_map(|e| match e {
            Ev::SetEventIdx(b) => Some(format!("E{}", *b as u8)),
            Ev::AckedFeatures(f) => Some(format!("A{:x}", f)),
            Ev::UpdateMemory { .. } => Some("U".to_string()),
            Ev::SetBackendReqFd => Some("B".to_string()),
            _ => None,
        })
        .collect();
    if v.is_empty() {
        "-".into()
    } else {
        v.join(",")
    }
}

struct Conn {
    last_proto: Option<u64>,
    last_feat: Option<u64>,
    offered_has_pf: bool,
}

impl Conn {
    fn reply_ack(&self) -> bool {
        self.offered_has_pf && self.last_proto.map_or(false, |p| p & 8 != 0)
    }
}

/// a "set" style request; true = the daemon handled it successfully
fn do_set(p: &mut RawPeer, c: &Conn, code: u32, body: &[u8], fds: &[RawFd]) -> bool {
    p.reply_ack = c.reply_ack();
    if p.reply_ack {
        p.set(code, body, fds) == Ack::Ok
    } else {
        if p.send_req(code, 0, body, fds).is_err() {
            return false;
        }
        // no acknowledgement negotiated: a following request is answered only if the connection survived
        p.get_u64(codes::GET_FEATURES).is_ok()
    }
}

fn restore(p: &mut RawPeer, c: &Conn) -> bool {
    if p.get_u64(codes::GET_FEATURES).is_err() {
        return false;
    }
    if let Some(pf) = c.last_proto {
        if p.send_req(codes::SET_PROTOCOL_FEATURES, 0, &peer::b_u64(pf), &[]).is_err() {
            return false;
        }
    }
    if let Some(f) = c.last_feat {
        if p.send_req(codes::SET_FEATURES, 0, &peer::b_u64(f), &[]).is_err() {
            return false;
        }
    }
    p.get_u64(codes::GET_FEATURES).is_ok()
}

/// read what arrives on our end of the backend-request channel while `done()` is false; acknowledge when asked to
fn serve_backend_channel(sock: &UnixStream, done: &dyn Fn() -> bool) -> Vec<(u32, bool)> {
    let p = RawPeer::new(sock.try_clone().expect("clone"));
    p.set_timeout_ms(40);
    let mut seen = Vec::new();
    let mut idle_after_done = 0;
    loop {
        match p.recv_reply() {
            Ok((h, _body, _fds)) => {
                let need = h.flags & hflags::NEED_REPLY != 0;
                seen.push((h.request, need));
                if need {
                    let r = Hdr { request: h.request, flags: hflags::VERSION | hflags::REPLY, size: 8 };
                    let mut m = r.encode().to_vec();
                    m.extend_from_slice(&0u64.to_le_bytes());
                    let _ = p.send_all(&m, &[]);
                }
            }
            Err(PeerErr::Timeout) => {
                if done() {
                    idle_after_done += 1;
                    if idle_after_done >= 2 {
                        break;
                    }
                }
            }
            Err(_) => break,
        }
        if seen.len() > 8 {
            break;
        }
    }
    seen
}

fn run_generic<V>(lk: LockKind, nq: usize, max: usize, off: u64, poff: u64, fspecs: &[&str], ops: &[&str]) -> String
where
    V: VringT<GM<()>> + Clone + Send + Sync + 'static,
{
    let cfg = Config {
        num_queues: nq,
        max_queue_size: max,
        features: off,
        protocol_features: poff,
        queues_per_thread: vec![u64::MAX],
        exit_events: true,
        lock: lk,
        update_memory_fails: false,
    };
    let mem: GM<()> = GuestMemoryAtomic::new(GuestMemoryMmap::<()>::new());
    let mut b: Bench<V, ()> = daemon::start(cfg, mem);
    b.watchdog = Duration::from_millis(2000);
    if b.peer.send_req(codes::SET_OWNER, 0, &[], &[]).is_err() || b.peer.get_u64(codes::GET_FEATURES).is_err() {
        return "setup-failed:owner".into();
    }
    let mut conn = Conn { last_proto: None, last_feat: None, offered_has_pf: off & (1 << peer::vfeat::PROTOCOL_FEATURES) != 0 };
    let mut files: Vec<ScFile> = fspecs.iter().filter(|s| !s.is_empty() && **s != "-").enumerate().map(|(i, s)| ScFile::parse(s, i)).collect();
    for (i, f) in files.iter_mut().enumerate() {
        f.fill(i, &[]);
    }
    // eventfds created by the scenario, in order; `true` = installed through SET_VRING_CALL at least once
    let mut efds: Vec<(OwnedFd, bool)> = Vec::new();
    let mut chan: Vec<UnixStream> = Vec::new();
    let mut prev_sample = String::new();
    let mut dead = false;
    let mut out: Vec<String> = Vec::new();

    for op in ops {
        let f: Vec<&str> = op.split(':').collect();
        let kind = f[0];
        if dead {
            out.push("dead".into());
            continue;
        }
        let log_from = b.log.len();
        // (ok, detail)
        let mut detail = String::new();
        let ok: bool = match kind {
            "num" | "base" | "en" => {
                let code = match kind {
                    "num" => codes::SET_VRING_NUM,
                    "base" => codes::SET_VRING_BASE,
                    _ => codes::SET_VRING_ENABLE,
                };
                do_set(&mut b.peer, &conn, code, &peer::b_vring_state(parse_hex_u64(f[1]) as u32, parse_hex_u64(f[2]) as u32), &[])
            }
            "gb" => match b.peer.call(codes::GET_VRING_BASE, &peer::b_vring_state(parse_hex_u64(f[1]) as u32, 0), &[]) {
                Ok((h, body, _)) if h.request == codes::GET_VRING_BASE && body.len() == 8 => {
                    detail = format!(
                        ":{:x}.{:x}",
                        u32::from_le_bytes(body[0..4].try_into().unwrap()),
                        u32::from_le_bytes(body[4..8].try_into().unwrap())
                    );
                    true
                }
                _ => false,
            },
            "addr" => {
                let a: Vec<u64> = f[2].split('/').map(parse_hex_u64).collect();
                do_set(&mut b.peer, &conn, codes::SET_VRING_ADDR, &peer::b_vring_addr(parse_hex_u64(f[1]) as u32, 0, a[0], a[2], a[1], 0), &[])
            }
            "kick" | "call" | "err" => {
                let code = match kind {
                    "kick" => codes::SET_VRING_KICK,
                    "call" => codes::SET_VRING_CALL,
                    _ => codes::SET_VRING_ERR,
                };
                let payload = parse_hex_u64(f[1]);
                let mut fds: Vec<RawFd> = Vec::new();
                if f[2] == "1" {
                    efds.push((peer::eventfd(true), kind == "call"));
                    fds.push(efds.last().unwrap().0.as_raw_fd());
                }
                do_set(&mut b.peer, &conn, code, &peer::b_u64(payload), &fds)
            }
            "feat" => {
                let v = parse_hex_u64(f[1]);
                let r = do_set(&mut b.peer, &conn, codes::SET_FEATURES, &peer::b_u64(v), &[]);
                if r {
                    conn.last_feat = Some(v);
                }
                r
            }
            "pfeat" => {
                let v = parse_hex_u64(f[1]);
                // the acknowledgement mode of *this* request is decided by the value it carries
                let before = conn.last_proto;
                conn.last_proto = Some(v);
                let r = do_set(&mut b.peer, &conn, codes::SET_PROTOCOL_FEATURES, &peer::b_u64(v), &[]);
                if !r {
                    conn.last_proto = before;
                }
                r
            }
            "breq" => {
                let (ours, theirs) = UnixStream::pair().expect("socketpair");
                let r = do_set(&mut b.peer, &conn, codes::SET_BACKEND_REQ_FD, &[], &[theirs.as_raw_fd()]);
                drop(theirs);
                if r {
                    let be = b.shared.backend_reqs.lock().unwrap().last().cloned();
                    match be {
                        Some(be) => {
                            let h = std::thread::spawn(move || {
                                let uuid = VhostUserSharedMsg { uuid: uuid::Uuid::from_u128(0x1234) };
                                let so = be.shared_object_add(&uuid).is_ok();
                                let req = VhostUserMMap { shmid: 0, len: 0x1000, ..Default::default() };
                                let fd = peer::eventfd(true);
                                let sm = be.shmem_map(&req, &fd).is_ok();
                                (so, sm)
                            });
                            let seen = serve_backend_channel(&ours, &|| h.is_finished());
                            let _ = h.join();
                            let so = seen.iter().any(|(c, _)| *c == 6);
                            let sm = seen.iter().any(|(c, _)| *c == 9);
                            let ra = if seen.is_empty() {
                                "?".to_string()
                            } else if seen.iter().all(|(_, n)| *n) {
                                "1".to_string()
                            } else if seen.iter().all(|(_, n)| !*n) {
                                "0".to_string()
                            } else {
                                "mixed".to_string()
                            };
                            detail = format!(":so{}sm{}ra{}", so as u8, sm as u8, ra);
                        }
                        None => detail = ":nochannel".into(),
                    }
                }
                chan.push(ours);
                r
            }
            "mt" => {
                let parsed: Vec<(Region, usize)> = f[1].split(',').filter(|x| !x.is_empty()).map(parse_region).collect();
                let rs: Vec<Region> = parsed.iter().map(|p| p.0).collect();
                let fds: Vec<RawFd> = parsed.iter().map(|p| files[p.1].fd.as_raw_fd()).collect();
                do_set(&mut b.peer, &conn, codes::SET_MEM_TABLE, &peer::b_mem_table(&rs), &fds)
            }
            "add" => {
                let (r, fi) = parse_region(f[1]);
                do_set(&mut b.peer, &conn, codes::ADD_MEM_REG, &peer::b_single_region(&r), &[files[fi].fd.as_raw_fd()])
            }
            "rem" => {
                let (r, _) = parse_region(f[1]);
                do_set(&mut b.peer, &conn, codes::REM_MEM_REG, &peer::b_single_region(&r), &[])
            }
            "ui" => {
                let fo: Vec<u64> = f[1].split('/').map(parse_hex_u64).collect();
                let v = parse_hex_u64(f[2]) as u16;
                let fi = fo[0] as usize;
                if fi < files.len() && files[fi].rw.is_some() && fo[1] + 2 <= files[fi].len {
                    peer::pwrite_all(files[fi].rw.as_ref().unwrap().as_raw_fd(), fo[1], &v.to_le_bytes());
                    let _ = files[fi].diff();
                    true
                } else {
                    false
                }
            }
            "use" => {
                let (ring, head, len) = (parse_hex_u64(f[1]) as usize, parse_hex_u64(f[2]) as u16, parse_hex_u64(f[3]) as u32);
                let res = b.run_in_handler(0, move |vrings: &[V]| match vrings.get(ring) {
                    None => vec!["noring".to_string()],
                    Some(v) => {
                        let a = v.add_used(head, len).is_ok();
                        let s = v.signal_used_queue().is_ok();
                        vec![format!("{}{}", if a { "a" } else { "A" }, if s { "s" } else { "S" })]
                    }
                });
                match res {
                    None => {
                        detail = ":nohandler".into();
                        false
                    }
                    Some(v) => {
                        let tag = v.first().cloned().unwrap_or("none".into());
                        let mut cells: Vec<String> = Vec::new();
                        for (i, fl) in files.iter_mut().enumerate() {
                            for (o, val) in fl.diff() {
                                if cells.len() < 16 {
                                    cells.push(format!("{:x}@{:x}={:02x}", i, o, val));
                                }
                            }
                        }
                        let mut ctr: Vec<String> = Vec::new();
                        for (i, (e, _)) in efds.iter().enumerate() {
                            if let Some(n) = peer::efd_read(e.as_raw_fd()) {
                                ctr.push(format!("{:x}+{:x}", i, n));
                            }
                        }
                        detail = format!(
                            ":{}:cells={}:ctr={}",
                            tag,
                            if cells.is_empty() { "-".to_string() } else { cells.join(",") },
                            if ctr.is_empty() { "-".to_string() } else { ctr.join(",") }
                        );
                        tag != "noring"
                    }
                }
            }
            _ => {
                out.push(format!("bad-op:{}", kind));
                continue;
            }
        };
        // callbacks of this op (before any reconnect traffic)
        if matches!(kind, "feat" | "mt" | "add" | "rem" | "breq" | "pfeat") {
            // a request without acknowledgement has been followed by a GET_FEATURES round trip, a refused one by the end
            // of the connection thread: either way the callbacks are in the log by now, except after a refusal
            if !ok {
                // joining the connection thread makes every callback of the refused request visible; take them before the
                // restore traffic adds its own
                let _ = b.reconnect().map(|_| ());
                let evs = b.log.since(log_from);
                dead = !restore(&mut b.peer, &conn);
                detail = format!(":{}{}", fmt_log(&evs), if kind == "breq" { detail.clone() } else { String::new() });
            } else {
                let evs = b.log.since(log_from);
                detail = format!(":{}{}", fmt_log(&evs), if kind == "breq" { detail.clone() } else { String::new() });
            }
        } else if !ok && kind != "ui" && kind != "use" {
            let _ = b.reconnect().map(|_| ());
            dead = !restore(&mut b.peer, &conn);
        }
        let sample = match b.sample(0) {
            Some(rs) => fmt_sample(&rs),
            None => "nosample".to_string(),
        };
        let shown = if sample == prev_sample { "=".to_string() } else { sample.clone() };
        prev_sample = sample;
        out.push(format!("{}:{}{}|{}", kind, if ok { "ok" } else { "rej" }, detail, shown));
    }
    drop(chan);
    b.finish();
    if out.is_empty() {
        "-".into()
    } else {
        out.join(" ")
    }
}

pub fn run(line: &str) -> String {
    let toks: Vec<&str> = line.split_whitespace().collect();
    let lk = if kv(&toks, "lk") == Some("rwlock") { LockKind::RwLock } else { LockKind::Mutex };
    let nq = parse_hex_u64(kv(&toks, "nq").expect("nq")) as usize;
    let max = parse_hex_u64(kv(&toks, "max").expect("max")) as usize;
    let off = parse_hex_u64(kv(&toks, "off").expect("off"));
    let poff = parse_hex_u64(kv(&toks, "poff").unwrap_or("0"));
    let fspecs: Vec<&str> = kv(&toks, "files").unwrap_or("-").split(',').collect();
    let ops: Vec<&str> = toks.iter().skip(1).filter(|t| !t.contains('=')).cloned().collect();
    if kv(&toks, "vr") == Some("rwlock") {
        run_generic::<VringRwLock<GM<()>>>(lk, nq, max, off, poff, &fspecs, &ops)
    } else {
        run_generic::<VringMutex<GM<()>>>(lk, nq, max, off, poff, &fspecs, &ops)
    }
}
