//! Recording implementation of the backend's request handler (`VhostUserBackendReqHandlerMut`) whose
//! results are scripted by the scenario.
#![allow(dead_code)]
use crate::rawsock::*;
use crate::util::*;
use std::collections::HashMap;
use std::fs::File;
use std::os::unix::io::AsRawFd;
use std::sync::{Arc, Mutex};
use vhost::vhost_user::message::*;
use vhost::vhost_user::{Backend, Error, GpuBackend, Result, VhostUserBackendReqHandlerMut};

#[derive(Clone, Default, Debug)]
pub struct HOut {
    pub ok: bool,
    pub v: u64,
    pub b: Vec<u8>,
    pub file: bool,
    /// kind of error a failing handler returns: 0 ReqHandlerError(EIO), `failI` BackendInternalError, `failP` PartialMessage,
    /// `failS` SocketBroken, `failF` FrontendInternalError, `failM` InvalidMessage, `failX` InvalidParam
    pub kind: u8,
}

thread_local! {
    /// kind of the failure the current handler invocation is to return, and whether it did fail (set by `log`)
    pub static FAIL_KIND: std::cell::Cell<u8> = const { std::cell::Cell::new(0) };
}

/// the error a failing handler returns for kind `k`
pub fn handler_error(k: u8) -> Error {
    match k {
        b'I' => Error::BackendInternalError,
        b'P' => Error::PartialMessage,
        b'S' => Error::SocketBroken(std::io::Error::from_raw_os_error(libc::EPIPE)),
        b'F' => Error::FrontendInternalError,
        b'M' => Error::InvalidMessage,
        b'X' => Error::InvalidParam,
        _ => Error::ReqHandlerError(std::io::Error::from_raw_os_error(libc::EIO)),
    }
}

impl HOut {
    /// `h=ok|fail[,v=<hex>][,b=<hex>][,f=0|1]`
    pub fn parse(s: &str) -> HOut {
        let mut h = HOut { ok: true, v: 0, b: vec![], file: true, kind: 0 };
        for (i, part) in s.split(',').enumerate() {
            if i == 0 {
                h.ok = part == "ok";
                h.kind = part.strip_prefix("fail").and_then(|k| k.bytes().next()).unwrap_or(0);
            } else if let Some(x) = part.strip_prefix("v=") {
                h.v = parse_hex_u64(x);
            } else if let Some(x) = part.strip_prefix("b=") {
                h.b = hex_to_bytes(x);
            } else if let Some(x) = part.strip_prefix("f=") {
                h.file = x == "1";
            }
        }
        h
    }
}

#[derive(Default)]
pub struct Shared {
    pub calls: Vec<String>,
    pub next: HOut,
    pub objs: HashMap<Ino, u32>,
    /// files the application decided to keep (none: the recording handler drops everything)
    pub kept: Vec<File>,
    pub backend: Option<Backend>,
    pub gpu: Option<GpuBackend>,
    /// identity of the file the handler returned last (for `same open file` checks on the frontend side)
    pub last_returned: Option<Ino>,
    /// every file a handler returned by value (the library owns those: they count for the leak check, ids 900..)
    pub returned: Vec<Ino>,
}

impl Shared {
    /// `objs` plus the files handed out by handlers (ids 900 + k)
    pub fn all_objs(&self, base: &HashMap<Ino, u32>) -> HashMap<Ino, u32> {
        let mut m = base.clone();
        for (k, i) in self.returned.iter().enumerate() {
            m.entry(*i).or_insert(900 + k as u32);
        }
        m
    }
}

#[derive(Clone)]
pub struct Rec {
    pub sh: Arc<Mutex<Shared>>,
}

fn hx(v: u64) -> String {
    format!("{:x}", v)
}

impl Rec {
    pub fn new() -> Self {
        Rec { sh: Arc::new(Mutex::new(Shared::default())) }
    }
    fn ident(&self, f: &File) -> String {
        let sh = self.sh.lock().unwrap();
        match ino_of(f.as_raw_fd()).and_then(|i| sh.objs.get(&i).cloned()) {
            Some(id) => format!("{}", id),
            None => "?".to_string(),
        }
    }
    fn log(&self, name: &str, args: &[u64], payload: &[u8], fds: &[String]) -> HOut {
        let a = if args.is_empty() { "-".to_string() } else { args.iter().map(|x| hx(*x)).collect::<Vec<_>>().join(",") };
        let f = if fds.is_empty() { "-".to_string() } else { fds.join(",") };
        let mut sh = self.sh.lock().unwrap();
        sh.calls.push(format!("{}:{}:{}:{}", name, a, bytes_to_hex(payload), f));
        FAIL_KIND.with(|k| k.set(sh.next.kind));
        sh.next.clone()
    }
    fn unit(&self, h: HOut) -> Result<()> {
        if h.ok { Ok(()) } else { Err(handler_error(h.kind)) }
    }
    fn herr<T>() -> Result<T> {
        Err(handler_error(FAIL_KIND.with(|k| k.get())))
    }
    fn fresh_file(&self) -> File {
        use std::os::unix::io::FromRawFd;
        let fd = new_memfd(0);
        {
            let mut sh = self.sh.lock().unwrap();
            sh.last_returned = ino_of(fd);
            if let Some(i) = ino_of(fd) {
                sh.returned.push(i);
            }
        }
        unsafe { File::from_raw_fd(fd) }
    }
}

impl VhostUserBackendReqHandlerMut for Rec {
    fn set_owner(&mut self) -> Result<()> {
        let h = self.log("set_owner", &[], &[], &[]);
        self.unit(h)
    }
    fn reset_owner(&mut self) -> Result<()> {
        let h = self.log("reset_owner", &[], &[], &[]);
        self.unit(h)
    }
    fn reset_device(&mut self) -> Result<()> {
        let h = self.log("reset_device", &[], &[], &[]);
        self.unit(h)
    }
    fn get_features(&mut self) -> Result<u64> {
        let h = self.log("get_features", &[], &[], &[]);
        if h.ok { Ok(h.v) } else { Self::herr() }
    }
    fn set_features(&mut self, features: u64) -> Result<()> {
        let h = self.log("set_features", &[features], &[], &[]);
        self.unit(h)
    }
    fn set_mem_table(&mut self, ctx: &[VhostUserMemoryRegion], files: Vec<File>) -> Result<()> {
        let mut a = vec![];
        for r in ctx {
            a.extend_from_slice(&[r.guest_phys_addr, r.memory_size, r.user_addr, r.mmap_offset]);
        }
        let ids: Vec<String> = files.iter().map(|f| self.ident(f)).collect();
        let h = self.log("set_mem_table", &a, &[], &ids);
        self.unit(h)
    }
    fn set_vring_num(&mut self, index: u32, num: u32) -> Result<()> {
        let h = self.log("set_vring_num", &[index as u64, num as u64], &[], &[]);
        self.unit(h)
    }
    fn set_vring_addr(&mut self, index: u32, flags: VhostUserVringAddrFlags, descriptor: u64, used: u64,
                      available: u64, log: u64) -> Result<()> {
        let h = self.log("set_vring_addr", &[index as u64, flags.bits() as u64, descriptor, used, available, log], &[], &[]);
        self.unit(h)
    }
    fn set_vring_base(&mut self, index: u32, base: u32) -> Result<()> {
        let h = self.log("set_vring_base", &[index as u64, base as u64], &[], &[]);
        self.unit(h)
    }
    fn get_vring_base(&mut self, index: u32) -> Result<VhostUserVringState> {
        let h = self.log("get_vring_base", &[index as u64], &[], &[]);
        if h.ok { Ok(VhostUserVringState::new(index, h.v as u32)) } else { Self::herr() }
    }
    fn set_vring_kick(&mut self, index: u8, fd: Option<File>) -> Result<()> {
        let ids: Vec<String> = fd.iter().map(|f| self.ident(f)).collect();
        let h = self.log("set_vring_kick", &[index as u64], &[], &ids);
        self.unit(h)
    }
    fn set_vring_call(&mut self, index: u8, fd: Option<File>) -> Result<()> {
        let ids: Vec<String> = fd.iter().map(|f| self.ident(f)).collect();
        let h = self.log("set_vring_call", &[index as u64], &[], &ids);
        self.unit(h)
    }
    fn set_vring_err(&mut self, index: u8, fd: Option<File>) -> Result<()> {
        let ids: Vec<String> = fd.iter().map(|f| self.ident(f)).collect();
        let h = self.log("set_vring_err", &[index as u64], &[], &ids);
        self.unit(h)
    }
    fn get_protocol_features(&mut self) -> Result<VhostUserProtocolFeatures> {
        let h = self.log("get_protocol_features", &[], &[], &[]);
        if h.ok { Ok(VhostUserProtocolFeatures::from_bits_retain(h.v)) } else { Self::herr() }
    }
    fn set_protocol_features(&mut self, features: u64) -> Result<()> {
        let h = self.log("set_protocol_features", &[features], &[], &[]);
        self.unit(h)
    }
    fn get_queue_num(&mut self) -> Result<u64> {
        let h = self.log("get_queue_num", &[], &[], &[]);
        if h.ok { Ok(h.v) } else { Self::herr() }
    }
    fn set_vring_enable(&mut self, index: u32, enable: bool) -> Result<()> {
        let h = self.log("set_vring_enable", &[index as u64, enable as u64], &[], &[]);
        self.unit(h)
    }
    fn get_config(&mut self, offset: u32, size: u32, flags: VhostUserConfigFlags) -> Result<Vec<u8>> {
        let h = self.log("get_config", &[offset as u64, size as u64, flags.bits() as u64], &[], &[]);
        if h.ok { Ok(h.b.clone()) } else { Self::herr() }
    }
    fn set_config(&mut self, offset: u32, buf: &[u8], flags: VhostUserConfigFlags) -> Result<()> {
        let h = self.log("set_config", &[offset as u64, flags.bits() as u64], buf, &[]);
        self.unit(h)
    }
    fn set_backend_req_fd(&mut self, backend: Backend) {
        let _ = self.log("set_backend_req_fd", &[], &[], &["*".to_string()]);
        self.sh.lock().unwrap().backend = Some(backend);
    }
    fn set_gpu_socket(&mut self, gpu_backend: GpuBackend) -> Result<()> {
        let h = self.log("set_gpu_socket", &[], &[], &["*".to_string()]);
        self.sh.lock().unwrap().gpu = Some(gpu_backend);
        self.unit(h)
    }
    fn get_shared_object(&mut self, uuid: VhostUserSharedMsg) -> Result<File> {
        let u = u128::from_le_bytes(*uuid.uuid.as_bytes());
        let mut sh = self.sh.lock().unwrap();
        sh.calls.push(format!("get_shared_object:{:x}:-:-", u));
        let h = sh.next.clone();
        drop(sh);
        if h.ok { Ok(self.fresh_file()) } else { Self::herr() }
    }
    fn get_inflight_fd(&mut self, inflight: &VhostUserInflight) -> Result<(VhostUserInflight, File)> {
        let h = self.log("get_inflight_fd", &[inflight.mmap_size, inflight.mmap_offset, inflight.num_queues as u64,
                                             inflight.queue_size as u64], &[], &[]);
        if h.ok {
            let mut r = *inflight;
            r.mmap_size = h.v;
            Ok((r, self.fresh_file()))
        } else {
            Self::herr()
        }
    }
    fn set_inflight_fd(&mut self, inflight: &VhostUserInflight, file: File) -> Result<()> {
        let ids = vec![self.ident(&file)];
        let h = self.log("set_inflight_fd", &[inflight.mmap_size, inflight.mmap_offset, inflight.num_queues as u64,
                                             inflight.queue_size as u64], &[], &ids);
        self.unit(h)
    }
    fn get_max_mem_slots(&mut self) -> Result<u64> {
        let h = self.log("get_max_mem_slots", &[], &[], &[]);
        if h.ok { Ok(h.v) } else { Self::herr() }
    }
    fn add_mem_region(&mut self, region: &VhostUserSingleMemoryRegion, fd: File) -> Result<()> {
        let ids = vec![self.ident(&fd)];
        let h = self.log("add_mem_region", &[region.guest_phys_addr, region.memory_size, region.user_addr, region.mmap_offset],
                         &[], &ids);
        self.unit(h)
    }
    fn remove_mem_region(&mut self, region: &VhostUserSingleMemoryRegion) -> Result<()> {
        let h = self.log("remove_mem_region", &[region.guest_phys_addr, region.memory_size, region.user_addr, region.mmap_offset],
                         &[], &[]);
        self.unit(h)
    }
    fn set_device_state_fd(&mut self, direction: VhostTransferStateDirection, phase: VhostTransferStatePhase, fd: File)
                           -> Result<Option<File>> {
        let ids = vec![self.ident(&fd)];
        let h = self.log("set_device_state_fd", &[direction as u64, phase as u64], &[], &ids);
        if !h.ok {
            Self::herr()
        } else if h.file {
            Ok(Some(self.fresh_file()))
        } else {
            Ok(None)
        }
    }
    fn check_device_state(&mut self) -> Result<()> {
        let h = self.log("check_device_state", &[], &[], &[]);
        self.unit(h)
    }
    fn get_shmem_config(&mut self) -> Result<VhostUserShMemConfig> {
        let h = self.log("get_shmem_config", &[], &[], &[]);
        if h.ok {
            let mut sizes = vec![];
            for c in h.b.chunks(8) {
                let mut w = [0u8; 8];
                w[..c.len()].copy_from_slice(c);
                sizes.push(u64::from_le_bytes(w));
            }
            Ok(VhostUserShMemConfig::new(h.v as u32, &sizes))
        } else {
            Self::herr()
        }
    }
    fn postcopy_advice(&mut self) -> Result<File> {
        let h = self.log("postcopy_advice", &[], &[], &[]);
        if h.ok { Ok(self.fresh_file()) } else { Self::herr() }
    }
    fn postcopy_listen(&mut self) -> Result<()> {
        let h = self.log("postcopy_listen", &[], &[], &[]);
        self.unit(h)
    }
    fn postcopy_end(&mut self) -> Result<()> {
        let h = self.log("postcopy_end", &[], &[], &[]);
        self.unit(h)
    }
    fn set_log_base(&mut self, log: &VhostUserLog, file: File) -> Result<()> {
        let ids = vec![self.ident(&file)];
        let h = self.log("set_log_base", &[log.mmap_size, log.mmap_offset], &[], &ids);
        self.unit(h)
    }
}

/// map the crate's error to the small enum the properties distinguish
pub fn err_class(e: &Error) -> &'static str {
    match e {
        Error::InvalidParam => "invalidParam",
        Error::InvalidOperation(_) => "invalidOperation",
        Error::InactiveFeature(_) => "inactiveFeature",
        Error::InactiveOperation(_) => "inactiveOperation",
        Error::InvalidMessage => "invalidMsg",
        Error::PartialMessage => "partialMsg",
        Error::Disconnected => "disconnected",
        Error::OversizedMsg => "oversized",
        Error::IncorrectFds => "incorrectFds",
        Error::SocketConnect(_) => "sockError",
        Error::SocketError(_) => "sockError",
        Error::SocketBroken(_) => "sockBroken",
        Error::SocketRetry(_) => "sockRetry",
        Error::BackendInternalError => "backendInternal",
        Error::FrontendInternalError => "frontendInternal",
        Error::FeatureMismatch => "other",
        Error::ReqHandlerError(_) => "handlerErr",
        _ => "other",
    }
}
