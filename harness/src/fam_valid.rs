//! family `valid`: `valid <Type> <hex bytes>` -> `0|1` (the compiled crate's `is_valid()`).
use crate::util::*;
use vhost::vhost_user::gpu_message::*;
use vhost::vhost_user::message::*;
use vhost::vhost_user::verif_hooks as hooks;

fn from_bytes<T: Copy>(b: &[u8]) -> T {
    assert_eq!(b.len(), std::mem::size_of::<T>(), "size mismatch");
    // SAFETY: all message types are plain-old-data (ByteValued in the crate).
    unsafe { std::ptr::read_unaligned(b.as_ptr() as *const T) }
}

fn v<T: Copy + VhostUserMsgValidator>(b: &[u8]) -> bool {
    from_bytes::<T>(b).is_valid()
}

pub fn run(line: &str) -> String {
    let toks: Vec<&str> = line.split_whitespace().collect();
    let ty = toks[1];
    if ty == "sizeof" {
        // `valid sizeof <Type>` : report mem::size_of for the layout cross-check
        return format!("{}", size_of_name(toks[2]));
    }
    let b = hex_to_bytes(toks[2]);
    let r = match ty {
        "FrontendHeader" => hooks::frontend_header_is_valid(b.as_slice().try_into().unwrap()),
        "BackendHeader" => hooks::backend_header_is_valid(b.as_slice().try_into().unwrap()),
        "GpuHeader" => hooks::gpu_header_is_valid(b.as_slice().try_into().unwrap()),
        "VhostUserU64" => v::<VhostUserU64>(&b),
        "VhostUserMemory" => v::<VhostUserMemory>(&b),
        "VhostUserMemoryRegion" => v::<VhostUserMemoryRegion>(&b),
        "VhostUserSingleMemoryRegion" => v::<VhostUserSingleMemoryRegion>(&b),
        "VhostUserVringState" => v::<VhostUserVringState>(&b),
        "VhostUserVringAddr" => v::<VhostUserVringAddr>(&b),
        "VhostUserConfig" => v::<VhostUserConfig>(&b),
        "VhostUserInflight" => v::<VhostUserInflight>(&b),
        "VhostUserLog" => v::<VhostUserLog>(&b),
        "VhostUserSharedMsg" => v::<VhostUserSharedMsg>(&b),
        "VhostUserTransferDeviceState" => v::<VhostUserTransferDeviceState>(&b),
        "VhostUserMMap" => v::<VhostUserMMap>(&b),
        "VhostUserGpuScanout" => v::<VhostUserGpuScanout>(&b),
        "VhostUserGpuUpdate" => v::<VhostUserGpuUpdate>(&b),
        _ => return "unknown-type".to_string(),
    };
    if r { "1".into() } else { "0".into() }
}

pub fn size_of_name(n: &str) -> usize {
    use std::mem::size_of;
    match n {
        "VhostUserU64" => size_of::<VhostUserU64>(),
        "VhostUserMemory" => size_of::<VhostUserMemory>(),
        "VhostUserMemoryRegion" => size_of::<VhostUserMemoryRegion>(),
        "VhostUserSingleMemoryRegion" => size_of::<VhostUserSingleMemoryRegion>(),
        "VhostUserShMemConfig" => size_of::<VhostUserShMemConfig>(),
        "VhostUserVringState" => size_of::<VhostUserVringState>(),
        "VhostUserVringAddr" => size_of::<VhostUserVringAddr>(),
        "VhostUserConfig" => size_of::<VhostUserConfig>(),
        "VhostUserInflight" => size_of::<VhostUserInflight>(),
        "VhostUserLog" => size_of::<VhostUserLog>(),
        "VhostUserSharedMsg" => size_of::<VhostUserSharedMsg>(),
        "VhostUserTransferDeviceState" => size_of::<VhostUserTransferDeviceState>(),
        "VhostUserMMap" => size_of::<VhostUserMMap>(),
        "VirtioGpuCtrlHdr" => size_of::<VirtioGpuCtrlHdr>(),
        "VirtioGpuRect" => size_of::<VirtioGpuRect>(),
        "VirtioGpuDisplayOne" => size_of::<VirtioGpuDisplayOne>(),
        "VirtioGpuRespDisplayInfo" => size_of::<VirtioGpuRespDisplayInfo>(),
        "VhostUserGpuEdidRequest" => size_of::<VhostUserGpuEdidRequest>(),
        "VhostUserGpuUpdate" => size_of::<VhostUserGpuUpdate>(),
        "VhostUserGpuDMABUFScanout" => size_of::<VhostUserGpuDMABUFScanout>(),
        "VhostUserGpuDMABUFScanout2" => size_of::<VhostUserGpuDMABUFScanout2>(),
        "VhostUserGpuCursorPos" => size_of::<VhostUserGpuCursorPos>(),
        "VhostUserGpuCursorUpdate" => size_of::<VhostUserGpuCursorUpdate>(),
        "VirtioGpuRespGetEdid" => size_of::<VirtioGpuRespGetEdid>(),
        "VhostUserGpuScanout" => size_of::<VhostUserGpuScanout>(),
        _ => usize::MAX,
    }
}
