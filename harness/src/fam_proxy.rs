//! family `proxy`: the real backend→frontend proxy `Backend`, driven op by op.
//!
//! `proxy mode=srv|peer | <op> | <op> ...`
//!  * mode=srv : the other end is the real `FrontendReqHandler<Mutex<RecFe>>` (`FrontendReqHandler::new` makes the
//!               socketpair; the proxy gets a dup of `get_tx_raw_fd()`); every request the proxy writes is served by
//!               `handle_request()` on the main thread; an error that is not the application handler's drops the server
//!               (closing the channel).  op carries `h=ok:<n>|errno:<e>|err`.
//!               observation per op: `ret=<..> c=<handler calls> sr=<handle_request results> lc=<lent fds closed>`
//!  * mode=peer: the other end is the raw peer; op carries `r=<ack hex>/<nfds>` | `r=-` | `r=close` [`then-close`]; the
//!               script is played (one sendmsg) once a complete request has arrived.
//!               observation per op: `ret=<..> w=<bytes the proxy wrote> wf=<idents of fds it attached> lc=<..>`
//! ops: `ra|so|shm <0|1>` (proxy flags), `fail <errno>` (proxy set_failed), `sra <0|1>`, `sfail <errno>` (server side),
//!      `add|remove|lookup <uuid as 128-bit hex number, little-endian bytes>`,
//!      `map|unmap <shmid> <fd_offset> <shm_offset> <len> <flags> <7 padding bytes hex|->`
//! ret := `ok:<value>` | `err.<class>` (`local` = an io::Error that carries no vhost-user error) | `blocked`
use crate::rawsock::*;
use crate::rec::err_class;
use crate::rec_fe::*;
use crate::util::*;
use std::os::unix::io::{AsRawFd, FromRawFd, RawFd};
use std::os::unix::net::UnixStream;
use std::sync::atomic::{AtomicI32, Ordering};
use std::sync::mpsc;
use std::sync::{Arc, Mutex};
use std::time::{Duration, Instant};
use vhost::vhost_user::message::*;
use vhost::vhost_user::{Backend, Error as VuError, FrontendReqHandler, VhostUserFrontendReqHandler};

fn p(s: &str) -> u64 {
    parse_hex_u64(s)
}

pub fn io_class(e: &std::io::Error) -> String {
    match e.get_ref().and_then(|i| i.downcast_ref::<VuError>()) {
        Some(v) => format!("err.{}", err_class(v)),
        None => "err.local".to_string(),
    }
}

struct BorrowedFd(RawFd);
impl AsRawFd for BorrowedFd {
    fn as_raw_fd(&self) -> RawFd {
        self.0
    }
}

fn shared_msg(tok: &str) -> VhostUserSharedMsg {
    let u = u128::from_str_radix(tok, 16).expect("bad uuid");
    VhostUserSharedMsg { uuid: uuid::Uuid::from_bytes(u.to_le_bytes()) }
}

fn mmap_msg(t: &[&str]) -> VhostUserMMap {
    let mut padding = [0u8; 7];
    if t.len() > 6 && t[6] != "-" {
        let b = hex_to_bytes(t[6]);
        for (i, x) in b.iter().take(7).enumerate() {
            padding[i] = *x;
        }
    }
    VhostUserMMap { shmid: p(t[1]) as u8, padding, fd_offset: p(t[2]), shm_offset: p(t[3]), len: p(t[4]), flags: p(t[5]) }
}

/// run one proxy call; returns (`ret=` text, number of lent descriptors that were closed or replaced)
fn do_op(be: &Backend, toks: &[String], objs: &Arc<Mutex<Objs>>) -> (String, usize) {
    let t: Vec<&str> = toks.iter().map(|s| s.as_str()).collect();
    let mut made: Vec<(RawFd, Option<Ino>)> = Vec::new();
    let mut fresh = || {
        let fd = objs.lock().unwrap().fresh_memfd();
        made.push((fd, ino_of(fd)));
        BorrowedFd(fd)
    };
    let r = match t[0] {
        "add" => be.shared_object_add(&shared_msg(t[1])),
        "remove" => be.shared_object_remove(&shared_msg(t[1])),
        "lookup" => {
            let fd = fresh();
            be.shared_object_lookup(&shared_msg(t[1]), &fd)
        }
        "map" => {
            let fd = fresh();
            be.shmem_map(&mmap_msg(&t), &fd)
        }
        "unmap" => be.shmem_unmap(&mmap_msg(&t)),
        _ => return ("bad-op".into(), 0),
    };
    let ret = match r {
        Ok(v) => format!("ok:{:x}", v),
        Err(e) => io_class(&e),
    };
    let mut lent_closed = 0;
    for (fd, ino) in made.iter() {
        if ino_of(*fd) != *ino {
            lent_closed += 1;
        }
    }
    for (fd, _) in made {
        close(fd);
    }
    (ret, lent_closed)
}

pub fn run(line: &str) -> String {
    let rest = line.strip_prefix("proxy").unwrap_or(line).trim();
    let mut parts: Vec<&str> = rest.split('|').map(|s| s.trim()).collect();
    let head: Vec<&str> = parts.remove(0).split_whitespace().collect();
    let srv_mode = kv(&head, "mode").unwrap_or("srv") == "srv";
    let objs = Arc::new(Mutex::new(Objs::new()));
    let rec = RecFe::new();
    let shared = rec.sh.clone();
    shared.lock().unwrap().objs = Some(objs.clone());
    let app = Arc::new(Mutex::new(rec));
    let mut handler: Option<FrontendReqHandler<Mutex<RecFe>>> = None;
    let mut peer: Option<PeerSide> = None;
    let backend;
    let proxy_fd: RawFd;
    if srv_mode {
        let h = FrontendReqHandler::new(app.clone()).expect("FrontendReqHandler::new");
        let fd = unsafe { libc::dup(h.get_tx_raw_fd()) };
        assert!(fd >= 0, "dup failed");
        proxy_fd = fd;
        backend = Backend::from_stream(unsafe { UnixStream::from_raw_fd(fd) });
        handler = Some(h);
    } else {
        let (a, b) = pair();
        proxy_fd = a.as_raw_fd();
        backend = Backend::from_stream(a);
        peer = Some(PeerSide::new(b));
    }
    let mut obs: Vec<String> = Vec::new();
    let mut dead = false;
    for st in parts.iter().filter(|s| !s.is_empty()) {
        if dead {
            obs.push("ret=skipped".to_string());
            continue;
        }
        let toks: Vec<String> = st.split_whitespace().map(|s| s.to_string()).collect();
        let tref: Vec<&str> = toks.iter().map(|s| s.as_str()).collect();
        let quiet = if srv_mode { "ret=ok c=- sr=- lc=0" } else { "ret=ok w=- wf=- lc=0" };
        // flag operations
        let flag = match tref[0] {
            "ra" => { backend.set_reply_ack_flag(tref[1] == "1"); true }
            "so" => { backend.set_shared_object_flag(tref[1] == "1"); true }
            "shm" => { backend.set_shmem_flag(tref[1] == "1"); true }
            "fail" => { backend.set_failed(p(tref[1]) as i32); true }
            "sra" => { if let Some(h) = handler.as_mut() { h.set_reply_ack_flag(tref[1] == "1"); } true }
            "sfail" => { if let Some(h) = handler.as_mut() { h.set_failed(p(tref[1]) as i32); } true }
            _ => false,
        };
        if flag {
            obs.push(quiet.to_string());
            continue;
        }
        let rscript = kv(&tref, "r").map(|s| s.to_string());
        let then_close = tref.contains(&"then-close");
        {
            let mut sh = shared.lock().unwrap();
            sh.next = FeOut::parse(kv(&tref, "h").unwrap_or("ok:0"));
            sh.calls.clear();
        }
        let (tx, rx) = mpsc::channel();
        let be2 = backend.clone();
        let objs2 = objs.clone();
        let optoks: Vec<String> = toks.iter().filter(|t| !t.starts_with("h=") && !t.starts_with("r=") && *t != "then-close").cloned().collect();
        let tid = Arc::new(AtomicI32::new(0));
        let tid2 = tid.clone();
        let th = std::thread::spawn(move || {
            tid2.store(gettid(), Ordering::SeqCst);
            let r = do_op(&be2, &optoks, &objs2);
            let _ = tx.send(r);
        });
        let start = Instant::now();
        let mut quiet = 0u32;
        let mut col = OpCollect { wire: Vec::new(), wire_fds: Vec::new(), replied: false };
        let mut srv_results: Vec<String> = Vec::new();
        let mut ret: Option<(String, usize)> = None;
        loop {
            if let Ok(r) = rx.try_recv() {
                ret = Some(r);
            }
            if srv_mode {
                while handler.is_some() && readable(handler.as_ref().unwrap().as_raw_fd(), 0) {
                    let r = handler.as_mut().unwrap().handle_request();
                    let keep = match &r {
                        Ok(_) => true,
                        Err(VuError::ReqHandlerError(_)) => true,
                        Err(_) => false,
                    };
                    srv_results.push(match r {
                        Ok(n) => format!("ok:{:x}", n),
                        Err(e) => format!("err.{}", err_class(&e)),
                    });
                    if !keep {
                        handler = None;
                    }
                }
            } else if let Some(pr) = peer.as_mut() {
                pr.round(&mut col, &objs, rscript.as_deref(), then_close);
                if !pr.alive() {
                    peer = None;
                }
            }
            if ret.is_some() {
                // one more round after completion: a request that is not acknowledged is already queued
                let more = if srv_mode {
                    handler.is_some() && readable(handler.as_ref().unwrap().as_raw_fd(), 0)
                } else {
                    peer.is_some() && readable(peer.as_ref().unwrap().fd, 0)
                };
                if !more {
                    break;
                }
                continue;
            }
            // blocked? the call's thread sleeps, nothing is queued for it, the other side has nothing left to do
            let other_idle = if srv_mode {
                handler.as_ref().map_or(true, |h| !readable(h.as_raw_fd(), 0))
            } else {
                peer.as_ref().map_or(true, |pr| !readable(pr.fd, 0))
            };
            if other_idle && thread_sleeping(tid.load(Ordering::SeqCst)) && pending_bytes(proxy_fd) == 0 {
                quiet += 1;
                if quiet >= QUIET_ROUNDS {
                    if let Ok(r) = rx.try_recv() {
                        ret = Some(r);
                        continue;
                    }
                    break;
                }
            } else {
                quiet = 0;
            }
            if start.elapsed() > WATCHDOG {
                break;
            }
            if srv_mode {
                match handler.as_ref() {
                    Some(h) => { readable(h.as_raw_fd(), 2); }
                    None => std::thread::sleep(Duration::from_millis(1)),
                }
            } else {
                match peer.as_ref() {
                    Some(pr) => { readable(pr.fd, 2); }
                    None => std::thread::sleep(Duration::from_millis(1)),
                }
            }
        }
        let (ret, lent_closed) = match ret {
            Some(r) => {
                let _ = th.join();
                r
            }
            None => {
                // blocked: close the other end to unblock, then stop
                handler = None;
                peer = None;
                let _ = th.join();
                dead = true;
                ("blocked".to_string(), 0)
            }
        };
        if srv_mode {
            let calls = {
                let sh = shared.lock().unwrap();
                if sh.calls.is_empty() { "-".to_string() } else { sh.calls.join(";") }
            };
            let sr = if srv_results.is_empty() { "-".to_string() } else { srv_results.join(",") };
            obs.push(format!("ret={} c={} sr={} lc={}", ret, calls, sr, lent_closed));
        } else {
            obs.push(format!("ret={} w={} wf={} lc={}", ret, bytes_to_hex(&col.wire),
                             if col.wire_fds.is_empty() { "-".to_string() } else { col.wire_fds.join(",") }, lent_closed));
        }
    }
    drop(handler);
    drop(peer);
    drop(backend);
    drop(app);
    let leaked = open_idents(&objs.lock().unwrap().map);
    obs.push(format!("L={}", if leaked.is_empty() { "-".to_string() } else { leaked.iter().map(|x| x.to_string()).collect::<Vec<_>>().join(",") }));
    obs.join(" | ")
}
