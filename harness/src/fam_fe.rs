//! family `fe`: the real `Frontend` endpoint, driven op by op.
//!
//! `fe mq=<max queues hex> mode=srv|peer | <op> | <op> ...`
//!  * mode=srv : the other end is the real `BackendReqHandler<Mutex<Rec>>`; every request the frontend writes is
//!               served by one `handle_request()`; a failing `handle_request()` closes the connection (as
//!               `VhostUserDaemon` does). op carries `h=<handler outcome>`.
//!               observation per op: `ret=<..> c=<handler calls>`
//!  * mode=peer: the other end is the raw peer; op carries `r=<reply hex>/<nfds>` | `r=-` | `r=close`; the reply is
//!               sent (one sendmsg) once a complete request has arrived.
//!               observation per op: `ret=<..> w=<bytes the frontend wrote> wf=<idents of fds it attached>`
//! ret := `ok[:value]` | `err.<class>` | `blocked`
use crate::rawsock::*;
use crate::rec_fe::{gettid, pending_bytes, thread_sleeping, QUIET_ROUNDS, WATCHDOG};
use std::sync::atomic::{AtomicI32, Ordering};
use crate::rec::*;
use crate::util::*;
use std::collections::HashMap;
use std::fs::File;
use std::os::fd::OwnedFd;
use std::os::unix::io::{AsRawFd, FromRawFd, RawFd};
use std::sync::mpsc;
use std::sync::{Arc, Mutex};
use std::time::{Duration, Instant};
use vhost::vhost_user::message::*;
use vhost::vhost_user::{BackendReqHandler, Frontend, VhostUserFrontend};
use vhost::{VhostBackend, VhostUserDirtyLogRegion, VhostUserMemoryRegionInfo, VringConfigData};

fn verr(e: &vhost::Error) -> String {
    match e {
        vhost::Error::VhostUserProtocol(e) => format!("err.{}", err_class(e)),
        _ => "err.vhost".to_string(),
    }
}

fn p(s: &str) -> u64 {
    parse_hex_u64(s)
}

struct Objs {
    map: HashMap<Ino, u32>,
    next: u32,
}

impl Objs {
    fn fresh_memfd(&mut self, size: u64) -> RawFd {
        let fd = new_memfd(size);
        self.map.insert(ino_of(fd).unwrap(), self.next);
        self.next += 1;
        fd
    }
    fn fresh_eventfd(&mut self) -> RawFd {
        // eventfds share one anonymous inode: identity is not observable through fstat; use a memfd-backed
        // identity for descriptor checks and real eventfds only where the API demands the type
        let fd = new_eventfd(true);
        fd
    }
}

fn file_ident(objs: &HashMap<Ino, u32>, f: &File) -> String {
    match ino_of(f.as_raw_fd()).and_then(|i| objs.get(&i).cloned()) {
        Some(id) => format!("{}", id),
        None => "?".to_string(),
    }
}

/// run one frontend operation; returns the `ret=` text. `made` collects descriptors created for the call (closed afterwards).
fn do_op(fe: &mut Frontend, toks: &[String], objs: &Arc<Mutex<Objs>>, shared: &Arc<Mutex<Shared>>) -> (String, usize) {
    let t: Vec<&str> = toks.iter().map(|s| s.as_str()).collect();
    let mut made: Vec<RawFd> = Vec::new();
    let mut made_ino: Vec<Option<Ino>> = Vec::new();
    let same_file = |f: &File| -> &'static str {
        let want = shared.lock().unwrap().last_returned;
        match (want, ino_of(f.as_raw_fd())) {
            (Some(a), Some(b)) if a == b => "same",
            (None, _) => "unknown",
            _ => "diff",
        }
    };
    let r: String = match t[0] {
        "get_features" => match fe.get_features() { Ok(v) => format!("ok:{:x}", v), Err(e) => verr(&e) },
        "set_features" => match fe.set_features(p(t[1])) { Ok(()) => "ok".into(), Err(e) => verr(&e) },
        "set_owner" => match fe.set_owner() { Ok(()) => "ok".into(), Err(e) => verr(&e) },
        "reset_owner" => match fe.reset_owner() { Ok(()) => "ok".into(), Err(e) => verr(&e) },
        "set_mem_table" => {
            let mut regs = Vec::new();
            if t.len() > 1 && t[1] != "-" {
                for r in t[1].split(';') {
                    let f: Vec<&str> = r.split(',').collect();
                    let fd = if f.len() > 4 && f[4] == "badfd" { -1 } else {
                        let fd = objs.lock().unwrap().fresh_memfd(0);
                        { made.push(fd); made_ino.push(ino_of(fd)); }
                        fd
                    };
                    regs.push(VhostUserMemoryRegionInfo { guest_phys_addr: p(f[0]), memory_size: p(f[1]), userspace_addr: p(f[2]),
                                                          mmap_offset: p(f[3]), mmap_handle: fd });
                }
            }
            match fe.set_mem_table(&regs) { Ok(()) => "ok".into(), Err(e) => verr(&e) }
        }
        "set_log_base" => {
            let region = if t.len() > 2 && t[2] != "-" {
                let f: Vec<&str> = t[2].split(',').collect();
                let fd = objs.lock().unwrap().fresh_memfd(0);
                { made.push(fd); made_ino.push(ino_of(fd)); }
                Some(VhostUserDirtyLogRegion { mmap_size: p(f[0]), mmap_offset: p(f[1]), mmap_handle: fd })
            } else { None };
            match fe.set_log_base(p(t[1]), region) { Ok(()) => "ok".into(), Err(e) => verr(&e) }
        }
        "set_log_fd" => {
            let fd = objs.lock().unwrap().fresh_memfd(0);
            { made.push(fd); made_ino.push(ino_of(fd)); }
            match fe.set_log_fd(fd) { Ok(()) => "ok".into(), Err(e) => verr(&e) }
        }
        "set_vring_num" => match fe.set_vring_num(p(t[1]) as usize, p(t[2]) as u16) { Ok(()) => "ok".into(), Err(e) => verr(&e) },
        "set_vring_addr" => {
            let cfg = VringConfigData { queue_max_size: 256, queue_size: 256, flags: p(t[2]) as u32, desc_table_addr: p(t[3]),
                                        used_ring_addr: p(t[4]), avail_ring_addr: p(t[5]),
                                        log_addr: if t[6] == "-" { None } else { Some(p(t[6])) } };
            match fe.set_vring_addr(p(t[1]) as usize, &cfg) { Ok(()) => "ok".into(), Err(e) => verr(&e) }
        }
        "set_vring_base" => match fe.set_vring_base(p(t[1]) as usize, p(t[2]) as u16) { Ok(()) => "ok".into(), Err(e) => verr(&e) },
        "get_vring_base" => match fe.get_vring_base(p(t[1]) as usize) { Ok(v) => format!("ok:{:x}", v), Err(e) => verr(&e) },
        "set_vring_call" | "set_vring_kick" | "set_vring_err" => {
            // the API takes an EventFd; to keep identity observable it is built over a fresh memfd-numbered object:
            // EventFd::from_raw_fd accepts any descriptor and only `as_raw_fd()` is used by the frontend
            let fd = objs.lock().unwrap().fresh_memfd(0);
            let ev = unsafe { vmm_sys_util::eventfd::EventFd::from_raw_fd(fd) };
            let q = p(t[1]) as usize;
            let r = match t[0] {
                "set_vring_call" => fe.set_vring_call(q, &ev),
                "set_vring_kick" => fe.set_vring_kick(q, &ev),
                _ => fe.set_vring_err(q, &ev),
            };
            drop(ev);
            match r { Ok(()) => "ok".into(), Err(e) => verr(&e) }
        }
        "get_protocol_features" => match fe.get_protocol_features() { Ok(v) => format!("ok:{:x}", v.bits()), Err(e) => verr(&e) },
        "set_protocol_features" => match fe.set_protocol_features(VhostUserProtocolFeatures::from_bits_retain(p(t[1]))) {
            Ok(()) => "ok".into(), Err(e) => verr(&e) },
        "get_queue_num" => match fe.get_queue_num() { Ok(v) => format!("ok:{:x}", v), Err(e) => verr(&e) },
        "reset_device" => match fe.reset_device() { Ok(()) => "ok".into(), Err(e) => verr(&e) },
        "set_vring_enable" => match fe.set_vring_enable(p(t[1]) as usize, t[2] == "1") { Ok(()) => "ok".into(), Err(e) => verr(&e) },
        "get_config" => {
            let buf = vec![0u8; p(t[4]) as usize];
            match fe.get_config(p(t[1]) as u32, p(t[2]) as u32, VhostUserConfigFlags::from_bits_retain(p(t[3]) as u32), &buf) {
                Ok((c, pl)) => format!("ok:{:x},{:x},{:x}:{}", { c.offset }, { c.size }, { c.flags }, bytes_to_hex(&pl)),
                Err(e) => verr(&e),
            }
        }
        "set_config" => {
            let buf = hex_to_bytes(t[3]);
            match fe.set_config(p(t[1]) as u32, VhostUserConfigFlags::from_bits_retain(p(t[2]) as u32), &buf) {
                Ok(()) => "ok".into(), Err(e) => verr(&e) }
        }
        "set_backend_req_fd" => {
            let (a, b) = pair();
            // identity of a socket is observable through fstat as well
            objs.lock().unwrap().map.insert(ino_of(a.as_raw_fd()).unwrap(), 0);
            let r = fe.set_backend_request_fd(&a);
            drop(b);
            match r { Ok(()) => "ok".into(), Err(e) => verr(&e) }
        }
        "get_shared_object" => {
            let u = u128::from_str_radix(t[1], 16).unwrap();
            let msg = VhostUserSharedMsg { uuid: uuid::Uuid::from_bytes(u.to_le_bytes()) };
            match fe.get_shared_object(&msg) { Ok(f) => format!("ok:F={}", same_file(&f)), Err(e) => verr(&e) }
        }
        "get_inflight_fd" => {
            let inf = VhostUserInflight::new(p(t[1]), p(t[2]), p(t[3]) as u16, p(t[4]) as u16);
            match fe.get_inflight_fd(&inf) {
                Ok((i, f)) => format!("ok:{:x},{:x},{:x},{:x}:F={}", { i.mmap_size }, { i.mmap_offset }, { i.num_queues }, { i.queue_size }, same_file(&f)),
                Err(e) => verr(&e),
            }
        }
        "set_inflight_fd" => {
            let inf = VhostUserInflight::new(p(t[1]), p(t[2]), p(t[3]) as u16, p(t[4]) as u16);
            let fd = if t.len() > 5 && t[5] == "badfd" { -1 } else {
                let fd = objs.lock().unwrap().fresh_memfd(0);
                { made.push(fd); made_ino.push(ino_of(fd)); }
                fd
            };
            match fe.set_inflight_fd(&inf, fd) { Ok(()) => "ok".into(), Err(e) => verr(&e) }
        }
        "get_max_mem_slots" => match fe.get_max_mem_slots() { Ok(v) => format!("ok:{:x}", v), Err(e) => verr(&e) },
        "add_mem_region" | "remove_mem_region" => {
            let fd = if t.len() > 5 && t[5] == "badfd" { -1 } else if t[0] == "add_mem_region" {
                let fd = objs.lock().unwrap().fresh_memfd(0);
                { made.push(fd); made_ino.push(ino_of(fd)); }
                fd
            } else { -1 };
            let r = VhostUserMemoryRegionInfo { guest_phys_addr: p(t[1]), memory_size: p(t[2]), userspace_addr: p(t[3]),
                                                mmap_offset: p(t[4]), mmap_handle: fd };
            let res = if t[0] == "add_mem_region" { fe.add_mem_region(&r) } else { fe.remove_mem_region(&r) };
            match res { Ok(()) => "ok".into(), Err(e) => verr(&e) }
        }
        "get_shmem_config" => match fe.get_shmem_config() {
            Ok(c) => {
                let n = c.nregions;
                let mut b = Vec::new();
                let sizes = c.memory_sizes;
                for s in sizes.iter() { b.extend_from_slice(&s.to_le_bytes()); }
                while b.last() == Some(&0) { b.pop(); }
                format!("ok:{:x}:{}", n, bytes_to_hex(&b))
            }
            Err(e) => verr(&e),
        },
        "set_device_state_fd" => {
            let fd = objs.lock().unwrap().fresh_memfd(0);
            let owned = unsafe { OwnedFd::from_raw_fd(fd) };
            let dir = if t[1] == "0" { VhostTransferStateDirection::SAVE } else { VhostTransferStateDirection::LOAD };
            match fe.set_device_state_fd(dir, VhostTransferStatePhase::STOPPED, owned) {
                Ok(None) => "ok:none".into(),
                Ok(Some(f)) => format!("ok:F={}", same_file(&f)),
                Err(e) => verr(&e),
            }
        }
        "check_device_state" => match fe.check_device_state() { Ok(()) => "ok".into(), Err(e) => verr(&e) },
        "postcopy_advise" => match fe.postcopy_advise() { Ok(f) => format!("ok:F={}", same_file(&f)), Err(e) => verr(&e) },
        "postcopy_listen" => match fe.postcopy_listen() { Ok(()) => "ok".into(), Err(e) => verr(&e) },
        "postcopy_end" => match fe.postcopy_end() { Ok(()) => "ok".into(), Err(e) => verr(&e) },
        "set_hdr_flags" => {
            fe.set_hdr_flags(VhostUserHeaderFlag::from_bits_retain(p(t[1]) as u32));
            "ok".into()
        }
        _ => "bad-op".into(),
    };
    // descriptors that were only lent to the library for transmission must still be open (and be the same objects)
    let mut lent_closed = 0;
    for (fd, ino) in made.iter().zip(made_ino.iter()) {
        if ino_of(*fd) != *ino {
            lent_closed += 1;
        }
    }
    for fd in made {
        close(fd);
    }
    (r, lent_closed)
}

fn readable(fd: RawFd, ms: i32) -> bool {
    let mut pfd = libc::pollfd { fd, events: libc::POLLIN, revents: 0 };
    let r = unsafe { libc::poll(&mut pfd, 1, ms) };
    r > 0 && (pfd.revents & (libc::POLLIN | libc::POLLHUP)) != 0
}

pub fn run(line: &str) -> String {
    let rest = line.strip_prefix("fe").unwrap_or(line).trim();
    let mut parts: Vec<&str> = rest.split('|').map(|s| s.trim()).collect();
    let head: Vec<&str> = parts.remove(0).split_whitespace().collect();
    let mq = parse_hex_u64(kv(&head, "mq").unwrap_or("2"));
    let mode = kv(&head, "mode").unwrap_or("srv").to_string();
    let (fe_sock, other) = pair();
    let fe_fd = fe_sock.as_raw_fd();
    let other_fd = other.as_raw_fd();
    let objs = Arc::new(Mutex::new(Objs { map: HashMap::new(), next: 1 }));
    let fe = Arc::new(Mutex::new(Some(Frontend::from_stream(fe_sock, mq))));
    // srv mode: real request server with the recording handler
    let rec = Rec::new();
    let shared = rec.sh.clone();
    let backend = Arc::new(Mutex::new(rec));
    let mut handler = if mode == "srv" { Some(BackendReqHandler::from_stream(other.try_clone().unwrap(), backend.clone())) } else { None };
    let mut other = Some(other);
    let mut obs: Vec<String> = Vec::new();
    let mut dead = false;
    for st in parts.iter().filter(|s| !s.is_empty()) {
        if dead {
            obs.push("ret=skipped".to_string());
            continue;
        }
        let toks: Vec<String> = st.split_whitespace().map(|s| s.to_string()).collect();
        let tref: Vec<&str> = toks.iter().map(|s| s.as_str()).collect();
        let hout = HOut::parse(kv(&tref, "h").unwrap_or("ok"));
        let rscript = kv(&tref, "r").map(|s| s.to_string());
        {
            let mut sh = shared.lock().unwrap();
            sh.next = hout;
            sh.calls.clear();
            sh.objs = objs.lock().unwrap().map.clone();
        }
        // run the operation on a helper thread
        let (tx, rx) = mpsc::channel();
        let fe2 = fe.clone();
        let objs2 = objs.clone();
        let optoks: Vec<String> = toks.iter().filter(|t| !t.starts_with("h=") && !t.starts_with("r=")).cloned().collect();
        let sh2 = shared.clone();
        let tid = Arc::new(AtomicI32::new(0));
        let tid2 = tid.clone();
        let mut quiet = 0u32;
        let th = std::thread::spawn(move || {
            tid2.store(gettid(), Ordering::SeqCst);
            let mut g = fe2.lock().unwrap();
            // identities must be visible to the recording handler as soon as they are created
            let r = do_op(g.as_mut().unwrap(), &optoks, &objs2, &sh2);
            let _ = tx.send(r);
        });
        let start = Instant::now();
        let mut wire: Vec<u8> = Vec::new();
        let mut wire_fds: Vec<String> = Vec::new();
        let mut replied = false;
        let mut ret: Option<(String, usize)> = None;
        loop {
            if let Ok(r) = rx.try_recv() {
                ret = Some(r);
            }
            // serve / collect
            if mode == "srv" {
                while handler.is_some() && readable(other_fd, 0) {
                    // identities are registered before the request is written: a copy taken once the request is
                    // readable contains every descriptor it carries (taken earlier it may race with their creation)
                    shared.lock().unwrap().objs = objs.lock().unwrap().map.clone();
                    let r = handler.as_mut().unwrap().handle_request();
                    // the file the handler returned, for "same open file" checks
                    if r.is_err() {
                        // VhostUserDaemon stops serving and closes the connection on any request error
                        handler = None;
                        other = None;
                    }
                }
            } else if other.is_some() {
                set_nonblocking(other_fd, true);
                let (b, fds, _eof) = drain(other_fd);
                set_nonblocking(other_fd, false);
                wire.extend(b);
                {
                    let o = objs.lock().unwrap();
                    for fd in fds {
                        wire_fds.push(match ino_of(fd).and_then(|i| o.map.get(&i).cloned()) { Some(id) => id.to_string(), None => "?".into() });
                        close(fd);
                    }
                }
                if !replied && wire.len() >= 12 {
                    let size = u32::from_le_bytes([wire[8], wire[9], wire[10], wire[11]]) as usize;
                    if wire.len() >= 12 + size {
                        replied = true;
                        match rscript.as_deref() {
                            None | Some("-") => {}
                            Some("close") => {
                                other = None;
                            }
                            Some(s) => {
                                let (hexs, n) = match s.split_once('/') { Some((a, b)) => (a, b.parse::<usize>().unwrap_or(0)), None => (s, 0) };
                                let bytes = hex_to_bytes(hexs);
                                let mut fds = Vec::new();
                                for _ in 0..n {
                                    let fd = new_memfd(0);
                                    let mut o = objs.lock().unwrap();
                                    let id = 1000 + o.next;
                                    o.map.insert(ino_of(fd).unwrap(), id);
                                    o.next += 0;
                                    fds.push(fd);
                                }
                                if !bytes.is_empty() {
                                    let _ = sendmsg(other_fd, &bytes, &fds, 0);
                                }
                                for fd in fds {
                                    close(fd);
                                }
                                if tref.contains(&"then-close") {
                                    other = None;
                                }
                            }
                        }
                    }
                }
            }
            if ret.is_some() {
                // one more collection round after completion (fire-and-forget requests are already queued)
                if mode == "srv" {
                    if handler.is_none() || !readable(other_fd, 0) { break; }
                } else {
                    if other.is_none() || !readable(other_fd, 0) { break; }
                }
                continue;
            }
            // `blocked` is decided by observation, not by a short timer (a loaded machine must not turn a slow call into
            // `blocked`): the calling thread sleeps, nothing is queued on its socket, the other side has nothing left to
            // read and (peer mode) has played its reply script — for QUIET_ROUNDS consecutive rounds; WATCHDOG is the fallback
            let other_idle = if mode == "srv" { handler.is_none() || !readable(other_fd, 0) } else { other.is_none() || (!readable(other_fd, 0) && (replied || matches!(rscript.as_deref(), None | Some("-")))) };
            if thread_sleeping(tid.load(Ordering::SeqCst)) && pending_bytes(fe_fd) == 0 && other_idle {
                quiet += 1;
                if quiet >= QUIET_ROUNDS {
                    if let Ok(r) = rx.try_recv() {
                        ret = Some(r);
                        continue;
                    }
                    break;
                }
            } else {
                quiet = 0;
            }
            if start.elapsed() > WATCHDOG {
                break;
            }
            if mode == "srv" {
                if handler.is_some() { readable(other_fd, 2); } else { std::thread::sleep(Duration::from_millis(1)); }
            } else if other.is_some() {
                readable(other_fd, 2);
            } else {
                std::thread::sleep(Duration::from_millis(1));
            }
        }
        let (ret, lent_closed) = match ret {
            Some(r) => {
                let _ = th.join();
                r
            }
            None => {
                // blocked: close the other end to unblock, then stop
                handler = None;
                other = None;
                let _ = th.join();
                dead = true;
                ("blocked".to_string(), 0)
            }
        };
        if mode == "srv" {
            let calls = {
                let sh = shared.lock().unwrap();
                if sh.calls.is_empty() { "-".to_string() } else { sh.calls.join(";") }
            };
            obs.push(format!("ret={} c={} lc={}", ret, calls, lent_closed));
        } else {
            // the 4 tail padding bytes of VhostUserInflight are not defined by anything: mask them
            if wire.len() == 36 && (wire[0] == 31 || wire[0] == 32) && wire[1..4] == [0, 0, 0] {
                for b in wire[32..36].iter_mut() {
                    *b = 0;
                }
            }
            obs.push(format!("ret={} w={} wf={} lc={}", ret, bytes_to_hex(&wire), if wire_fds.is_empty() { "-".to_string() } else { wire_fds.join(",") }, lent_closed));
        }
    }
    drop(handler);
    drop(other);
    fe.lock().unwrap().take();
    {
        let mut sh = shared.lock().unwrap();
        sh.backend = None;
        sh.gpu = None;
        sh.kept.clear();
    }
    drop(backend);
    let all = shared.lock().unwrap().all_objs(&objs.lock().unwrap().map);
    let leaked = open_idents(&all);
    obs.push(format!("L={}", if leaked.is_empty() { "-".to_string() } else { leaked.iter().map(|x| x.to_string()).collect::<Vec<_>>().join(",") }));
    obs.join(" | ")
}
