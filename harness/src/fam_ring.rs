//! family `ring` (C11): ring state machine and kick dispatch of a real `VhostUserDaemon`.
//!
//! scenario:  `ring cfg=mutex|rwlock q=<rings> | <op> | <op> | ...`   (numbers hex; one worker owns every ring)
//!   ops:
//!   `feat 0|1`          SET_FEATURES without / with VHOST_USER_F_PROTOCOL_FEATURES (bit 30); VERSION_1 is always acked
//!   `kick <r> new|none` SET_VRING_KICK with a fresh non-blocking eventfd / with the no-descriptor flag
//!   `call <r> new|none` SET_VRING_CALL likewise
//!   `en <r> 0|1`        SET_VRING_ENABLE
//!   `base <r>`          GET_VRING_BASE
//!   `reset`             RESET_DEVICE (the protocol feature is negotiated during setup)
//!   `gk <r> c|p`        guest kick: write 1 to the descriptor most recently sent for ring r with `kick r new` (`c`), or to the
//!                       one sent before that (`p`); no such descriptor (or closed by `pc`) = nothing happens
//!   `pc <r>`            the front-end closes its copy of the descriptor `gk r p` refers to
//!   Setup before the history: SET_OWNER, GET_FEATURES, GET/SET_PROTOCOL_FEATURES (REPLY_ACK, RESET_DEVICE, MQ), and
//!   SET_VRING_BASE r := 0x100 + r for every ring (the ring's identity).  No SET_FEATURES: the history starts with no
//!   features acknowledged and every ring stopped and disabled.  Control messages carry NEED_REPLY, so a step is complete
//!   when its acknowledgement (for GET_VRING_BASE: its reply) arrived; after every step `Bench::barrier` makes sure that
//!   everything readable has been dispatched.
//! observation: one token per step, `<reply>/<dispatches>/<callbits>` (callbits: per ring, 1 = the ring holds a call descriptor):
//!   reply: `ok` `fail` `closed` `timeout`, `b<next_avail>` (GET_VRING_BASE), `-` (guest-side step)
//!   dispatches: the `handle_event` calls logged during the step, sorted, `+`-joined, each `t<thread>e<device_event>q<ring>`
//!   where `<ring>` is the identity (base - 0x100) of slice[device_event] (`?` if it is not a ring of the scenario);
//!   `-` = none; a trailing `!` = the worker no longer answers (it exited or blocks) — from then on no barrier is attempted;
//!   `storm` = handler calls keep coming although nothing was written (after a step with calls a second barrier is run: any
//!   call logged during it is unprovoked — the worker spins on a readable descriptor that nobody consumes): the scenario
//!   ends there and the remaining steps are reported as `x`.
use std::os::fd::{AsRawFd, OwnedFd};
use std::time::Duration;

use vhost_user_backend::{VringMutex, VringRwLock, VringT};
use vm_memory::{GuestMemoryAtomic, GuestMemoryMmap};

use crate::daemon::{self, Bench, Config, Ev, LockKind, GM};
use crate::peer::{self, codes, hflags, pfeat, vfeat, Ack, PeerErr};
use crate::util::*;

pub const BASE0: u32 = 0x100;

fn setup<V>(b: &mut Bench<V, ()>, n: usize) -> Result<(), &'static str>
where
    V: VringT<GM<()>> + Clone + Send + Sync + 'static,
{
    b.peer.send_req(codes::SET_OWNER, 0, &[], &[]).map_err(|_| "owner")?;
    let feats = b.peer.get_u64(codes::GET_FEATURES).map_err(|_| "get_features")?;
    if feats & (1 << vfeat::PROTOCOL_FEATURES) == 0 {
        return Err("no-protocol-features");
    }
    let proto = b.peer.get_u64(codes::GET_PROTOCOL_FEATURES).map_err(|_| "get_protocol_features")?;
    let want = (1 << pfeat::REPLY_ACK) | (1 << pfeat::RESET_DEVICE) | (1 << pfeat::MQ);
    if proto & want != want {
        return Err("protocol-features-missing");
    }
    b.peer.send_req(codes::SET_PROTOCOL_FEATURES, 0, &peer::b_u64(want), &[]).map_err(|_| "set_protocol_features")?;
    b.peer.reply_ack = true;
    for q in 0..n {
        if b.peer.set(codes::SET_VRING_BASE, &peer::b_vring_state(q as u32, BASE0 + q as u32), &[]) != Ack::Ok {
            return Err("base");
        }
    }
    Ok(())
}

fn fmt_dispatch(e: &Ev) -> Option<String> {
    if let Ev::HandleEvent { device_event, thread_id, rings, .. } = e {
        let q = rings
            .get(*device_event as usize)
            .and_then(|r| if (r.next_avail as u32) >= BASE0 { Some(format!("{:x}", r.next_avail as u32 - BASE0)) } else { None })
            .unwrap_or("?".into());
        Some(format!("t{:x}e{:x}q{}", thread_id, device_event, q))
    } else {
        None
    }
}

fn run_generic<V>(lk: LockKind, n: usize, ops: &[Vec<&str>]) -> String
where
    V: VringT<GM<()>> + Clone + Send + Sync + 'static,
{
    let cfg = Config {
        num_queues: n,
        max_queue_size: 1024,
        queues_per_thread: vec![0xffff_ffff],
        exit_events: true,
        lock: lk,
        protocol_features: Config::default().protocol_features | (1 << pfeat::RESET_DEVICE),
        ..Config::default()
    };
    let mem: GM<()> = GuestMemoryAtomic::new(GuestMemoryMmap::<()>::new());
    let mut b: Bench<V, ()> = daemon::start(cfg, mem);
    let short = Duration::from_millis(env_ms("VERIF_RING_WATCHDOG_MS", 100));
    b.watchdog = short;
    b.peer.set_timeout_ms(2000);
    if let Err(w) = setup(&mut b, n) {
        return format!("setup-failed:{}", w);
    }
    // make sure the worker thread is up (and has named itself) before anything is judged with the short watchdog
    b.watchdog = Duration::from_millis(env_ms("VERIF_LONG_WATCHDOG_MS", 5000));
    if !b.barrier(0) {
        return "setup-failed:worker-not-running".into();
    }
    b.watchdog = short;
    // descriptors sent for each ring with `kick r new`, newest last; `None` = closed by the front-end
    let mut sent: Vec<Vec<Option<OwnedFd>>> = (0..n.max(8)).map(|_| Vec::new()).collect();
    let mut calls: Vec<OwnedFd> = Vec::new();
    let mut out: Vec<String> = Vec::new();
    let mut dead = false;
    let mut storm = false;
    for op in ops {
        if storm {
            out.push("x".into());
            continue;
        }
        let from = b.log.len();
        let r = || -> usize { parse_hex_u64(op[1]) as usize };
        let reply: String = match op[0] {
            "feat" => {
                // `feat z`: the empty feature word (a legacy front-end acknowledging nothing): like `feat 0` it lacks bit 30
                let v: u64 = if op[1] == "z" { 0 } else { (1 << vfeat::VERSION_1) | if op[1] == "1" { 1 << vfeat::PROTOCOL_FEATURES } else { 0 } };
                b.peer.set(codes::SET_FEATURES, &peer::b_u64(v), &[]).tag().into()
            }
            "kick" | "call" => {
                let code = if op[0] == "kick" { codes::SET_VRING_KICK } else { codes::SET_VRING_CALL };
                if op[2] == "new" {
                    let e = peer::eventfd(true);
                    let a = b.peer.set(code, &peer::b_vring_fd(r() as u8, true), &[e.as_raw_fd()]);
                    if op[0] == "kick" {
                        if r() < sent.len() {
                            sent[r()].push(Some(e));
                        }
                    } else {
                        calls.push(e);
                    }
                    a.tag().into()
                } else {
                    b.peer.set(code, &peer::b_vring_fd(r() as u8, false), &[]).tag().into()
                }
            }
            "en" => b.peer.set(codes::SET_VRING_ENABLE, &peer::b_vring_state(r() as u32, parse_hex_u64(op[2]) as u32), &[]).tag().into(),
            "reset" => b.peer.set(codes::RESET_DEVICE, &[], &[]).tag().into(),
            "base" => match b.peer.call(codes::GET_VRING_BASE, &peer::b_vring_state(r() as u32, 0), &[]) {
                Ok((h, body, _)) if h.request == codes::GET_VRING_BASE && h.flags & hflags::REPLY != 0 && body.len() == 8 => {
                    let idx = u32::from_le_bytes(body[0..4].try_into().unwrap());
                    let num = u32::from_le_bytes(body[4..8].try_into().unwrap());
                    if idx as usize == r() {
                        format!("b{:x}", num)
                    } else {
                        format!("b{:x}@{:x}", num, idx)
                    }
                }
                Ok(_) => "fail".into(),
                Err(PeerErr::Timeout) => "timeout".into(),
                Err(_) => "closed".into(),
            },
            "gk" => {
                let v = &sent[r()];
                let k = if op[2] == "c" { v.len().checked_sub(1) } else { v.len().checked_sub(2) };
                if let Some(Some(fd)) = k.map(|k| v[k].as_ref()) {
                    peer::efd_write(fd.as_raw_fd(), 1).expect("guest kick");
                }
                "-".into()
            }
            "pc" => {
                let v = &mut sent[r()];
                if v.len() >= 2 {
                    let k = v.len() - 2;
                    v[k] = None;
                }
                "-".into()
            }
            other => panic!("unknown op {}", other),
        };
        if !dead && !patient_barrier(&mut b, short) {
            dead = true;
        }
        let mut ds: Vec<String> = b.events_since(from).iter().filter_map(fmt_dispatch).collect();
        // a handler call that repeats although nothing new was written means that the worker spins on a descriptor nobody
        // consumes: every further batch (a barrier needs two) brings more calls
        let mut spinning = false;
        if !dead && !ds.is_empty() {
            let from2 = b.log.len();
            if !patient_barrier(&mut b, short) {
                dead = true;
            }
            spinning = b.events_since(from2).iter().filter_map(fmt_dispatch).next().is_some();
        }
        ds.sort();
        let d = if spinning {
            storm = true;
            "storm".to_string()
        } else {
            let mut s = if ds.is_empty() { if dead { String::new() } else { "-".to_string() } } else { ds.join("+") };
            if dead {
                s.push('!');
            }
            s
        };
        // which rings hold a call descriptor now (C11: GET_VRING_BASE drops the ring's kick and call descriptors)
        let callbits: String = {
            let g = b.shared.vrings.lock().unwrap();
            match g.get(&0) {
                Some(vs) => vs.iter().map(|v| if v.get_ref().get_call().is_some() { '1' } else { '0' }).collect(),
                None => "?".into(),
            }
        };
        out.push(format!("{}/{}/{}", reply, d, callbits));
    }
    b.finish();
    drop(sent);
    drop(calls);
    if out.is_empty() {
        "-".into()
    } else {
        out.join(" ")
    }
}

/// number of live threads of this process that are vring workers (`thread::Builder::name("vring_worker")` in handler.rs).
/// Used to tell "the worker thread ended" from "the machine is slow": scenarios run one daemon at a time and `Bench::finish`
/// joins its workers, so a count of 0 means that this scenario's worker is gone.
pub fn worker_threads_alive() -> usize {
    let mut n = 0;
    if let Ok(rd) = std::fs::read_dir("/proc/self/task") {
        for e in rd.flatten() {
            if let Ok(c) = std::fs::read_to_string(e.path().join("comm")) {
                if c.trim() == "vring_worker" {
                    n += 1;
                }
            }
        }
    }
    n
}

/// barrier that does not mistake a slow machine for a dead worker: after the short watchdog expired the worker thread is
/// looked up; while it exists the barrier is retried with a long watchdog
pub fn patient_barrier<V, B: vm_memory::bitmap::Bitmap + 'static>(b: &mut Bench<V, B>, short: Duration) -> bool {
    b.watchdog = short;
    if b.barrier(0) {
        return true;
    }
    if worker_threads_alive() == 0 {
        return false;
    }
    b.watchdog = Duration::from_millis(env_ms("VERIF_LONG_WATCHDOG_MS", 5000));
    let ok = b.barrier(0);
    b.watchdog = short;
    ok
}

pub fn env_ms(name: &str, default: u64) -> u64 {
    std::env::var(name).ok().and_then(|v| v.parse().ok()).unwrap_or(default)
}

pub fn run(line: &str) -> String {
    let toks: Vec<&str> = line.split_whitespace().collect();
    let head: Vec<&str> = toks.iter().take_while(|t| **t != "|").cloned().collect();
    let lk = LockKind::Mutex;
    let n = kv(&head, "q").map(|s| parse_hex_u64(s) as usize).unwrap_or(2);
    let mut ops: Vec<Vec<&str>> = Vec::new();
    let mut cur: Vec<&str> = Vec::new();
    for t in toks.iter().skip(head.len()) {
        if *t == "|" {
            if !cur.is_empty() {
                ops.push(std::mem::take(&mut cur));
            }
        } else {
            cur.push(t);
        }
    }
    if !cur.is_empty() {
        ops.push(cur);
    }
    for op in &ops {
        let want = match op[0] {
            "reset" => 1,
            "feat" | "base" | "pc" => 2,
            _ => 3,
        };
        assert!(op.len() == want, "malformed op");
    }
    if kv(&head, "cfg") == Some("rwlock") {
        run_generic::<VringRwLock<GM<()>>>(lk, n, &ops)
    } else {
        run_generic::<VringMutex<GM<()>>>(lk, n, &ops)
    }
}
