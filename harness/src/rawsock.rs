//! Raw socket helpers of the harness' independent peer: sendmsg/recvmsg with SCM_RIGHTS, fresh
//! file objects with a known identity, descriptor-table inspection.
#![allow(dead_code)]
use std::collections::HashMap;
use std::os::unix::io::{AsRawFd, FromRawFd, RawFd};
use std::os::unix::net::UnixStream;

/// identity of an open file object
pub type Ino = (u64, u64);

pub fn ino_of(fd: RawFd) -> Option<Ino> {
    let mut st: libc::stat = unsafe { std::mem::zeroed() };
    let r = unsafe { libc::fstat(fd, &mut st) };
    if r != 0 {
        None
    } else {
        Some((st.st_dev as u64, st.st_ino as u64))
    }
}

/// a fresh memfd (unique inode) of `size` bytes
pub fn new_memfd(size: u64) -> RawFd {
    let name = std::ffi::CString::new("vh").unwrap();
    let fd = unsafe { libc::memfd_create(name.as_ptr(), libc::MFD_CLOEXEC) };
    assert!(fd >= 0, "memfd_create failed");
    if size > 0 {
        let r = unsafe { libc::ftruncate(fd, size as libc::off_t) };
        assert_eq!(r, 0, "ftruncate failed");
    }
    fd
}

pub fn new_eventfd(nonblock: bool) -> RawFd {
    let fd = unsafe { libc::eventfd(0, libc::EFD_CLOEXEC | if nonblock { libc::EFD_NONBLOCK } else { 0 }) };
    assert!(fd >= 0);
    fd
}

pub fn close(fd: RawFd) {
    unsafe { libc::close(fd) };
}

/// one `sendmsg` carrying `data` and `fds`; returns bytes accepted or -errno
pub fn sendmsg(sock: RawFd, data: &[u8], fds: &[RawFd], flags: i32) -> isize {
    let mut iov = libc::iovec { iov_base: data.as_ptr() as *mut libc::c_void, iov_len: data.len() };
    let mut msg: libc::msghdr = unsafe { std::mem::zeroed() };
    msg.msg_iov = &mut iov;
    msg.msg_iovlen = 1;
    let space = unsafe { libc::CMSG_SPACE((fds.len() * 4) as u32) } as usize;
    let mut cbuf = vec![0u64; (space + 7) / 8 + 1];
    if !fds.is_empty() {
        msg.msg_control = cbuf.as_mut_ptr() as *mut libc::c_void;
        msg.msg_controllen = space as _;
        unsafe {
            let c = libc::CMSG_FIRSTHDR(&msg);
            (*c).cmsg_level = libc::SOL_SOCKET;
            (*c).cmsg_type = libc::SCM_RIGHTS;
            (*c).cmsg_len = libc::CMSG_LEN((fds.len() * 4) as u32) as _;
            std::ptr::copy_nonoverlapping(fds.as_ptr() as *const u8, libc::CMSG_DATA(c), fds.len() * 4);
        }
    }
    let r = unsafe { libc::sendmsg(sock, &msg, flags | libc::MSG_NOSIGNAL) };
    if r < 0 {
        -(std::io::Error::last_os_error().raw_os_error().unwrap_or(1) as isize)
    } else {
        r
    }
}

/// one `recvmsg` of up to `cap` bytes and up to 64 descriptors; returns (bytes, fds) or Err(errno); Ok(empty) = EOF
pub fn recvmsg(sock: RawFd, cap: usize, flags: i32) -> Result<(Vec<u8>, Vec<RawFd>), i32> {
    let mut buf = vec![0u8; cap];
    let mut iov = libc::iovec { iov_base: buf.as_mut_ptr() as *mut libc::c_void, iov_len: cap };
    let mut msg: libc::msghdr = unsafe { std::mem::zeroed() };
    msg.msg_iov = &mut iov;
    msg.msg_iovlen = 1;
    let space = unsafe { libc::CMSG_SPACE(64 * 4) } as usize;
    let mut cbuf = vec![0u64; (space + 7) / 8 + 1];
    msg.msg_control = cbuf.as_mut_ptr() as *mut libc::c_void;
    msg.msg_controllen = space as _;
    let r = unsafe { libc::recvmsg(sock, &mut msg, flags | libc::MSG_CMSG_CLOEXEC) };
    if r < 0 {
        return Err(std::io::Error::last_os_error().raw_os_error().unwrap_or(1));
    }
    buf.truncate(r as usize);
    let mut fds = Vec::new();
    unsafe {
        let mut c = libc::CMSG_FIRSTHDR(&msg);
        while !c.is_null() {
            if (*c).cmsg_level == libc::SOL_SOCKET && (*c).cmsg_type == libc::SCM_RIGHTS {
                let n = ((*c).cmsg_len as usize - libc::CMSG_LEN(0) as usize) / 4;
                let p = libc::CMSG_DATA(c) as *const RawFd;
                for i in 0..n {
                    fds.push(std::ptr::read_unaligned(p.add(i)));
                }
            }
            c = libc::CMSG_NXTHDR(&msg, c);
        }
    }
    Ok((buf, fds))
}

/// drain everything currently readable (non-blocking); returns (bytes, number of fds, eof seen, idents of fds)
pub fn drain(sock: RawFd) -> (Vec<u8>, Vec<RawFd>, bool) {
    let mut out = Vec::new();
    let mut fds = Vec::new();
    let mut eof = false;
    loop {
        match recvmsg(sock, 65536, libc::MSG_DONTWAIT) {
            Ok((b, f)) => {
                let had_fds = !f.is_empty();
                fds.extend(f);
                if b.is_empty() && !had_fds {
                    eof = true;
                    break;
                }
                out.extend(b);
            }
            Err(e) if e == libc::EAGAIN || e == libc::EWOULDBLOCK => break,
            Err(e) if e == libc::EINTR => continue,
            Err(_) => {
                eof = true;
                break;
            }
        }
    }
    (out, fds, eof)
}

/// which identities of `objs` are referenced by some open descriptor of this process
pub fn open_idents(objs: &HashMap<Ino, u32>) -> Vec<u32> {
    let mut v = Vec::new();
    if let Ok(rd) = std::fs::read_dir("/proc/self/fd") {
        for e in rd.flatten() {
            if let Ok(n) = e.file_name().to_string_lossy().parse::<i32>() {
                if let Some(i) = ino_of(n) {
                    if let Some(id) = objs.get(&i) {
                        v.push(*id);
                    }
                }
            }
        }
    }
    v.sort();
    v
}

pub fn pair() -> (UnixStream, UnixStream) {
    UnixStream::pair().expect("socketpair")
}

pub fn shutdown_wr(s: &UnixStream) {
    let _ = s.shutdown(std::net::Shutdown::Write);
}

pub fn set_nonblocking(fd: RawFd, on: bool) {
    unsafe {
        let fl = libc::fcntl(fd, libc::F_GETFL);
        libc::fcntl(fd, libc::F_SETFL, if on { fl | libc::O_NONBLOCK } else { fl & !libc::O_NONBLOCK });
    }
}

pub fn stream_from(fd: RawFd) -> UnixStream {
    unsafe { UnixStream::from_raw_fd(fd) }
}

pub fn fd_of(s: &UnixStream) -> RawFd {
    s.as_raw_fd()
}
