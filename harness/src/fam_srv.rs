//! family `srv`: the real `BackendReqHandler<Mutex<Rec>>` fed by the raw peer, one `handle_request()` per step.
//!
//! `srv <step> | <step> | ...`
//! step := `m <bytes hex> f<nfds> h=<outcome> [close]` — the bytes are written with ONE sendmsg carrying `nfds`
//! fresh memfds (identities numbered 1.. in order of creation), then `handle_request()` is called once.
//! observation per step: `r=<ok|err.<class>|blocked> c=<call|-> o=<hex written|-> n=<fds written>`; last item `L=<leaked ids|->`.
use crate::rawsock::*;
use crate::rec_fe::{gettid, pending_bytes, thread_sleeping, QUIET_ROUNDS, WATCHDOG};
use std::sync::atomic::{AtomicI32, Ordering};
use crate::rec::*;
use crate::util::*;
use std::os::unix::io::AsRawFd;
use std::sync::mpsc;
use std::sync::{Arc, Mutex};
use std::time::Duration;
use vhost::vhost_user::BackendReqHandler;

pub fn run(line: &str) -> String {
    let rest = line.strip_prefix("srv").unwrap_or(line).trim();
    let steps: Vec<&str> = rest.split('|').map(|s| s.trim()).filter(|s| !s.is_empty()).collect();
    let (srv_sock, peer) = pair();
    let peer_fd = peer.as_raw_fd();
    let mut peer = Some(peer);
    let rec = Rec::new();
    let shared = rec.sh.clone();
    let backend = Arc::new(Mutex::new(rec));
    let handler = Arc::new(Mutex::new(Some(BackendReqHandler::from_stream(srv_sock.try_clone().unwrap(), backend.clone()))));
    let mut obs: Vec<String> = Vec::new();
    let mut next_id: u32 = 1;
    let mut dead = false;
    for st in steps {
        if dead {
            obs.push("r=skipped c=- o=- n=0".to_string());
            continue;
        }
        let toks: Vec<&str> = st.split_whitespace().collect();
        assert!(toks[0] == "m", "bad step");
        // several segments: `<hex>+<hex>+...`, each written with its own sendmsg; descriptors go with the first
        let segs: Vec<Vec<u8>> = toks[1].split('+').map(hex_to_bytes).collect();
        let seq = toks.contains(&"seq");
        let nfds: usize = toks[2][1..].parse().unwrap();
        let hout = HOut::parse(kv(&toks, "h").unwrap_or("ok"));
        let close_after = toks.contains(&"close");
        // `rst`: the peer closes its socket completely while data the server sent is still unread in its queue: the
        // server's next read past what is queued ends with ECONNRESET instead of end-of-stream
        let rst_after = toks.contains(&"rst");
        // fresh objects
        let mut fds = Vec::new();
        {
            let mut sh = shared.lock().unwrap();
            for _ in 0..nfds {
                let fd = new_memfd(0);
                sh.objs.insert(ino_of(fd).unwrap(), next_id);
                next_id += 1;
                fds.push(fd);
            }
            sh.next = hout;
            sh.calls.clear();
        }
        // `bf<n>`: n more descriptors attached to the last segment (descriptors in the middle of a message)
        let nbody: usize = toks.iter().find(|t| t.starts_with("bf")).and_then(|t| t[2..].parse().ok()).unwrap_or(0);
        let mut body_fds = Vec::new();
        if segs.len() > 1 {
            let mut sh = shared.lock().unwrap();
            for _ in 0..nbody {
                let fd = new_memfd(0);
                sh.objs.insert(ino_of(fd).unwrap(), next_id);
                next_id += 1;
                body_fds.push(fd);
            }
        }
        let last = segs.len() - 1;
        let write_seg = |i: usize| {
            let bytes = &segs[i];
            if !bytes.is_empty() {
                let r = sendmsg(peer_fd, bytes, if i == 0 { &fds } else if i == last { &body_fds } else { &[] }, 0);
                assert!(r == bytes.len() as isize, "peer sendmsg failed: {}", r);
            }
        };
        if !seq {
            for i in 0..segs.len() {
                write_seg(i);
            }
            if close_after {
                shutdown_wr(peer.as_ref().unwrap());
            }
            if rst_after {
                use std::io::Write;
                let _ = (&srv_sock).write_all(&[0x55]);
                peer.take();
            }
        }
        // `z0`: descriptor number 0 is free in the receiving process while this request is handled (a daemon started with
        // stdin closed): the first descriptor the kernel installs gets number 0. All scenario lines were read before the
        // first scenario runs, so nothing here needs stdin; number 0 is plugged again at the end of the scenario.
        if toks.contains(&"z0") {
            unsafe { libc::close(0) };
        }
        // run handle_request on a helper thread with a watchdog
        let (tx, rx) = mpsc::channel();
        let h2 = handler.clone();
        let done = Arc::new(std::sync::atomic::AtomicBool::new(false));
        let done2 = done.clone();
        let tid = Arc::new(AtomicI32::new(0));
        let tid2 = tid.clone();
        let t = std::thread::spawn(move || {
            tid2.store(gettid(), Ordering::SeqCst);
            let mut g = h2.lock().unwrap();
            let r = g.as_mut().unwrap().handle_request();
            done2.store(true, Ordering::SeqCst);
            let _ = tx.send(match r {
                Ok(()) => "ok".to_string(),
                Err(e) => {
                    // whatever kind of error the application handler chose to fail with is reported as `handlerErr`
                    let k = FAIL_KIND.with(|k| k.get());
                    let c = err_class(&e);
                    if k != 0 && c == err_class(&handler_error(k)) { "err.handlerErr".to_string() } else { format!("err.{}", c) }
                }
            });
        });
        if seq {
            // one segment at a time: the next one is written only after the server has consumed the previous one,
            // so that every recvmsg sees exactly one segment
            let sfd = srv_sock.as_raw_fd();
            for i in 0..segs.len() {
                write_seg(i);
                let t0 = std::time::Instant::now();
                loop {
                    let mut n: libc::c_int = 0;
                    unsafe { libc::ioctl(sfd, libc::FIONREAD, &mut n) };
                    // consumed, or the server already returned / sleeps without reading (what is left stays in the socket)
                    if n == 0 || t0.elapsed() > Duration::from_secs(5) {
                        break;
                    }
                    if done.load(Ordering::SeqCst) {
                        // handle_request is over (the handler lock is free again): nobody is going to read the rest
                        break;
                    }
                    std::thread::sleep(Duration::from_micros(50));
                }
                // give the server the time to return to recvmsg (or to return from handle_request)
                std::thread::sleep(Duration::from_micros(300));
            }
            if close_after {
                shutdown_wr(peer.as_ref().unwrap());
            }
            if rst_after {
                use std::io::Write;
                let _ = (&srv_sock).write_all(&[0x55]);
                peer.take();
            }
        }
        for fd in fds.iter().chain(body_fds.iter()) {
            close(*fd);
        }
        // `blocked` = the server thread sleeps with nothing queued on its socket (observed, not timed)
        let sfd2 = srv_sock.as_raw_fd();
        let waited = {
            let t0 = std::time::Instant::now();
            let mut quiet = 0u32;
            loop {
                match rx.recv_timeout(Duration::from_millis(2)) {
                    Ok(s) => break Ok(s),
                    Err(mpsc::RecvTimeoutError::Disconnected) => break Err(true),
                    Err(mpsc::RecvTimeoutError::Timeout) => {}
                }
                if thread_sleeping(tid.load(Ordering::SeqCst)) && pending_bytes(sfd2) == 0 {
                    quiet += 1;
                    if quiet >= QUIET_ROUNDS {
                        break rx.try_recv().map_err(|_| false);
                    }
                } else {
                    quiet = 0;
                }
                if t0.elapsed() > WATCHDOG {
                    break Err(false);
                }
            }
        };
        let r = match waited {
            Ok(s) => {
                let _ = t.join();
                s
            }
            Err(true) => {
                // the server thread died without a result: it panicked inside handle_request
                let msg = match t.join() {
                    Err(e) => e.downcast_ref::<String>().cloned().or_else(|| e.downcast_ref::<&str>().map(|s| s.to_string())).unwrap_or_default(),
                    Ok(()) => String::new(),
                };
                panic!("handle_request panicked: {}", msg);
            }
            Err(false) => {
                // blocked: unblock by shutting the server socket down, then give up on this scenario
                let _ = srv_sock.shutdown(std::net::Shutdown::Both);
                let _ = t.join();
                dead = true;
                "blocked".to_string()
            }
        };
        let (out, ofds, _eof) = if peer.is_some() {
            set_nonblocking(peer_fd, true);
            let d = drain(peer_fd);
            set_nonblocking(peer_fd, false);
            d
        } else {
            dead = true;
            (Vec::new(), Vec::new(), true)
        };
        let n = ofds.len();
        for fd in ofds {
            close(fd);
        }
        let mut out = out;
        // padding bytes of VhostUserInflight (repr(C), 4 tail bytes) are not defined by anything: mask them
        if out.len() == 12 + 24 && u32::from_le_bytes([out[0], out[1], out[2], out[3]]) == 31 {
            for b in out[32..36].iter_mut() {
                *b = 0;
            }
        }
        let calls = {
            let sh = shared.lock().unwrap();
            if sh.calls.is_empty() { "-".to_string() } else { sh.calls.join(";") }
        };
        obs.push(format!("r={} c={} o={} n={}", r, calls, bytes_to_hex(&out), n));
    }
    // teardown: drop the endpoint, the handler, both sockets; then look for leaked objects
    handler.lock().unwrap().take();
    {
        let mut sh = shared.lock().unwrap();
        sh.backend = None;
        sh.gpu = None;
        sh.kept.clear();
    }
    drop(backend);
    drop(srv_sock);
    drop(peer);
    let objs = { let sh = shared.lock().unwrap(); sh.all_objs(&sh.objs) };
    let leaked = open_idents(&objs);
    let l = if leaked.is_empty() { "-".to_string() } else { leaked.iter().map(|x| x.to_string()).collect::<Vec<_>>().join(",") };
    obs.push(format!("L={}", l));
    // descriptor number 0 is occupied again (by /dev/null) whatever the scenario left there
    unsafe {
        let n = libc::open(b"/dev/null\0".as_ptr() as *const libc::c_char, libc::O_RDONLY);
        if n > 0 {
            libc::dup2(n, 0);
            libc::close(n);
        }
    }
    obs.join(" | ")
}
