//! family `locks` (C10): concurrent calls on clones of one endpoint, scheduled at the hold points.
//!
//! scheduled scenario:  `locks ep=fe|be|gpu ack=0|1 calls=<tag>,<tag>[,<tag>] sched=<ev>,<ev>,...`
//!   thread i performs `calls[i]` on its own clone of the endpoint.  Events: `sN` start thread N,
//!   `rN` release thread N from its hold point (a thread released before it reaches the hold point passes
//!   through without parking).  After every event the harness waits until every started thread is parked,
//!   done, or has made no progress for the bounded wait (then it is reported as blocked), and until the
//!   scripted peer has processed everything that was written.  After the last event all threads are
//!   released and joined under a watchdog.
//!   observation: `snaps=<ev>:<status per thread>/<requests seen by the peer>,... order=<request tags in
//!   arrival order> got=<result per thread> done=<0|1 per thread>`
//!   status: `-` not started, `b` started but neither parked nor done (blocked), `h` parked at the hold
//!   point (request written, reply not read), `d` returned.
//!
//!   reply fault (optional): `fault=<k>:<kind>` — the peer mistreats the request of thread `k` (identified by
//!   its tag, which must be unique among `calls`; the request must be one that has a reply):
//!   `code` = a reply of the right size whose request code is another (valid) one, `noreply` = the right
//!   reply without the REPLY flag, `fd` = the right reply with an unexpected descriptor attached (only for
//!   replies that take none), `close` = the peer shuts the socket down instead of answering and is gone.
//!   "Right size" = what the reader consumes before it looks at the header: header + fixed body (for
//!   GET_CONFIG the payload-less form a backend uses to signal failure), so the byte stream stays aligned for
//!   the next caller.  In a fault scenario every result that is an error is printed as plain `err` (which
//!   error a reader reports for which damage is not C10's business).
//!
//! stress scenario:  `locks ep=.. ack=.. stress=<threads>x<calls> seed=<hex> [only=<tag>,..] [fault=<tag>:<kind>]`
//!   every thread performs `<calls>` calls drawn by a fixed LCG from the stress list of the endpoint and
//!   compares each result with the reply the peer owes to *that* request; the peer additionally counts
//!   requests that were already waiting in the socket while it still owed a reply (`early`).
//!   with `fault=<tag>:<kind>` (kinds `code`, `noreply`, `fd`) *every* reply to a request with that tag is
//!   faulty: those calls must return an error, all others their own reply as before.
//!   observation: `calls=<n> ok=<per thread ok.err counts> bad=<n> early=<n> done=<n> reqs=<n>`
//!
//! The peer is a raw socket reader/writer with its own little-endian codec (12-byte header
//! request/flags/size + body); it answers in arrival order with a reply whose value is a function of
//! the request alone (see `peer_reply_*`).

use std::cell::RefCell;
use std::fs::File;
use std::io::{Read, Write};
use std::os::fd::OwnedFd;
use std::os::unix::io::AsRawFd;
use std::os::unix::net::UnixStream;
use std::sync::atomic::{AtomicBool, AtomicU64, Ordering};
use std::sync::{Arc, Condvar, Mutex, Once};
use std::time::{Duration, Instant};

use vhost::vhost_user::gpu_message::*;
use vhost::vhost_user::message::*;
use vhost::vhost_user::verif_hooks as hooks;
use vhost::vhost_user::{
    Backend, Frontend, GpuBackend, VhostUserFrontend, VhostUserFrontendReqHandler,
};
use vhost::{VhostUserDirtyLogRegion, VhostUserMemoryRegionInfo, VringConfigData};
use vhost::VhostBackend;
use vmm_sys_util::eventfd::EventFd;

use crate::util::kv;

// ------------------------------------------------------------------------------------------------
// schedule controller (hold points)

#[derive(Clone, Copy, PartialEq, Eq, Debug)]
enum Status {
    NotStarted,
    Running,
    Parked,
    Done,
}

struct SlotState {
    status: Status,
    released: bool,
    result: Option<String>,
    tid: i32,
    holds: u32,
}

struct Slot {
    st: Mutex<SlotState>,
    cv: Condvar,
}

impl Slot {
    fn new() -> Arc<Slot> {
        Arc::new(Slot {
            st: Mutex::new(SlotState {
                status: Status::NotStarted,
                released: false,
                result: None,
                tid: 0,
                holds: 0,
            }),
            cv: Condvar::new(),
        })
    }
    fn status(&self) -> Status {
        self.st.lock().unwrap().status
    }
    fn release(&self) {
        let mut g = self.st.lock().unwrap();
        g.released = true;
        if g.status == Status::Parked {
            // it runs again from now on (so that `settle` waits for it)
            g.status = Status::Running;
        }
        self.cv.notify_all();
    }
}

thread_local! {
    static SLOT: RefCell<Option<Arc<Slot>>> = const { RefCell::new(None) };
}

static INIT: Once = Once::new();

fn install_controller() {
    INIT.call_once(|| {
        hooks::set_controller(Some(Arc::new(|_point: &'static str, _ctx: u64| {
            let slot = SLOT.with(|s| s.borrow().clone());
            if let Some(slot) = slot {
                let mut g = slot.st.lock().unwrap();
                g.holds += 1;
                if !g.released {
                    g.status = Status::Parked;
                    while !g.released {
                        g = slot.cv.wait(g).unwrap();
                    }
                    g.status = Status::Running;
                }
            }
        })));
    });
}

// ------------------------------------------------------------------------------------------------
// endpoints and calls

#[derive(Clone)]
enum Ep {
    Fe(Frontend),
    Be(Backend),
    Gpu(GpuBackend),
}

const FEATURES: u64 = 0x4000_1111;
/// MQ | LOG_SHMFD | REPLY_ACK | BACKEND_REQ | PAGEFAULT | CONFIG | INFLIGHT_SHMFD | RESET_DEVICE |
/// CONFIGURE_MEM_SLOTS | SHARED_OBJECT | DEVICE_STATE | SHMEM
const PFEAT: u64 = 0x1 | 0x2 | 0x8 | 0x20 | 0x100 | 0x200 | 0x1000 | 0x2000 | 0x8000 | 0x4_0000 | 0x8_0000 | 0x20_0000;
const MAX_QUEUES: u64 = 0x20;

fn hexu(s: &str) -> u64 {
    u64::from_str_radix(s, 16).unwrap_or_else(|_| panic!("bad hex in call tag: {s}"))
}

/// split `<prefix><a>[.<b>]` into (a, b)
fn args(tag: &str, prefix: &str) -> (u64, u64) {
    let rest = &tag[prefix.len()..];
    let mut it = rest.split('.');
    let a = it.next().map(hexu).unwrap_or(0);
    let b = it.next().map(hexu).unwrap_or(0);
    (a, b)
}

fn fe_err(e: vhost::Error) -> String {
    match e {
        vhost::Error::VhostUserProtocol(e) => vu_err(&e),
        _ => "err:other".into(),
    }
}

fn vu_err(e: &vhost::vhost_user::Error) -> String {
    use vhost::vhost_user::Error as E;
    let c = match e {
        E::InvalidParam => "invalidParam",
        E::InvalidMessage => "invalidMsg",
        E::PartialMessage => "partial",
        E::Disconnected => "disconnected",
        E::IncorrectFds => "incorrectFds",
        E::InactiveFeature(_) => "inactiveFeature",
        E::InactiveOperation(_) => "inactiveOperation",
        E::BackendInternalError => "backendInternal",
        E::FrontendInternalError => "frontendInternal",
        E::SocketBroken(_) => "sockBroken",
        E::OversizedMsg => "oversized",
        _ => "other",
    };
    format!("err:{c}")
}

fn io_err(e: std::io::Error) -> String {
    match e
        .get_ref()
        .and_then(|r| r.downcast_ref::<vhost::vhost_user::Error>())
    {
        Some(v) => vu_err(v),
        None => "err:other".into(),
    }
}

fn unit<E>(r: Result<(), E>, f: impl Fn(E) -> String) -> String {
    match r {
        Ok(()) => "ok".into(),
        Err(e) => f(e),
    }
}

fn devnull() -> File {
    File::open("/dev/null").expect("/dev/null")
}

fn do_call(ep: &Ep, tag: &str) -> String {
    match ep {
        Ep::Fe(fe) => call_fe(fe.clone(), tag),
        Ep::Be(be) => call_be(be, tag),
        Ep::Gpu(g) => call_gpu(g, tag),
    }
}

fn call_fe(mut fe: Frontend, tag: &str) -> String {
    let u = |r: vhost::Result<u64>| match r {
        Ok(v) => format!("ok:{v:x}"),
        Err(e) => fe_err(e),
    };
    if tag == "gf" {
        u(fe.get_features())
    } else if tag == "gpf" {
        u(fe.get_protocol_features().map(|p| p.bits()))
    } else if tag == "gqn" {
        u(fe.get_queue_num())
    } else if tag == "gmms" {
        u(fe.get_max_mem_slots())
    } else if tag == "cds" {
        unit(fe.check_device_state(), fe_err)
    } else if tag == "so" {
        unit(fe.set_owner(), fe_err)
    } else if tag == "slb" {
        unit(fe.set_log_base(0x1000, None), fe_err)
    } else if tag == "sdsf" {
        let fd: OwnedFd = devnull().into();
        match fe.set_device_state_fd(
            VhostTransferStateDirection::SAVE,
            VhostTransferStatePhase::STOPPED,
            fd,
        ) {
            Ok(None) => "ok:none".into(),
            Ok(Some(_)) => "ok:file".into(),
            Err(e) => fe_err(e),
        }
    } else if tag == "spfe" || tag == "spfe0" {
        // same feature set as negotiated by the scenario setup (`spfe0`: without REPLY_ACK)
        let want = if tag == "spfe" { PFEAT } else { PFEAT & !0x8 };
        unit(
            fe.set_protocol_features(VhostUserProtocolFeatures::from_bits_truncate(want)),
            fe_err,
        )
    } else if tag == "ro" {
        unit(fe.reset_owner(), fe_err)
    } else if tag == "rd" {
        unit(fe.reset_device(), fe_err)
    } else if tag == "smt" {
        let f = devnull();
        unit(fe.set_mem_table(&[region(&f, 0x10_0000)]), fe_err)
    } else if tag == "amr" {
        let f = devnull();
        unit(fe.add_mem_region(&region(&f, 0x20_0000)), fe_err)
    } else if tag == "rmr" {
        let f = devnull();
        unit(fe.remove_mem_region(&region(&f, 0x20_0000)), fe_err)
    } else if tag == "slbr" {
        let f = devnull();
        let r = VhostUserDirtyLogRegion {
            mmap_size: 0x1000,
            mmap_offset: 0,
            mmap_handle: f.as_raw_fd(),
        };
        unit(fe.set_log_base(0x1000, Some(r)), fe_err)
    } else if tag == "slf" {
        let f = devnull();
        unit(fe.set_log_fd(f.as_raw_fd()), fe_err)
    } else if tag == "sbrf" {
        let f = devnull();
        unit(fe.set_backend_request_fd(&f), fe_err)
    } else if tag == "gso" {
        match fe.get_shared_object(&shared(7, 7)) {
            Ok(_) => "ok:file".into(),
            Err(e) => fe_err(e),
        }
    } else if tag == "pca" {
        match fe.postcopy_advise() {
            Ok(_) => "ok:file".into(),
            Err(e) => fe_err(e),
        }
    } else if tag == "pcl" {
        unit(fe.postcopy_listen(), fe_err)
    } else if tag == "pce" {
        unit(fe.postcopy_end(), fe_err)
    } else if tag == "gsc" {
        match fe.get_shmem_config() {
            Ok(c) => format!("ok:{:x}", c.nregions),
            Err(e) => fe_err(e),
        }
    } else if tag.starts_with("gif") {
        let (n, _) = args(tag, "gif");
        let inf = VhostUserInflight {
            mmap_size: 0x1000,
            mmap_offset: 0,
            num_queues: n as u16,
            queue_size: 0x80,
        };
        match fe.get_inflight_fd(&inf) {
            Ok((r, _)) => format!("ok:{:x}", r.mmap_size),
            Err(e) => fe_err(e),
        }
    } else if tag.starts_with("sif") {
        let (n, _) = args(tag, "sif");
        let inf = VhostUserInflight {
            mmap_size: 0x1000,
            mmap_offset: 0,
            num_queues: n as u16,
            queue_size: 0x80,
        };
        let f = devnull();
        unit(fe.set_inflight_fd(&inf, f.as_raw_fd()), fe_err)
    } else if tag.starts_with("sva") {
        let (q, _) = args(tag, "sva");
        let cfg = VringConfigData {
            queue_max_size: 0x100,
            queue_size: 0x80,
            flags: 0,
            desc_table_addr: 0x1000,
            used_ring_addr: 0x2000,
            avail_ring_addr: 0x3000,
            log_addr: None,
        };
        unit(fe.set_vring_addr(q as usize, &cfg), fe_err)
    } else if tag.starts_with("svc") || tag.starts_with("svk") || tag.starts_with("svr") {
        let (q, _) = args(tag, &tag[..3]);
        let e = EventFd::new(0).expect("eventfd");
        let r = match &tag[..3] {
            "svc" => fe.set_vring_call(q as usize, &e),
            "svk" => fe.set_vring_kick(q as usize, &e),
            _ => fe.set_vring_err(q as usize, &e),
        };
        unit(r, fe_err)
    } else if tag.starts_with("sen") {
        let (q, _) = args(tag, "sen");
        unit(fe.set_vring_enable(q as usize, true), fe_err)
    } else if tag.starts_with("gvb") {
        let (q, _) = args(tag, "gvb");
        u(fe.get_vring_base(q as usize).map(u64::from))
    } else if tag.starts_with("gcfg") {
        let (o, _) = args(tag, "gcfg");
        match fe.get_config(o as u32, 4, VhostUserConfigFlags::empty(), &[0u8; 4]) {
            Ok((_, payload)) => format!("ok:{}", crate::util::bytes_to_hex(&payload)),
            Err(e) => fe_err(e),
        }
    } else if tag.starts_with("scfg") {
        let (o, _) = args(tag, "scfg");
        unit(
            fe.set_config(o as u32, VhostUserConfigFlags::WRITABLE, &[1, 2, 3, 4]),
            fe_err,
        )
    } else if tag.starts_with("svn") {
        let (q, n) = args(tag, "svn");
        unit(fe.set_vring_num(q as usize, n as u16), fe_err)
    } else if tag.starts_with("svb") {
        let (q, n) = args(tag, "svb");
        unit(fe.set_vring_base(q as usize, n as u16), fe_err)
    } else if tag.starts_with("sf") {
        let (x, _) = args(tag, "sf");
        unit(fe.set_features(x), fe_err)
    } else {
        panic!("unknown frontend call tag {tag}")
    }
}

fn region(f: &File, gpa: u64) -> VhostUserMemoryRegionInfo {
    VhostUserMemoryRegionInfo {
        guest_phys_addr: gpa,
        memory_size: 0x1000,
        userspace_addr: 0x7000_0000 + gpa,
        mmap_offset: 0,
        mmap_handle: f.as_raw_fd(),
    }
}

fn shared(i: u64, v: u64) -> VhostUserSharedMsg {
    let mut b = [0xaau8; 16];
    b[0] = i as u8;
    b[1] = v as u8;
    VhostUserSharedMsg {
        uuid: uuid::Uuid::from_bytes(b),
    }
}

fn mmap(i: u64, v: u64) -> VhostUserMMap {
    VhostUserMMap {
        shmid: i as u8,
        padding: Default::default(),
        fd_offset: 0,
        shm_offset: v * 0x1000,
        len: 0x1000,
        flags: 0,
    }
}

fn call_be(be: &Backend, tag: &str) -> String {
    let u = |r: std::io::Result<u64>| match r {
        Ok(v) => format!("ok:{v:x}"),
        Err(e) => io_err(e),
    };
    if tag.starts_with("soa") {
        let (i, v) = args(tag, "soa");
        u(be.shared_object_add(&shared(i, v)))
    } else if tag.starts_with("sor") {
        let (i, v) = args(tag, "sor");
        u(be.shared_object_remove(&shared(i, v)))
    } else if tag.starts_with("sol") {
        let (i, v) = args(tag, "sol");
        let f = devnull();
        u(be.shared_object_lookup(&shared(i, v), &f))
    } else if tag.starts_with("smap") {
        let (i, v) = args(tag, "smap");
        let f = devnull();
        u(be.shmem_map(&mmap(i, v), &f))
    } else if tag.starts_with("sunm") {
        let (i, v) = args(tag, "sunm");
        u(be.shmem_unmap(&mmap(i, v)))
    } else {
        panic!("unknown backend-proxy call tag {tag}")
    }
}

fn call_gpu(g: &GpuBackend, tag: &str) -> String {
    let e = |_e: std::io::Error| "err".to_string();
    if tag == "gpf" {
        match g.get_protocol_features() {
            Ok(v) => format!("ok:{:x}", v.value),
            Err(x) => e(x),
        }
    } else if tag == "spf" {
        unit(g.set_protocol_features(&VhostUserU64::new(1)), e)
    } else if tag == "gdi" {
        match g.get_display_info() {
            Ok(d) => format!("ok:{:x}", d.pmodes[0].r.width),
            Err(x) => e(x),
        }
    } else if tag == "cu" {
        let data = Box::new([0x5au8; 4 * 64 * 64]);
        unit(g.cursor_update(&VhostUserGpuCursorUpdate::default(), &data), e)
    } else if tag.starts_with("ged") {
        let (s, _) = args(tag, "ged");
        match g.get_edid(&VhostUserGpuEdidRequest {
            scanout_id: s as u32,
        }) {
            Ok(r) => format!("ok:{:x}", r.size),
            Err(x) => e(x),
        }
    } else if tag.starts_with("uds") {
        let (s, _) = args(tag, "uds");
        let upd = VhostUserGpuUpdate {
            scanout_id: s as u32,
            ..Default::default()
        };
        unit(g.update_dmabuf_scanout(&upd), e)
    } else if tag.starts_with("us") {
        let (s, _) = args(tag, "us");
        let upd = VhostUserGpuUpdate {
            scanout_id: s as u32,
            ..Default::default()
        };
        unit(g.update_scanout(&upd, &[7u8; 16]), e)
    } else if tag.starts_with("sc") {
        let (s, _) = args(tag, "sc");
        unit(
            g.set_scanout(&VhostUserGpuScanout {
                scanout_id: s as u32,
                width: 640,
                height: 480,
            }),
            e,
        )
    } else if tag.starts_with("cph") {
        let (s, _) = args(tag, "cph");
        unit(
            g.cursor_pos_hide(&VhostUserGpuCursorPos {
                scanout_id: s as u32,
                x: 1,
                y: 2,
            }),
            e,
        )
    } else if tag.starts_with("cp") {
        let (s, _) = args(tag, "cp");
        unit(
            g.cursor_pos(&VhostUserGpuCursorPos {
                scanout_id: s as u32,
                x: 1,
                y: 2,
            }),
            e,
        )
    } else if tag.starts_with("dt") {
        let (s, _) = args(tag, "dt");
        let sc = VhostUserGpuDMABUFScanout2 {
            dmabuf_scanout: VhostUserGpuDMABUFScanout {
                scanout_id: s as u32,
                ..Default::default()
            },
            modifier: 0,
        };
        unit(g.set_dmabuf_scanout2(&sc, None::<&File>), e)
    } else if tag.starts_with("ds") {
        let (s, _) = args(tag, "ds");
        let sc = VhostUserGpuDMABUFScanout {
            scanout_id: s as u32,
            ..Default::default()
        };
        unit(g.set_dmabuf_scanout(&sc, None::<&File>), e)
    } else {
        panic!("unknown gpu call tag {tag}")
    }
}

/// The result a caller must see when it receives the reply to *its own* request (same convention as
/// the peer's reply rules below; used only by the stress mode — scheduled scenarios are judged by
/// the spec driver).
fn expected(ep: &str, ack: bool, tag: &str) -> String {
    match ep {
        "fe" => {
            if tag == "gf" {
                format!("ok:{FEATURES:x}")
            } else if tag == "gpf" {
                format!("ok:{PFEAT:x}")
            } else if tag == "gqn" {
                format!("ok:{MAX_QUEUES:x}")
            } else if tag == "gmms" {
                "ok:3333".into()
            } else if tag == "sdsf" {
                "ok:none".into()
            } else if tag == "gso" || tag == "pca" {
                "ok:file".into()
            } else if tag == "gsc" {
                "ok:2".into()
            } else if tag.starts_with("gif") {
                let (n, _) = args(tag, "gif");
                format!("ok:{:x}", 0x4000 + n)
            } else if ["sva", "svc", "svk", "svr", "sen"].iter().any(|p| tag.starts_with(p)) {
                let (q, _) = args(tag, &tag[..3]);
                if q >= MAX_QUEUES {
                    "err:invalidParam".into()
                } else {
                    "ok".into()
                }
            } else if tag.starts_with("gvb") {
                let (q, _) = args(tag, "gvb");
                if q >= MAX_QUEUES {
                    "err:invalidParam".into()
                } else {
                    format!("ok:{:x}", 0x100 + q)
                }
            } else if tag.starts_with("gcfg") {
                let (o, _) = args(tag, "gcfg");
                let p: Vec<u8> = (0..4u64).map(|k| ((o + 0xa0 + k) & 0xff) as u8).collect();
                format!("ok:{}", crate::util::bytes_to_hex(&p))
            } else if tag.starts_with("svn") || tag.starts_with("svb") {
                let (q, n) = args(tag, &tag[..3]);
                if q >= MAX_QUEUES {
                    "err:invalidParam".into()
                } else if ack && n >= 0x8000 {
                    "err:backendInternal".into()
                } else {
                    "ok".into()
                }
            } else {
                "ok".into()
            }
        }
        "be" => {
            let p = if tag.starts_with("smap") || tag.starts_with("sunm") {
                4
            } else {
                3
            };
            let (_, v) = args(tag, &tag[..p]);
            if ack && v != 0 {
                "err:frontendInternal".into()
            } else {
                "ok:0".into()
            }
        }
        _ => {
            if tag == "gpf" {
                "ok:5555".into()
            } else if tag == "gdi" {
                "ok:780".into()
            } else if tag.starts_with("ged") {
                let (s, _) = args(tag, "ged");
                format!("ok:{:x}", 0x80 + s)
            } else {
                "ok".into()
            }
        }
    }
}

// ------------------------------------------------------------------------------------------------
// scripted raw peer

fn le32(b: &[u8], o: usize) -> u32 {
    u32::from_le_bytes([b[o], b[o + 1], b[o + 2], b[o + 3]])
}
fn le64(b: &[u8], o: usize) -> u64 {
    let mut x = [0u8; 8];
    x.copy_from_slice(&b[o..o + 8]);
    u64::from_le_bytes(x)
}

fn msg(code: u32, flags: u32, body: &[u8]) -> Vec<u8> {
    let mut v = Vec::with_capacity(12 + body.len());
    v.extend_from_slice(&code.to_le_bytes());
    v.extend_from_slice(&flags.to_le_bytes());
    v.extend_from_slice(&(body.len() as u32).to_le_bytes());
    v.extend_from_slice(body);
    v
}

/// marks a reply that must carry one descriptor (SCM_RIGHTS): the peer loop strips the marker
const FD_MARK: [u8; 4] = *b"\xffFD\xff";
fn with_fd(mut m: Vec<u8>) -> Vec<u8> {
    let mut v = FD_MARK.to_vec();
    v.append(&mut m);
    v
}

fn send_with_fd(sock: &UnixStream, data: &[u8], fd: i32) -> bool {
    let mut iov = libc::iovec {
        iov_base: data.as_ptr() as *mut libc::c_void,
        iov_len: data.len(),
    };
    let mut cbuf = [0u64; 4]; // 32 bytes, 8-aligned: room for one cmsghdr + one int
    // SAFETY: msghdr/cmsghdr are plain C structs; the buffers outlive the call.
    unsafe {
        let mut mh: libc::msghdr = std::mem::zeroed();
        mh.msg_iov = &mut iov;
        mh.msg_iovlen = 1;
        mh.msg_control = cbuf.as_mut_ptr() as *mut libc::c_void;
        mh.msg_controllen = libc::CMSG_SPACE(4) as _;
        let c = libc::CMSG_FIRSTHDR(&mh);
        (*c).cmsg_level = libc::SOL_SOCKET;
        (*c).cmsg_type = libc::SCM_RIGHTS;
        (*c).cmsg_len = libc::CMSG_LEN(4) as _;
        std::ptr::copy_nonoverlapping(&fd as *const i32 as *const u8, libc::CMSG_DATA(c), 4);
        libc::sendmsg(sock.as_raw_fd(), &mh, 0) == data.len() as isize
    }
}

#[derive(Clone, Copy, PartialEq, Eq, Debug)]
enum FaultKind {
    Code,
    NoReply,
    Fd,
    Close,
}

fn fault_kind(s: &str) -> FaultKind {
    match s {
        "code" => FaultKind::Code,
        "noreply" => FaultKind::NoReply,
        "fd" => FaultKind::Fd,
        "close" => FaultKind::Close,
        _ => panic!("unknown fault kind {s}"),
    }
}

/// which request the peer mistreats: the next one (`once`) or every one with this tag
struct Fault {
    tag: String,
    kind: FaultKind,
    once: bool,
}

struct PeerShared {
    log: Mutex<Vec<String>>,
    idle: AtomicBool,
    stop: AtomicBool,
    early: AtomicU64,
    reply_ack: AtomicBool,
    fault: Mutex<Option<Fault>>,
}

impl PeerShared {
    /// the fault to apply to the reply of the request `tag`, if any
    fn fault_for(&self, tag: &str) -> Option<FaultKind> {
        let mut g = self.fault.lock().unwrap();
        match g.as_ref() {
            Some(f) if f.tag == tag => {
                let k = f.kind;
                if f.once {
                    *g = None;
                }
                Some(k)
            }
            _ => None,
        }
    }
}

/// Turn the correct reply `r` (header + body, no descriptor marker) to a request with code `code` into a
/// faulty one of the size the reader consumes.  Returns (bytes, attach a descriptor).
fn mutate_reply(ep: &str, code: u32, mut r: Vec<u8>, had_fd: bool, kind: FaultKind) -> (Vec<u8>, bool) {
    if ep == "fe" && code == 24 {
        // GET_CONFIG: the reader takes header + VhostUserConfig (12 bytes) first and the payload only after
        // it has accepted those; a refused reply must not leave payload bytes behind
        r.truncate(12 + 12);
        r[8..12].copy_from_slice(&12u32.to_le_bytes());
    }
    match kind {
        FaultKind::Code => {
            let other: u32 = match ep {
                "fe" => if code == 1 { 15 } else { 1 },   // GET_FEATURES <-> GET_PROTOCOL_FEATURES
                "be" => if code == 6 { 7 } else { 6 },    // SHARED_OBJECT_ADD <-> _REMOVE
                _ => if code == 1 { 3 } else { 1 },       // GET_PROTOCOL_FEATURES <-> GET_DISPLAY_INFO
            };
            r[0..4].copy_from_slice(&other.to_le_bytes());
            (r, had_fd)
        }
        FaultKind::NoReply => {
            let f = le32(&r, 4) & !0x4;
            r[4..8].copy_from_slice(&f.to_le_bytes());
            (r, had_fd)
        }
        FaultKind::Fd => {
            assert!(!had_fd, "fault kind fd on a reply that carries a descriptor anyway");
            (r, true)
        }
        FaultKind::Close => unreachable!(),
    }
}

/// (tag, reply bytes if a reply is owed) for a front-end channel request
fn peer_reply_fe(sh: &PeerShared, code: u32, flags: u32, body: &[u8]) -> (String, Option<Vec<u8>>) {
    let rf = 0x1 | 0x4; // version 1, REPLY
    let u64r = |v: u64| Some(msg(code, rf, &v.to_le_bytes()));
    let need = flags & 0x8 != 0 && sh.reply_ack.load(Ordering::SeqCst);
    let ack = |v: u64| if need { u64r(v) } else { None };
    match code {
        1 => ("gf".into(), u64r(FEATURES)),
        15 => ("gpf".into(), u64r(PFEAT)),
        17 => ("gqn".into(), u64r(MAX_QUEUES)),
        36 => ("gmms".into(), u64r(0x3333)),
        43 => ("cds".into(), u64r(0)),
        42 => ("sdsf".into(), u64r(0x100)),
        11 => {
            let q = le32(body, 0);
            let mut b = Vec::new();
            b.extend_from_slice(&q.to_le_bytes());
            b.extend_from_slice(&(0x100 + q).to_le_bytes());
            (format!("gvb{q:x}"), Some(msg(code, rf, &b)))
        }
        24 => {
            let o = le32(body, 0);
            let sz = le32(body, 4) as usize;
            let mut b = body[..12].to_vec();
            for k in 0..sz {
                b.push(((o as usize + 0xa0 + k) & 0xff) as u8);
            }
            (format!("gcfg{o:x}"), Some(msg(code, rf, &b)))
        }
        41 => ("gso".into(), Some(with_fd(msg(code, rf, &[])))),
        28 => ("pca".into(), Some(with_fd(msg(code, rf, &[])))),
        31 => {
            // VhostUserInflight: mmap_size, mmap_offset, num_queues (u16), queue_size (u16), padding
            let n = u16::from_le_bytes([body[16], body[17]]) as u64;
            let mut b = body[..24].to_vec();
            b[..8].copy_from_slice(&(0x4000 + n).to_le_bytes());
            (format!("gif{n:x}"), Some(with_fd(msg(code, rf, &b))))
        }
        44 => {
            // VhostUserShMemConfig: nregions, padding, memory_sizes[256]
            let mut b = vec![0u8; 8 + 256 * 8];
            b[0] = 2;
            b[8..16].copy_from_slice(&0x1000u64.to_le_bytes());
            b[16..24].copy_from_slice(&0x2000u64.to_le_bytes());
            ("gsc".into(), Some(msg(code, rf, &b)))
        }
        6 if body.len() == 16 => ("slbr".into(), Some(msg(code, rf, body))),
        4 => ("ro".into(), ack(0)),
        34 => ("rd".into(), ack(0)),
        5 => ("smt".into(), ack(0)),
        37 => ("amr".into(), ack(0)),
        38 => ("rmr".into(), ack(0)),
        7 => ("slf".into(), ack(0)),
        21 => ("sbrf".into(), ack(0)),
        29 => ("pcl".into(), ack(0)),
        30 => ("pce".into(), ack(0)),
        32 => {
            let n = u16::from_le_bytes([body[16], body[17]]);
            (format!("sif{n:x}"), ack(0))
        }
        9 => (format!("sva{:x}", le32(body, 0)), ack(0)),
        13 => (format!("svc{:x}", le64(body, 0) & 0xff), ack(0)),
        12 => (format!("svk{:x}", le64(body, 0) & 0xff), ack(0)),
        14 => (format!("svr{:x}", le64(body, 0) & 0xff), ack(0)),
        18 => (format!("sen{:x}", le32(body, 0)), ack(0)),
        3 => ("so".into(), ack(0)),
        2 => (format!("sf{:x}", le64(body, 0)), ack(0)),
        16 => {
            let v = le64(body, 0);
            sh.reply_ack.store(v & 0x8 != 0, Ordering::SeqCst);
            let t = if v & 0x8 != 0 { "spfe" } else { "spfe0" };
            (t.into(), if flags & 0x8 != 0 && v & 0x8 != 0 { u64r(0) } else { None })
        }
        8 | 10 => {
            let q = le32(body, 0);
            let n = le32(body, 4);
            let t = if code == 8 { "svn" } else { "svb" };
            (format!("{t}{q:x}.{n:x}"), ack(u64::from(n >= 0x8000)))
        }
        25 => (format!("scfg{:x}", le32(body, 0)), ack(0)),
        6 => ("slb".into(), ack(0)),
        _ => (format!("req{code:x}"), ack(0)),
    }
}

fn peer_reply_be(code: u32, flags: u32, body: &[u8]) -> (String, Option<Vec<u8>>) {
    let (name, i, v) = match code {
        6 => ("soa", body[0] as u64, body[1] as u64),
        7 => ("sor", body[0] as u64, body[1] as u64),
        8 => ("sol", body[0] as u64, body[1] as u64),
        9 => ("smap", body[0] as u64, le64(body, 16) >> 12),
        10 => ("sunm", body[0] as u64, le64(body, 16) >> 12),
        _ => ("req", code as u64, 0),
    };
    let reply = if flags & 0x8 != 0 {
        Some(msg(code, 0x1 | 0x4, &v.to_le_bytes()))
    } else {
        None
    };
    (format!("{name}{i:x}.{v:x}"), reply)
}

fn peer_reply_gpu(code: u32, body: &[u8]) -> (String, Option<Vec<u8>>) {
    let rf = 0x4;
    let id = |o: usize| if body.len() >= o + 4 { le32(body, o) } else { 0 };
    match code {
        1 => ("gpf".into(), Some(msg(code, rf, &0x5555u64.to_le_bytes()))),
        2 => ("spf".into(), None),
        3 => {
            // virtio_gpu_resp_display_info: ctrl_hdr (24) + 16 * display_one (24)
            let mut b = vec![0u8; 24 + 16 * 24];
            b[24 + 8..24 + 12].copy_from_slice(&0x780u32.to_le_bytes());
            b[24 + 12..24 + 16].copy_from_slice(&0x438u32.to_le_bytes());
            ("gdi".into(), Some(msg(code, rf, &b)))
        }
        11 => {
            // virtio_gpu_resp_edid: ctrl_hdr (24) + size + padding + edid[1024]
            let s = id(0);
            let mut b = vec![0u8; 24 + 8 + 1024];
            b[24..28].copy_from_slice(&(0x80 + s).to_le_bytes());
            (format!("ged{s:x}"), Some(msg(code, rf, &b)))
        }
        10 => (format!("uds{:x}", id(0)), Some(msg(code, rf, &[]))),
        8 => (format!("us{:x}", id(0)), None),
        7 => (format!("sc{:x}", id(0)), None),
        4 => (format!("cp{:x}", id(0)), None),
        5 => (format!("cph{:x}", id(0)), None),
        9 => (format!("ds{:x}", id(0)), None),
        12 => (format!("dt{:x}", id(0)), None),
        6 => ("cu".into(), None),
        _ => (format!("req{code:x}"), None),
    }
}

fn readable_now(fd: i32) -> bool {
    let mut n: libc::c_int = 0;
    // SAFETY: FIONREAD writes one int.
    let r = unsafe { libc::ioctl(fd, libc::FIONREAD, &mut n) };
    r == 0 && n > 0
}

fn peer_loop(mut sock: UnixStream, ep: String, sh: Arc<PeerShared>) {
    let fd = sock.as_raw_fd();
    loop {
        sh.idle.store(true, Ordering::SeqCst);
        let mut p = libc::pollfd {
            fd,
            events: libc::POLLIN,
            revents: 0,
        };
        // SAFETY: one valid pollfd.
        let r = unsafe { libc::poll(&mut p, 1, 20) };
        if sh.stop.load(Ordering::SeqCst) {
            return;
        }
        if r <= 0 {
            continue;
        }
        sh.idle.store(false, Ordering::SeqCst);
        let mut h = [0u8; 12];
        if sock.read_exact(&mut h).is_err() {
            sh.idle.store(true, Ordering::SeqCst);
            return;
        }
        let (code, flags, size) = (le32(&h, 0), le32(&h, 4), le32(&h, 8) as usize);
        if size > (1 << 20) {
            sh.log.lock().unwrap().push("garbage".into());
            return;
        }
        let mut body = vec![0u8; size];
        if sock.read_exact(&mut body).is_err() {
            return;
        }
        let (tag, reply) = match ep.as_str() {
            "fe" => peer_reply_fe(&sh, code, flags, &body),
            "be" => peer_reply_be(code, flags, &body),
            _ => peer_reply_gpu(code, &body),
        };
        let fault = if reply.is_some() { sh.fault_for(&tag) } else { None };
        sh.log.lock().unwrap().push(tag);
        if fault == Some(FaultKind::Close) {
            // the peer goes away instead of answering
            let _ = sock.shutdown(std::net::Shutdown::Both);
            sh.idle.store(true, Ordering::SeqCst);
            return;
        }
        let reply = match (reply, fault) {
            (Some(r), Some(k)) => {
                let had_fd = r.starts_with(&FD_MARK);
                let raw = if had_fd { r[FD_MARK.len()..].to_vec() } else { r };
                let (m, with) = mutate_reply(&ep, code, raw, had_fd, k);
                Some(if with { with_fd(m) } else { m })
            }
            (r, _) => r,
        };
        if let Some(r) = reply {
            // a request that is already waiting while this reply is still owed was written between
            // a request and the consumption of its reply
            if readable_now(fd) {
                sh.early.fetch_add(1, Ordering::SeqCst);
            }
            if r.starts_with(&FD_MARK) {
                let f = devnull();
                if !send_with_fd(&sock, &r[FD_MARK.len()..], f.as_raw_fd()) {
                    return;
                }
            } else if sock.write_all(&r).is_err() {
                return;
            }
        }
    }
}

struct Session {
    ep: Ep,
    sh: Arc<PeerShared>,
    peer_fd: i32,
    peer_ctl: UnixStream,
    peer_thread: Option<std::thread::JoinHandle<()>>,
    base: usize,
}

impl Session {
    fn new(epk: &str, ack: bool) -> Session {
        install_controller();
        let (a, b) = UnixStream::pair().expect("socketpair");
        let sh = Arc::new(PeerShared {
            log: Mutex::new(Vec::new()),
            idle: AtomicBool::new(false),
            stop: AtomicBool::new(false),
            early: AtomicU64::new(0),
            reply_ack: AtomicBool::new(false),
            fault: Mutex::new(None),
        });
        let peer_ctl = b.try_clone().expect("clone");
        let peer_fd = peer_ctl.as_raw_fd();
        let sh2 = sh.clone();
        let epn = epk.to_string();
        let peer_thread = Some(std::thread::spawn(move || peer_loop(b, epn, sh2)));
        let ep = match epk {
            "fe" => {
                let mut fe = Frontend::from_stream(a, MAX_QUEUES);
                let f = fe.get_features().expect("setup get_features");
                fe.set_features(f).expect("setup set_features");
                let p = fe.get_protocol_features().expect("setup get_protocol_features");
                let mut want = p.bits();
                if !ack {
                    want &= !0x8;
                }
                fe.set_protocol_features(VhostUserProtocolFeatures::from_bits_truncate(want))
                    .expect("setup set_protocol_features");
                if ack {
                    fe.set_hdr_flags(VhostUserHeaderFlag::NEED_REPLY);
                }
                Ep::Fe(fe)
            }
            "be" => {
                let be = Backend::from_stream(a);
                be.set_shared_object_flag(true);
                be.set_shmem_flag(true);
                be.set_reply_ack_flag(ack);
                Ep::Be(be)
            }
            "gpu" => Ep::Gpu(GpuBackend::from_stream(a)),
            _ => panic!("unknown endpoint kind {epk}"),
        };
        let mut s = Session {
            ep,
            sh,
            peer_fd,
            peer_ctl,
            peer_thread,
            base: 0,
        };
        s.wait_peer_idle(Duration::from_secs(2));
        s.base = s.sh.log.lock().unwrap().len();
        s
    }

    /// the peer has processed everything written so far
    fn wait_peer_idle(&self, max: Duration) -> bool {
        let t0 = Instant::now();
        loop {
            let empty = !readable_now(self.peer_fd);
            if empty && self.sh.idle.load(Ordering::SeqCst) {
                return true;
            }
            if t0.elapsed() > max {
                return false;
            }
            std::thread::sleep(Duration::from_micros(100));
        }
    }

    fn seen(&self) -> Vec<String> {
        self.sh.log.lock().unwrap()[self.base..].to_vec()
    }

    fn finish(mut self) {
        self.sh.stop.store(true, Ordering::SeqCst);
        // unblock readers that wait for bytes that will never come (only after a violation)
        let _ = self.peer_ctl.shutdown(std::net::Shutdown::Both);
        if let Some(t) = self.peer_thread.take() {
            let _ = t.join();
        }
    }
}

fn env_ms(name: &str, default: u64) -> u64 {
    std::env::var(name)
        .ok()
        .and_then(|v| v.parse().ok())
        .unwrap_or(default)
}

/// 'R' (running/runnable), 'S' (sleeping), ... of one of our threads; '?' if unknown
fn thread_state(tid: i32) -> char {
    if tid == 0 {
        return 'R';
    }
    match std::fs::read_to_string(format!("/proc/self/task/{tid}/stat")) {
        Ok(s) => s
            .rfind(") ")
            .and_then(|i| s[i + 2..].chars().next())
            .unwrap_or('?'),
        Err(_) => '?',
    }
}

fn spawn_caller(ep: Ep, tag: String, slot: Arc<Slot>) {
    slot.st.lock().unwrap().status = Status::Running;
    std::thread::spawn(move || {
        SLOT.with(|s| *s.borrow_mut() = Some(slot.clone()));
        // SAFETY: gettid has no preconditions.
        slot.st.lock().unwrap().tid = unsafe { libc::syscall(libc::SYS_gettid) } as i32;
        let r = std::panic::catch_unwind(std::panic::AssertUnwindSafe(|| do_call(&ep, &tag)));
        let res = r.unwrap_or_else(|_| "panic".to_string());
        let mut g = slot.st.lock().unwrap();
        g.result = Some(res);
        g.status = Status::Done;
    });
}

/// wait until every started thread is parked or done; threads that make no progress for the bounded
/// wait are left `Running` (= blocked). A thread that is merely starved of CPU (state R) extends the wait.
fn settle(slots: &[Arc<Slot>], block: Duration) {
    let t0 = Instant::now();
    let hard = Duration::from_millis(env_ms("VERIF_LOCKS_HARD_MS", 3000));
    loop {
        let running: Vec<i32> = slots
            .iter()
            .filter_map(|s| {
                let g = s.st.lock().unwrap();
                if g.status == Status::Running {
                    Some(g.tid)
                } else {
                    None
                }
            })
            .collect();
        if running.is_empty() {
            return;
        }
        let el = t0.elapsed();
        if el > block {
            let starved = running.iter().any(|t| thread_state(*t) == 'R');
            if !starved || el > hard {
                return;
            }
        }
        std::thread::sleep(Duration::from_micros(100));
    }
}

fn snapshot(slots: &[Arc<Slot>]) -> String {
    slots
        .iter()
        .map(|s| match s.status() {
            Status::NotStarted => '-',
            Status::Running => 'b',
            Status::Parked => 'h',
            Status::Done => 'd',
        })
        .collect()
}

fn run_sched(epk: &str, ack: bool, calls: &[&str], sched: &[&str], fault: Option<(usize, FaultKind)>) -> String {
    let block = Duration::from_millis(env_ms("VERIF_LOCKS_WAIT_MS", 150));
    let watchdog = Duration::from_millis(env_ms("VERIF_LOCKS_WATCHDOG_MS", 3000));
    let sess = Session::new(epk, ack);
    if let Some((k, kind)) = fault {
        assert!(k < calls.len(), "fault refers to a thread that does not exist");
        assert!(
            calls.iter().filter(|c| **c == calls[k]).count() == 1,
            "the faulted call must be unique among the calls"
        );
        // armed after the set-up requests of `Session::new`
        *sess.sh.fault.lock().unwrap() = Some(Fault {
            tag: calls[k].to_string(),
            kind,
            once: true,
        });
    }
    let slots: Vec<Arc<Slot>> = calls.iter().map(|_| Slot::new()).collect();
    let mut snaps: Vec<String> = Vec::new();
    for ev in sched {
        let (kind, idx) = ev.split_at(1);
        let i: usize = idx.parse().expect("bad event index");
        assert!(i < calls.len(), "event refers to a thread that does not exist");
        match kind {
            "s" => {
                if slots[i].status() == Status::NotStarted {
                    spawn_caller(sess.ep.clone(), calls[i].to_string(), slots[i].clone());
                }
            }
            "r" => slots[i].release(),
            _ => panic!("bad event {ev}"),
        }
        settle(&slots, block);
        sess.wait_peer_idle(Duration::from_secs(1));
        snaps.push(format!("{}:{}/{:x}", ev, snapshot(&slots), sess.seen().len()));
    }
    // drain: release everybody, wait for completion under the watchdog
    for s in &slots {
        s.release();
    }
    settle(&slots, watchdog);
    sess.wait_peer_idle(Duration::from_secs(1));
    snaps.push(format!("end:{}/{:x}", snapshot(&slots), sess.seen().len()));
    let order = sess.seen();
    let got: Vec<String> = slots
        .iter()
        .map(|s| s.st.lock().unwrap().result.clone().unwrap_or_else(|| "none".into()))
        .map(|r| if fault.is_some() && r.starts_with("err") { "err".to_string() } else { r })
        .collect();
    let done: String = slots
        .iter()
        .map(|s| if s.status() == Status::Done { '1' } else { '0' })
        .collect();
    sess.finish();
    format!(
        "snaps={} order={} got={} done={}",
        snaps.join(","),
        if order.is_empty() { "-".to_string() } else { order.join(",") },
        got.join(","),
        done
    )
}

// ------------------------------------------------------------------------------------------------
// stress

pub const STRESS_FE: &[&str] = &[
    "gf", "gpf", "gqn", "gmms", "gvb0", "gvb1", "gvb2", "gvb3", "gcfg10", "gcfg20", "sdsf", "cds", "so",
    "sf40001111", "svn1.100", "svn2.8000", "svb3.7", "svb4.8001", "scfg30", "gvb40", "ro", "rd", "smt", "amr",
    "rmr", "slbr", "slf", "sbrf", "gso", "pca", "pcl", "pce", "gsc", "gif2", "gif3", "sif2", "sva1", "svc2", "svk3",
    "svr4", "sen5", "svc40", "spfe",
];
pub const STRESS_BE: &[&str] = &[
    "soa1.0", "soa2.1", "sor3.0", "sor4.1", "sol5.0", "sol6.1", "smap7.0", "smap8.1", "sunm9.0", "sunma.1",
];
pub const STRESS_GPU: &[&str] = &[
    "gpf", "gdi", "ged0", "ged1", "ged2", "uds1", "uds2", "spf", "sc1", "cp2", "cph3", "us4", "ds5", "cu", "dt6",
];

fn lcg(x: u64) -> u64 {
    x.wrapping_mul(6364136223846793005)
        .wrapping_add(1442695040888963407)
}

fn run_stress(
    epk: &str,
    ack: bool,
    threads: usize,
    per: usize,
    seed: u64,
    only: Option<&str>,
    fault: Option<(&str, FaultKind)>,
) -> String {
    let full: &'static [&'static str] = match epk {
        "fe" => STRESS_FE,
        "be" => STRESS_BE,
        _ => STRESS_GPU,
    };
    let list: Vec<String> = match only {
        Some(o) => o.split(',').map(|x| x.to_string()).collect(),
        None => full.iter().map(|x| x.to_string()).collect(),
    };
    let list = Arc::new(list);
    let sess = Session::new(epk, ack);
    let ftag: Option<String> = fault.map(|(t, _)| t.to_string());
    if let Some((t, kind)) = fault {
        assert!(kind != FaultKind::Close, "fault kind close is not for the stress mode");
        *sess.sh.fault.lock().unwrap() = Some(Fault {
            tag: t.to_string(),
            kind,
            once: false,
        });
    }
    let results: Vec<Arc<Mutex<Option<(u64, u64, u64)>>>> =
        (0..threads).map(|_| Arc::new(Mutex::new(None))).collect();
    let start = Arc::new(std::sync::Barrier::new(threads));
    for t in 0..threads {
        let ep = sess.ep.clone();
        let out = results[t].clone();
        let epk = epk.to_string();
        let start = start.clone();
        let list = list.clone();
        let ftag = ftag.clone();
        std::thread::spawn(move || {
            let mut x = seed.wrapping_mul(0x9E37_79B9_7F4A_7C15).wrapping_add(t as u64);
            let (mut ok, mut err, mut bad) = (0u64, 0u64, 0u64);
            start.wait();
            for _ in 0..per {
                x = lcg(x);
                let tag = list[((x >> 33) % list.len() as u64) as usize].as_str();
                let r = std::panic::catch_unwind(std::panic::AssertUnwindSafe(|| do_call(&ep, tag)))
                    .unwrap_or_else(|_| "panic".into());
                if ftag.as_deref() == Some(tag) {
                    // every reply to this request is faulty: an error, never a value
                    if !r.starts_with("err") {
                        bad += 1;
                    }
                } else if r != expected(&epk, ack, tag) {
                    bad += 1;
                }
                if r.starts_with("ok") {
                    ok += 1
                } else {
                    err += 1
                }
            }
            *out.lock().unwrap() = Some((ok, err, bad));
        });
    }
    let watchdog = Duration::from_millis(env_ms("VERIF_LOCKS_STRESS_WATCHDOG_MS", 20000));
    let t0 = Instant::now();
    loop {
        if results.iter().all(|r| r.lock().unwrap().is_some()) || t0.elapsed() > watchdog {
            break;
        }
        std::thread::sleep(Duration::from_millis(1));
    }
    sess.wait_peer_idle(Duration::from_secs(1));
    let mut done = 0u64;
    let mut bad = 0u64;
    let mut oks: Vec<String> = Vec::new();
    for r in &results {
        match *r.lock().unwrap() {
            Some((ok, err, b)) => {
                done += 1;
                bad += b;
                oks.push(format!("{ok:x}.{err:x}"));
            }
            None => oks.push("none".into()),
        }
    }
    let reqs = sess.seen().len();
    let early = sess.sh.early.load(Ordering::SeqCst);
    sess.finish();
    format!(
        "calls={:x} ok={} bad={:x} early={:x} done={:x} reqs={:x}",
        threads * per,
        oks.join(","),
        bad,
        early,
        done,
        reqs
    )
}

pub fn run(line: &str) -> String {
    let toks: Vec<&str> = line.split_whitespace().collect();
    let epk = kv(&toks, "ep").expect("ep=");
    let ack = kv(&toks, "ack").unwrap_or("0") == "1";
    if let Some(st) = kv(&toks, "stress") {
        let mut it = st.split('x');
        let threads: usize = it.next().unwrap().parse().expect("threads");
        let per: usize = it.next().unwrap().parse().expect("calls per thread");
        let seed = u64::from_str_radix(kv(&toks, "seed").unwrap_or("1"), 16).expect("seed");
        let fault = kv(&toks, "fault").map(|f| {
            let (t, k) = f.split_once(':').expect("fault=<tag>:<kind>");
            (t, fault_kind(k))
        });
        return run_stress(epk, ack, threads, per, seed, kv(&toks, "only"), fault);
    }
    let calls: Vec<&str> = kv(&toks, "calls").expect("calls=").split(',').collect();
    let sched: Vec<&str> = kv(&toks, "sched")
        .expect("sched=")
        .split(',')
        .filter(|s| !s.is_empty() && *s != "-")
        .collect();
    let fault = kv(&toks, "fault").map(|f| {
        let (k, kind) = f.split_once(':').expect("fault=<k>:<kind>");
        (k.parse::<usize>().expect("fault thread index"), fault_kind(kind))
    });
    run_sched(epk, ack, &calls, &sched, fault)
}
