//! family `kern` (property C19): every trait operation of the kernel-vhost, vhost-net, vhost-vsock and
//! vhost-vDPA backends is executed on a dummy descriptor whose `ioctl`/`write` calls are captured by the
//! LD_PRELOAD interposer `tools/ioctl_interpose.c`.
//!
//! scenario:  kern be=<kern|net|vsock|vdpa|none> op=<op> a=<hex,hex,..|-> buf=<hex|-> mem=<gpa:size:hva,..|->
//!                 feat=<hex> wb=<hex|-> rc=<0|1>
//! observation: calls=<io:<request hex>:<argument bytes hex>|wr:<bytes hex>|rd:<count>,...|->
//!              ret=<ok|ok:<value>|okb:<bytes>|ok2:<a>:<b>|ok5:<iova>:<size>:<uaddr>:<perm>:<type>|lay:<size>:<align>:<field>@<off>..|err:<class>>
//!              [acked=<hex>]
//!
//! Canonical by construction: descriptor numbers that end up in argument bytes are the numbers given by the
//! scenario (wrapped without ever being opened or closed), and guest memory is mapped at the host addresses
//! given by the scenario (MAP_FIXED_NOREPLACE), so translated ring addresses are scenario-determined.
use crate::util::*;
use std::fs::File;
use std::mem::ManuallyDrop;
use std::os::unix::io::{AsRawFd, FromRawFd, RawFd};

use vhost::net::VhostNet;
use vhost::vdpa::VhostVdpa;
use vhost::vhost_kern::net::Net;
use vhost::vhost_kern::vdpa::VhostKernVdpa;
use vhost::vhost_kern::vhost_binding::*;
use vhost::vhost_kern::vsock::Vsock;
use vhost::vhost_kern::{VhostKernBackend, VhostKernFeatures};
use vhost::vsock::VhostVsock;
use vhost::{
    Error, VhostAccess, VhostBackend, VhostIotlbBackend, VhostIotlbMsg, VhostIotlbMsgParser, VhostIotlbType,
    VhostUserDirtyLogRegion, VhostUserMemoryRegionInfo, VringConfigData,
};
use vm_memory::{GuestAddress, GuestMemoryMmap, GuestRegionMmap, MmapRegion};
use vmm_sys_util::eventfd::EventFd;

const VERIF_CTL: libc::c_ulong = 0x5645_5249;

#[repr(C)]
struct Ctl {
    enable: u64,
    log: u64,
    log_cap: u64,
    log_len: u64,
    wb: u64,
    wb_len: u64,
    rc: i64,
}

/// the blanket `VhostBackend`/`VhostIotlbBackend` impls on a type of our own ("kernel-vhost" backend)
struct KernDummy<'a> {
    fd: File,
    mem: &'a GuestMemoryMmap,
    acked: u64,
}
impl<'a> VhostKernBackend for KernDummy<'a> {
    type AS = &'a GuestMemoryMmap;
    fn mem(&self) -> &Self::AS {
        &self.mem
    }
}
impl<'a> AsRawFd for KernDummy<'a> {
    fn as_raw_fd(&self) -> RawFd {
        self.fd.as_raw_fd()
    }
}
impl<'a> VhostKernFeatures for KernDummy<'a> {
    fn get_backend_features_acked(&self) -> u64 {
        self.acked
    }
    fn set_backend_features_acked(&mut self, features: u64) {
        self.acked = features;
    }
}

fn err_class(e: &Error) -> &'static str {
    match e {
        Error::InvalidOperation => "invalidop",
        Error::InvalidGuestMemory => "invalidmem",
        Error::InvalidGuestMemoryRegion => "invalidregion",
        Error::InvalidIotlbMsg => "iotlb",
        Error::InvalidQueue => "invalidqueue",
        Error::DescriptorTableAddress => "desc",
        Error::UsedAddress => "used",
        Error::AvailAddress => "avail",
        Error::LogAddress => "logaddr",
        Error::VhostOpen(_) => "open",
        Error::IoctlError(_) => "ioctl",
        Error::IOError(_) => "io",
        Error::VhostUserProtocol(_) => "proto",
    }
}

fn unit(r: vhost::Result<()>) -> String {
    match r {
        Ok(()) => "ok".into(),
        Err(e) => format!("err:{}", err_class(&e)),
    }
}
fn val<T: Into<u64>>(r: vhost::Result<T>) -> String {
    match r {
        Ok(v) => format!("ok:{:x}", v.into()),
        Err(e) => format!("err:{}", err_class(&e)),
    }
}

struct Mapping {
    addr: *mut libc::c_void,
    size: usize,
}
impl Drop for Mapping {
    fn drop(&mut self) {
        // SAFETY: unmapping what this harness mapped
        unsafe {
            libc::munmap(self.addr, self.size);
        }
    }
}

fn build_mem(spec: &str) -> Result<(GuestMemoryMmap, Vec<Mapping>), String> {
    if spec == "-" {
        return Ok((GuestMemoryMmap::new(), vec![]));
    }
    let mut maps = vec![];
    let mut regions = vec![];
    for r in spec.split(',') {
        let p: Vec<&str> = r.split(':').collect();
        if p.len() != 3 {
            return Err("bad-mem-syntax".into());
        }
        let (gpa, size, hva) = (parse_hex_u64(p[0]), parse_hex_u64(p[1]) as usize, parse_hex_u64(p[2]));
        let prot = libc::PROT_READ | libc::PROT_WRITE;
        let flags = libc::MAP_PRIVATE | libc::MAP_ANONYMOUS | libc::MAP_NORESERVE;
        // SAFETY: fresh anonymous mapping at an address that must be free (FIXED_NOREPLACE)
        let a = unsafe { libc::mmap(hva as *mut libc::c_void, size, prot, flags | libc::MAP_FIXED_NOREPLACE, -1, 0) };
        if a == libc::MAP_FAILED || a as u64 != hva {
            if a != libc::MAP_FAILED {
                unsafe { libc::munmap(a, size) };
            }
            return Err("mmap-failed".into());
        }
        maps.push(Mapping { addr: a, size });
        // SAFETY: the mapping above stays alive until `maps` is dropped, after the guest memory object
        let mr = unsafe { MmapRegion::<()>::build_raw(a as *mut u8, size, prot, flags) }.map_err(|_| "bad-mem".to_string())?;
        let gr = GuestRegionMmap::new(mr, GuestAddress(gpa)).ok_or_else(|| "bad-mem".to_string())?;
        regions.push(gr);
    }
    let m = GuestMemoryMmap::from_regions(regions).map_err(|_| "bad-mem".to_string())?;
    Ok((m, maps))
}

fn fake_eventfd(n: u64) -> ManuallyDrop<EventFd> {
    // SAFETY: the number is never used as a descriptor: the only consumer is `as_raw_fd()` and the object
    // is never dropped, so nothing is closed.
    ManuallyDrop::new(unsafe { EventFd::from_raw_fd(n as i32) })
}
fn fake_file(n: u64) -> ManuallyDrop<File> {
    // SAFETY: as above
    ManuallyDrop::new(unsafe { File::from_raw_fd(n as i32) })
}

fn vhost_backend_op<B: VhostBackend + VhostKernBackend>(b: &B, op: &str, a: &[u64]) -> Option<String> {
    let g = |i: usize| a.get(i).copied().expect("missing argument");
    Some(match op {
        "get_features" => val(b.get_features()),
        "set_features" => unit(b.set_features(g(0))),
        "set_owner" => unit(b.set_owner()),
        "reset_owner" => unit(b.reset_owner()),
        "set_mem_table" => {
            let regs: Vec<VhostUserMemoryRegionInfo> = a
                .chunks(3)
                .map(|c| VhostUserMemoryRegionInfo {
                    guest_phys_addr: c[0],
                    memory_size: c[1],
                    userspace_addr: c[2],
                    mmap_offset: 0x77,
                    mmap_handle: 5,
                })
                .collect();
            unit(b.set_mem_table(&regs))
        }
        "set_log_base" => {
            let region = if g(1) != 0 {
                Some(VhostUserDirtyLogRegion { mmap_size: 0x1000, mmap_offset: 0, mmap_handle: 7 })
            } else {
                None
            };
            unit(b.set_log_base(g(0), region))
        }
        "set_log_fd" => unit(b.set_log_fd(g(0) as u32 as i32)),
        "set_vring_num" => unit(b.set_vring_num(g(0) as usize, g(1) as u16)),
        "set_vring_base" => unit(b.set_vring_base(g(0) as usize, g(1) as u16)),
        "get_vring_base" => val(b.get_vring_base(g(0) as usize)),
        "set_vring_call" => unit(b.set_vring_call(g(0) as usize, &fake_eventfd(g(1)))),
        "set_vring_kick" => unit(b.set_vring_kick(g(0) as usize, &fake_eventfd(g(1)))),
        "set_vring_err" => unit(b.set_vring_err(g(0) as usize, &fake_eventfd(g(1)))),
        "is_valid" => format!("ok:{:x}", b.is_valid(&ring_cfg(&a[1..])) as u64),
        _ => return None,
    })
}

/// a = [q, qmax, qsize, flags, desc, used, avail, haslog, log]; this takes a[1..]
fn ring_cfg(a: &[u64]) -> VringConfigData {
    VringConfigData {
        queue_max_size: a[0] as u16,
        queue_size: a[1] as u16,
        flags: a[2] as u32,
        desc_table_addr: a[3],
        used_ring_addr: a[4],
        avail_ring_addr: a[5],
        log_addr: if a[6] != 0 { Some(a[7]) } else { None },
    }
}

fn iotlb_of(a: &[u64]) -> Option<VhostIotlbMsg> {
    let perm = match a[3] {
        0 => VhostAccess::No,
        1 => VhostAccess::ReadOnly,
        2 => VhostAccess::WriteOnly,
        3 => VhostAccess::ReadWrite,
        _ => return None,
    };
    let ty = match a[4] {
        0 => VhostIotlbType::Empty,
        1 => VhostIotlbType::Miss,
        2 => VhostIotlbType::Update,
        3 => VhostIotlbType::Invalidate,
        4 => VhostIotlbType::AccessFail,
        5 => VhostIotlbType::BatchBegin,
        6 => VhostIotlbType::BatchEnd,
        _ => return None,
    };
    Some(VhostIotlbMsg { iova: a[0], size: a[1], userspace_addr: a[2], perm, msg_type: ty })
}

fn features_op<B: VhostKernFeatures + VhostIotlbBackend>(b: &mut B, op: &str, a: &[u64]) -> Option<String> {
    Some(match op {
        "get_backend_features" => val(b.get_backend_features()),
        "set_backend_features" => {
            let r = unit(b.set_backend_features(a[0]));
            format!("{} acked={:x}", r, b.get_backend_features_acked())
        }
        "send_iotlb_msg" => match iotlb_of(a) {
            Some(m) => unit(b.send_iotlb_msg(&m)),
            None => return Some("bad-enum-value".into()),
        },
        _ => return None,
    })
}

fn parsed(r: vhost::Result<()>, m: &VhostIotlbMsg) -> String {
    match r {
        Ok(()) => format!("ok5:{:x}:{:x}:{:x}:{:x}:{:x}", m.iova, m.size, m.userspace_addr, m.perm as u8, m.msg_type as u8),
        Err(e) => format!("err:{}", err_class(&e)),
    }
}

macro_rules! lay {
    ($t:ty, $($f:tt),*) => {{
        let mut s = format!("lay:{}:{}", std::mem::size_of::<$t>(), std::mem::align_of::<$t>());
        $( s.push_str(&format!(":{}@{}", stringify!($f), std::mem::offset_of!($t, $f))); )*
        s
    }};
}

/// size, alignment and field offsets as rustc lays the binding structs out
fn layout_of(name: &str) -> String {
    match name {
        "vhost_vring_state" => lay!(vhost_vring_state, index, num),
        "vhost_vring_file" => lay!(vhost_vring_file, index, fd),
        "vhost_vring_addr" => lay!(vhost_vring_addr, index, flags, desc_user_addr, used_user_addr, avail_user_addr, log_guest_addr),
        "vhost_iotlb_msg" => lay!(vhost_iotlb_msg, iova, size, uaddr, perm, type_),
        "vhost_msg" => lay!(vhost_msg, type_, __bindgen_anon_1),
        "vhost_msg__bindgen_ty_1" => lay!(vhost_msg__bindgen_ty_1, iotlb, padding),
        "vhost_msg_v2" => lay!(vhost_msg_v2, type_, reserved, __bindgen_anon_1),
        "vhost_msg_v2__bindgen_ty_1" => lay!(vhost_msg_v2__bindgen_ty_1, iotlb, padding),
        "vhost_memory_region" => lay!(vhost_memory_region, guest_phys_addr, memory_size, userspace_addr, flags_padding),
        "vhost_memory" => lay!(vhost_memory, nregions, padding, regions),
        "vhost_scsi_target" => lay!(vhost_scsi_target, abi_version, vhost_wwpn, vhost_tpgt, reserved),
        "vhost_vdpa_config" => lay!(vhost_vdpa_config, off, len, buf),
        "vhost_vdpa_iova_range" => lay!(vhost_vdpa_iova_range, first, last),
        _ => "unknown-type".into(),
    }
}

/// request number as the crate's `VHOST_*()` function computes it
fn request_of(name: &str) -> String {
    let v: u64 = match name {
        "VHOST_GET_FEATURES" => VHOST_GET_FEATURES(),
        "VHOST_SET_FEATURES" => VHOST_SET_FEATURES(),
        "VHOST_SET_OWNER" => VHOST_SET_OWNER(),
        "VHOST_RESET_OWNER" => VHOST_RESET_OWNER(),
        "VHOST_SET_MEM_TABLE" => VHOST_SET_MEM_TABLE(),
        "VHOST_SET_LOG_BASE" => VHOST_SET_LOG_BASE(),
        "VHOST_SET_LOG_FD" => VHOST_SET_LOG_FD(),
        "VHOST_SET_VRING_NUM" => VHOST_SET_VRING_NUM(),
        "VHOST_SET_VRING_ADDR" => VHOST_SET_VRING_ADDR(),
        "VHOST_SET_VRING_BASE" => VHOST_SET_VRING_BASE(),
        "VHOST_GET_VRING_BASE" => VHOST_GET_VRING_BASE(),
        "VHOST_SET_VRING_KICK" => VHOST_SET_VRING_KICK(),
        "VHOST_SET_VRING_CALL" => VHOST_SET_VRING_CALL(),
        "VHOST_SET_VRING_ERR" => VHOST_SET_VRING_ERR(),
        "VHOST_SET_BACKEND_FEATURES" => VHOST_SET_BACKEND_FEATURES(),
        "VHOST_GET_BACKEND_FEATURES" => VHOST_GET_BACKEND_FEATURES(),
        "VHOST_NET_SET_BACKEND" => VHOST_NET_SET_BACKEND(),
        "VHOST_SCSI_SET_ENDPOINT" => VHOST_SCSI_SET_ENDPOINT(),
        "VHOST_SCSI_CLEAR_ENDPOINT" => VHOST_SCSI_CLEAR_ENDPOINT(),
        "VHOST_SCSI_GET_ABI_VERSION" => VHOST_SCSI_GET_ABI_VERSION(),
        "VHOST_SCSI_SET_EVENTS_MISSED" => VHOST_SCSI_SET_EVENTS_MISSED(),
        "VHOST_SCSI_GET_EVENTS_MISSED" => VHOST_SCSI_GET_EVENTS_MISSED(),
        "VHOST_VSOCK_SET_GUEST_CID" => VHOST_VSOCK_SET_GUEST_CID(),
        "VHOST_VSOCK_SET_RUNNING" => VHOST_VSOCK_SET_RUNNING(),
        "VHOST_VDPA_GET_DEVICE_ID" => VHOST_VDPA_GET_DEVICE_ID(),
        "VHOST_VDPA_GET_STATUS" => VHOST_VDPA_GET_STATUS(),
        "VHOST_VDPA_SET_STATUS" => VHOST_VDPA_SET_STATUS(),
        "VHOST_VDPA_GET_CONFIG" => VHOST_VDPA_GET_CONFIG(),
        "VHOST_VDPA_SET_CONFIG" => VHOST_VDPA_SET_CONFIG(),
        "VHOST_VDPA_SET_VRING_ENABLE" => VHOST_VDPA_SET_VRING_ENABLE(),
        "VHOST_VDPA_GET_VRING_NUM" => VHOST_VDPA_GET_VRING_NUM(),
        "VHOST_VDPA_SET_CONFIG_CALL" => VHOST_VDPA_SET_CONFIG_CALL(),
        "VHOST_VDPA_GET_IOVA_RANGE" => VHOST_VDPA_GET_IOVA_RANGE(),
        "VHOST_VDPA_GET_CONFIG_SIZE" => VHOST_VDPA_GET_CONFIG_SIZE(),
        "VHOST_VDPA_GET_VQS_COUNT" => VHOST_VDPA_GET_VQS_COUNT(),
        "VHOST_VDPA_GET_GROUP_NUM" => VHOST_VDPA_GET_GROUP_NUM(),
        "VHOST_VDPA_GET_AS_NUM" => VHOST_VDPA_GET_AS_NUM(),
        "VHOST_VDPA_GET_VRING_GROUP" => VHOST_VDPA_GET_VRING_GROUP(),
        "VHOST_VDPA_SET_GROUP_ASID" => VHOST_VDPA_SET_GROUP_ASID(),
        "VHOST_VDPA_SUSPEND" => VHOST_VDPA_SUSPEND(),
        _ => return "unknown-request".into(),
    };
    format!("ok:{:x}", v)
}

/// `vhost_msg { type_: .., ..Default::default() }` leaves the padding between `type_` (c_int) and the
/// 8-aligned union uninitialised (struct-update syntax copies fields, not padding), so those bytes are
/// whatever was on the stack.  No specification defines them: they are printed as zero (DESIGN.md A.2).
fn mask_v1_padding(data: &mut [u8]) {
    let start = std::mem::offset_of!(vhost_msg, type_) + std::mem::size_of::<std::os::raw::c_int>();
    let end = std::mem::offset_of!(vhost_msg, __bindgen_anon_1);
    if data.len() == std::mem::size_of::<vhost_msg>()
        && data.len() >= 4
        && u32::from_le_bytes(data[0..4].try_into().unwrap()) == VHOST_IOTLB_MSG as u32
    {
        for b in &mut data[start..end] {
            *b = 0;
        }
    }
}

fn from_bytes<T: Copy>(b: &[u8]) -> Option<T> {
    if b.len() != std::mem::size_of::<T>() {
        return None;
    }
    // SAFETY: plain-old-data binding structs
    Some(unsafe { std::ptr::read_unaligned(b.as_ptr() as *const T) })
}

pub fn run(line: &str) -> String {
    let toks: Vec<&str> = line.split_whitespace().collect();
    let be = kv(&toks, "be").unwrap_or("none");
    let op = kv(&toks, "op").unwrap_or("");
    let a: Vec<u64> = match kv(&toks, "a") {
        None | Some("-") => vec![],
        Some(s) => s.split(',').map(parse_hex_u64).collect(),
    };
    let buf = hex_to_bytes(kv(&toks, "buf").unwrap_or("-"));
    let feat = parse_hex_u64(kv(&toks, "feat").unwrap_or("0"));
    let wb = hex_to_bytes(kv(&toks, "wb").unwrap_or("-"));
    let rc: i64 = if kv(&toks, "rc").unwrap_or("0") == "0" { 0 } else { -1 };

    // operations that need no descriptor ------------------------------------------------------
    if be == "none" {
        if let Some(name) = op.strip_prefix("layout:") {
            return format!("calls=- ret={}", layout_of(name));
        }
        if let Some(name) = op.strip_prefix("request:") {
            return format!("calls=- ret={}", request_of(name));
        }
        match op {
            "parse_v1" | "parse_v2" => {
                let mut m = VhostIotlbMsg::default();
                // the parsers transmute the perm/type bytes into Rust enums: bytes outside the enums'
                // ranges are undefined behaviour and outside the property's domain
                let r = if op == "parse_v1" {
                    let Some(raw) = from_bytes::<vhost_msg>(&buf) else { return "bad-size".into() };
                    // SAFETY: plain bytes
                    let (p, t) = unsafe { (raw.__bindgen_anon_1.iotlb.perm, raw.__bindgen_anon_1.iotlb.type_) };
                    if p > 3 || t > 6 {
                        return "bad-enum-value".into();
                    }
                    raw.parse(&mut m)
                } else {
                    let Some(raw) = from_bytes::<vhost_msg_v2>(&buf) else { return "bad-size".into() };
                    // SAFETY: plain bytes
                    let (p, t) = unsafe { (raw.__bindgen_anon_1.iotlb.perm, raw.__bindgen_anon_1.iotlb.type_) };
                    if p > 3 || t > 6 {
                        return "bad-enum-value".into();
                    }
                    raw.parse(&mut m)
                };
                return format!("calls=- ret={}", parsed(r, &m));
            }
            _ => return "bad-op".into(),
        }
    }

    let (mem, _maps) = match build_mem(kv(&toks, "mem").unwrap_or("-")) {
        Ok(x) => x,
        Err(e) => return e,
    };
    let file = match File::options().read(true).write(true).open("/dev/null") {
        Ok(f) => f,
        Err(_) => return "no-dev-null".into(),
    };
    let raw = file.as_raw_fd();
    let mut log = vec![0u8; 1 << 16];
    let mut log_len: u64 = 0;
    let ctl = Ctl {
        enable: 1,
        log: log.as_mut_ptr() as u64,
        log_cap: log.len() as u64,
        log_len: &mut log_len as *mut u64 as u64,
        wb: wb.as_ptr() as u64,
        wb_len: wb.len() as u64,
        rc,
    };
    // SAFETY: control request understood only by the interposer; the kernel answers ENOTTY on /dev/null
    let present = unsafe { libc::ioctl(raw, VERIF_CTL, &ctl as *const Ctl) };
    if present != 0x5645 {
        return "no-interposer".into();
    }

    let g = |i: usize| a.get(i).copied().expect("missing argument");
    let ret: String = match be {
        "kern" => {
            let mut b = KernDummy { fd: file, mem: &mem, acked: feat };
            if op == "set_vring_addr" {
                unit(b.set_vring_addr(g(0) as usize, &ring_cfg(&a[1..])))
            } else if let Some(r) = vhost_backend_op(&b, op, &a) {
                r
            } else if let Some(r) = features_op(&mut b, op, &a) {
                r
            } else {
                "bad-op".into()
            }
        }
        "net" => {
            let b = Net::with_fd(file, &mem);
            if op == "set_vring_addr" {
                unit(b.set_vring_addr(g(0) as usize, &ring_cfg(&a[1..])))
            } else if op == "set_backend" {
                if g(1) != 0 {
                    let f = fake_file(g(2));
                    unit(b.set_backend(g(0) as usize, Some(&f)))
                } else {
                    unit(b.set_backend(g(0) as usize, None))
                }
            } else if let Some(r) = vhost_backend_op(&b, op, &a) {
                r
            } else {
                "bad-op".into()
            }
        }
        "vsock" => {
            let b = Vsock::with_fd(file, &mem);
            match op {
                "set_vring_addr" => unit(b.set_vring_addr(g(0) as usize, &ring_cfg(&a[1..]))),
                "set_guest_cid" => unit(b.set_guest_cid(g(0))),
                "start" => unit(b.start()),
                "stop" => unit(b.stop()),
                _ => vhost_backend_op(&b, op, &a).unwrap_or_else(|| "bad-op".into()),
            }
        }
        "vdpa" => {
            let mut b = VhostKernVdpa::with(file, &mem, feat);
            match op {
                // plain method call syntax: resolves to the inherent method (addresses unchanged)
                "set_vring_addr" => unit(b.set_vring_addr(g(0) as usize, &ring_cfg(&a[1..]))),
                "get_device_id" => val(b.get_device_id()),
                "get_status" => val(b.get_status()),
                "set_status" => unit(b.set_status(g(0) as u8)),
                "get_config" => {
                    let mut out = vec![0u8; g(1) as usize];
                    let r = b.get_config(g(0) as u32, &mut out);
                    match r {
                        Ok(()) => format!("okb:{}", bytes_to_hex(&out)),
                        Err(e) => format!("err:{}", err_class(&e)),
                    }
                }
                "set_config" => unit(b.set_config(g(0) as u32, &buf)),
                "set_vring_enable" => unit(b.set_vring_enable(g(0) as usize, g(1) != 0)),
                "get_vring_num" => val(b.get_vring_num()),
                "set_config_call" => unit(b.set_config_call(&fake_eventfd(g(0)))),
                "get_iova_range" => match b.get_iova_range() {
                    Ok(r) => format!("ok2:{:x}:{:x}", r.first, r.last),
                    Err(e) => format!("err:{}", err_class(&e)),
                },
                "get_config_size" => val(b.get_config_size()),
                "get_vqs_count" => val(b.get_vqs_count()),
                "get_group_num" => val(b.get_group_num()),
                "get_as_num" => val(b.get_as_num()),
                "get_vring_group" => val(b.get_vring_group(g(0) as u32)),
                "set_group_asid" => unit(b.set_group_asid(g(0) as u32, g(1) as u32)),
                "suspend" => unit(b.suspend()),
                "dma_map" => unit(b.dma_map(g(0), g(1), g(2) as usize as *const u8, g(3) != 0)),
                "dma_unmap" => unit(b.dma_unmap(g(0), g(1))),
                _ => {
                    if let Some(r) = vhost_backend_op(&b, op, &a) {
                        r
                    } else if let Some(r) = features_op(&mut b, op, &a) {
                        r
                    } else {
                        "bad-op".into()
                    }
                }
            }
        }
        _ => "bad-backend".into(),
    };
    // the backend (and with it the dummy descriptor) is dropped by now; un-mark
    let off = Ctl { enable: 0, log: 0, log_cap: 0, log_len: 0, wb: 0, wb_len: 0, rc: 0 };
    // SAFETY: as above (descriptor -1: only the interposer sees it)
    unsafe { libc::ioctl(-1, VERIF_CTL, &off as *const Ctl) };

    let mut calls: Vec<String> = vec![];
    let mut p = 0usize;
    let n = log_len as usize;
    while p + 24 <= n {
        let kind = u64::from_le_bytes(log[p..p + 8].try_into().unwrap());
        let req = u64::from_le_bytes(log[p + 8..p + 16].try_into().unwrap());
        let len = u64::from_le_bytes(log[p + 16..p + 24].try_into().unwrap()) as usize;
        let mut data = log[p + 24..p + 24 + len].to_vec();
        if kind == 2 {
            mask_v1_padding(&mut data);
        }
        calls.push(match kind {
            1 => format!("io:{:x}:{}", req, bytes_to_hex(&data)),
            2 => format!("wr:{}", bytes_to_hex(&data)),
            _ => format!("rd:{:x}", req),
        });
        p += 24 + len;
    }
    let c = if calls.is_empty() { "-".to_string() } else { calls.join(",") };
    format!("calls={} ret={}", c, ret)
}
