//! family `besrv`: the real `FrontendReqHandler<Mutex<RecFe>>` fed by the raw peer, one `handle_request()` per step.
//!
//! `besrv <step> | <step> | ...`
//! step := `m <bytes hex[+hex..]> f<nfds> h=<ok:<n>|errno:<e>|err> [seq] [close]` — every `+`-separated segment is written
//!         with its own sendmsg, the first one carrying `nfds` fresh memfds (identities numbered 1.. in order of
//!         creation); `seq`: the next segment is written only after the server consumed the previous one; `close`: the
//!         peer shuts its sending side down afterwards; then `handle_request()` is called once.
//!      |  `ra <0|1>` (`set_reply_ack_flag`)  |  `fail <errno>` (`set_failed`)
//! observation per step: `r=<ok:<n>|err.<class>|blocked|set> c=<calls|-> o=<hex written|-> n=<fds written>`; last item
//! `L=<leaked ids|->`.
use crate::rawsock::*;
use crate::rec::err_class;
use crate::rec_fe::*;
use crate::util::*;
use std::os::unix::io::AsRawFd;
use std::sync::atomic::{AtomicI32, Ordering};
use std::sync::mpsc;
use std::sync::{Arc, Mutex};
use std::time::Duration;
use vhost::vhost_user::FrontendReqHandler;

pub fn run(line: &str) -> String {
    let rest = line.strip_prefix("besrv").unwrap_or(line).trim();
    let steps: Vec<&str> = rest.split('|').map(|s| s.trim()).filter(|s| !s.is_empty()).collect();
    let objs = Arc::new(Mutex::new(Objs::new()));
    let rec = RecFe::new();
    let shared = rec.sh.clone();
    shared.lock().unwrap().objs = Some(objs.clone());
    let app = Arc::new(Mutex::new(rec));
    let h = FrontendReqHandler::new(app.clone()).expect("FrontendReqHandler::new");
    // the raw peer's end: a dup of the transmit socket; a dup of the server's socket to watch / shut it down
    let peer_fd = unsafe { libc::dup(h.get_tx_raw_fd()) };
    let srv_fd = unsafe { libc::dup(h.as_raw_fd()) };
    assert!(peer_fd >= 0 && srv_fd >= 0, "dup failed");
    let handler = Arc::new(Mutex::new(Some(h)));
    let mut obs: Vec<String> = Vec::new();
    let mut dead = false;
    for st in steps {
        if dead {
            obs.push("r=skipped c=- o=- n=0".to_string());
            continue;
        }
        let toks: Vec<&str> = st.split_whitespace().collect();
        if toks[0] == "ra" {
            handler.lock().unwrap().as_mut().unwrap().set_reply_ack_flag(toks[1] == "1");
            obs.push("r=set c=- o=- n=0".to_string());
            continue;
        }
        if toks[0] == "fail" {
            handler.lock().unwrap().as_mut().unwrap().set_failed(parse_hex_u64(toks[1]) as i32);
            obs.push("r=set c=- o=- n=0".to_string());
            continue;
        }
        assert!(toks[0] == "m", "bad step");
        let segs: Vec<Vec<u8>> = toks[1].split('+').map(hex_to_bytes).collect();
        let seq = toks.contains(&"seq");
        let nfds: usize = toks[2][1..].parse().unwrap();
        let close_after = toks.contains(&"close");
        let mut fds = Vec::new();
        for _ in 0..nfds {
            fds.push(objs.lock().unwrap().fresh_memfd());
        }
        {
            let mut sh = shared.lock().unwrap();
            sh.next = FeOut::parse(kv(&toks, "h").unwrap_or("ok:0"));
            sh.calls.clear();
        }
        let write_seg = |i: usize| {
            let bytes = &segs[i];
            if !bytes.is_empty() {
                let r = sendmsg(peer_fd, bytes, if i == 0 { &fds } else { &[] }, 0);
                assert!(r == bytes.len() as isize, "peer sendmsg failed: {}", r);
            }
        };
        if !seq {
            for i in 0..segs.len() {
                write_seg(i);
            }
            if close_after {
                unsafe { libc::shutdown(peer_fd, libc::SHUT_WR) };
            }
        }
        let (tx, rx) = mpsc::channel();
        let h2 = handler.clone();
        let tid = Arc::new(AtomicI32::new(0));
        let tid2 = tid.clone();
        let t = std::thread::spawn(move || {
            tid2.store(gettid(), Ordering::SeqCst);
            let mut g = h2.lock().unwrap();
            let r = g.as_mut().unwrap().handle_request();
            let _ = tx.send(match r {
                Ok(n) => format!("ok:{:x}", n),
                Err(e) => format!("err.{}", err_class(&e)),
            });
        });
        let mut early: Option<Result<String, mpsc::RecvTimeoutError>> = None;
        if seq {
            for i in 0..segs.len() {
                write_seg(i);
                let t0 = std::time::Instant::now();
                loop {
                    let mut n: libc::c_int = 0;
                    unsafe { libc::ioctl(srv_fd, libc::FIONREAD, &mut n) };
                    if n == 0 || t0.elapsed() > Duration::from_secs(5) {
                        break;
                    }
                    // the server already returned: what is left in the socket stays there
                    if early.is_none() {
                        match rx.try_recv() {
                            Ok(s) => early = Some(Ok(s)),
                            Err(mpsc::TryRecvError::Disconnected) => early = Some(Err(mpsc::RecvTimeoutError::Disconnected)),
                            Err(mpsc::TryRecvError::Empty) => {}
                        }
                    }
                    if early.is_some() {
                        break;
                    }
                    std::thread::sleep(Duration::from_micros(50));
                }
                std::thread::sleep(Duration::from_micros(300));
            }
            if close_after {
                unsafe { libc::shutdown(peer_fd, libc::SHUT_WR) };
            }
        }
        for fd in fds.iter() {
            close(*fd);
        }
        // wait for the result; `blocked` = the server thread sleeps with nothing queued on its socket (observed, not timed)
        let wait = || -> Result<String, mpsc::RecvTimeoutError> {
            let t0 = std::time::Instant::now();
            let mut quiet = 0u32;
            loop {
                match rx.recv_timeout(Duration::from_millis(2)) {
                    Ok(s) => return Ok(s),
                    Err(mpsc::RecvTimeoutError::Disconnected) => return Err(mpsc::RecvTimeoutError::Disconnected),
                    Err(mpsc::RecvTimeoutError::Timeout) => {}
                }
                if thread_sleeping(tid.load(Ordering::SeqCst)) && pending_bytes(srv_fd) == 0 {
                    quiet += 1;
                    if quiet >= QUIET_ROUNDS {
                        return rx.try_recv().map_err(|_| mpsc::RecvTimeoutError::Timeout);
                    }
                } else {
                    quiet = 0;
                }
                if t0.elapsed() > WATCHDOG {
                    return Err(mpsc::RecvTimeoutError::Timeout);
                }
            }
        };
        let r = match early.unwrap_or_else(wait) {
            Ok(s) => {
                let _ = t.join();
                s
            }
            Err(mpsc::RecvTimeoutError::Disconnected) => {
                // the server thread died without a result: it panicked inside handle_request
                let msg = match t.join() {
                    Err(e) => e.downcast_ref::<String>().cloned().or_else(|| e.downcast_ref::<&str>().map(|s| s.to_string())).unwrap_or_default(),
                    Ok(()) => String::new(),
                };
                panic!("handle_request panicked: {}", msg);
            }
            Err(mpsc::RecvTimeoutError::Timeout) => {
                unsafe { libc::shutdown(srv_fd, libc::SHUT_RDWR) };
                let _ = t.join();
                dead = true;
                "blocked".to_string()
            }
        };
        set_nonblocking(peer_fd, true);
        let (out, ofds, _eof) = drain(peer_fd);
        set_nonblocking(peer_fd, false);
        let n = ofds.len();
        for fd in ofds {
            close(fd);
        }
        let calls = {
            let sh = shared.lock().unwrap();
            if sh.calls.is_empty() { "-".to_string() } else { sh.calls.join(";") }
        };
        obs.push(format!("r={} c={} o={} n={}", r, calls, bytes_to_hex(&out), n));
    }
    handler.lock().unwrap().take();
    drop(app);
    close(peer_fd);
    close(srv_fd);
    let leaked = open_idents(&objs.lock().unwrap().map);
    let l = if leaked.is_empty() { "-".to_string() } else { leaked.iter().map(|x| x.to_string()).collect::<Vec<_>>().join(",") };
    obs.push(format!("L={}", l));
    obs.join(" | ")
}
