//! family `shutdown` (C16): daemon shutdown / teardown under a schedule controller.
//!
//! scenario:
//!   `shutdown m=wait|serve ex=0|1 wk=<workers 1..3> arm=<P+P..|-> reqs=<kind,kind..|-> sched=<ev>,<ev>,...`
//!
//! * `reqs` — the byte stream the raw peer is going to write, as a list of request kinds
//!   (`gf` GET_FEATURES: 12 bytes, backend callback `features()`, 20-byte reply; `sf` SET_FEATURES(0) without
//!   NEED_REPLY: 20 bytes, callback, no reply; `svn` SET_VRING_NUM for ring 0xff: 20 bytes, the handler fails with
//!   InvalidParam, no reply; `bad` a 12-byte header with protocol version 2: invalid message).
//! * `arm` — hold points armed before the daemon is started (the daemon thread parks on arrival):
//!   `pre` (before `handle_request`), `post` (after it returned `Ok`), `fin` (before the final
//!   `conn.shutdown(Both)`), `cb` (inside the backend callback `features()`).
//! * events (`m=wait`), processed in order; after each one the harness waits until the daemon thread is parked at a
//!   hold point, blocked in `recvmsg`, or gone, and records a snapshot:
//!   `a<P>` arm, `r<P>` release a hold point; `w<hex n>` the peer writes the next n bytes of its stream in one
//!   `sendmsg` (`wa`: all that is left); `pr` the peer reads whatever replies are queued; `pc` the peer closes;
//!   `s<i>` caller i (own thread, own clone of the `ShutdownHandle`) performs a complete `shutdown()`;
//!   `f<i>` caller i starts `shutdown()` and parks between the flag store and the socket shutdown, `g<i>` lets it
//!   finish; `S<k>x<r>` k threads call `shutdown()` r times each, concurrently; `q` = `daemon.request_shutdown()`;
//!   `W` start `wait()` now (in the background); `D` drop the daemon without waiting.
//!   After the last event: every hold point of the daemon thread is released, then `wait()` (unless `W`/`D` happened)
//!   under the watchdog, `shutdown_handle()` probe,
//!   what the peer reads, a second `wait()`, a second `start()` on the same listener with a fresh peer that
//!   exchanges GET_FEATURES and then closes (so the new connection's `wait()` must report the disconnect), drop.
//! * events (`m=serve`): `w..`, `pr`, `pc` and hold points; `serve(path)` runs in its own thread.
//!
//! observation (`m=wait`):
//!   `st=<ev>:<d><w>,..  wait=ok|err:<class>|blocked|none hs=0|1|- peer=<bytes hex>+eof|wb|closed|forced
//!    wait2=ok|err|- restart=<start ok|fail>/<reply ok|no>/<wait ok|err:<class>|blocked>|skip left=<workers alive> drop=ok|blocked`
//!   `<d>`: daemon thread `P` parked at pre, `O` post, `F` fin, `C` in the callback, `B` blocked in recvmsg,
//!   `X` gone, `J` (only after `D`) asleep in a futex: joining the workers as the handler's last owner, `?` none of
//!   these within the settle time.  `<w>`: `-` wait not started, `w` waiting, `k` returned
//!   Ok, `e` returned Err.
//! observation (`m=serve`): `st=.. serve=ok|err:<class>|blocked exit=<raised>/<workers> wleft=<workers alive after
//!   serve returned> peer=.. left=<workers alive after drop> drop=ok|blocked`
//!
//! Error classes: disconnected, partial, invalidMsg, sockBroken, reqErr (any other `HandleRequest` error), other.

use std::collections::HashMap;
use std::os::fd::{AsRawFd, FromRawFd, OwnedFd};
use std::os::unix::net::UnixStream;
use std::path::PathBuf;
use std::sync::atomic::{AtomicU64, Ordering};
use std::sync::mpsc;
use std::sync::{Arc, Barrier, Condvar, Mutex, Once};
use std::time::{Duration, Instant};

use vhost::vhost_user::message::VhostUserProtocolFeatures;
use vhost::vhost_user::verif_hooks as hooks;
use vhost::vhost_user::Listener;
use vhost_user_backend::{ShutdownHandle, VhostUserBackendMut, VhostUserDaemon, VringRwLock};
use vm_memory::{GuestMemoryAtomic, GuestMemoryMmap};
use vmm_sys_util::epoll::EventSet;
use vmm_sys_util::event::{new_event_consumer_and_notifier, EventConsumer, EventFlag, EventNotifier};

use crate::peer::{self, RawPeer};
use crate::util::kv;

type GM = GuestMemoryAtomic<GuestMemoryMmap<()>>;
type Daemon = VhostUserDaemon<Arc<Mutex<SBackend>>>;

const FEATS: u64 = (1 << 32) | (1 << 30) | (1 << 29);
const DAEMON_NAME: &str = "c16daemon";

fn env_ms(name: &str, default: u64) -> u64 {
    std::env::var(name).ok().and_then(|v| v.parse().ok()).unwrap_or(default)
}

// ------------------------------------------------------------------------------------------------
// schedule controller

#[derive(Default, Clone, Copy)]
struct Gate {
    armed: bool,
    parked: usize,
    arrivals: u64,
}

#[derive(Default)]
struct Ctl {
    gates: HashMap<String, Gate>,
    daemon_tid: i32,
}

static CTL: Mutex<Option<Ctl>> = Mutex::new(None);
static CV: Condvar = Condvar::new();
static INIT: Once = Once::new();

thread_local! {
    static CALLER: std::cell::Cell<Option<usize>> = const { std::cell::Cell::new(None) };
}

fn gettid() -> i32 {
    // SAFETY: gettid has no preconditions.
    unsafe { libc::syscall(libc::SYS_gettid) as i32 }
}

/// arrive at hold point `key`: park while it is armed
fn ctl_hold(key: &str) {
    let mut g = CTL.lock().unwrap();
    let c = g.get_or_insert_with(Ctl::default);
    if key == "pre" {
        c.daemon_tid = gettid();
    }
    let gate = c.gates.entry(key.to_string()).or_default();
    gate.arrivals += 1;
    if gate.armed {
        gate.parked += 1;
        CV.notify_all();
        loop {
            g = CV.wait(g).unwrap();
            let c = g.as_mut().unwrap();
            let gate = c.gates.entry(key.to_string()).or_default();
            if !gate.armed {
                gate.parked = gate.parked.saturating_sub(1);
                break;
            }
        }
        CV.notify_all();
    }
}

fn install_controller() {
    INIT.call_once(|| {
        hooks::set_controller(Some(Arc::new(|point: &'static str, _ctx: u64| {
            let key = match point {
                "daemon.before_handle_request" => "pre".to_string(),
                "daemon.after_handle_request_ok" => "post".to_string(),
                "daemon.before_final_shutdown" => "fin".to_string(),
                "shutdown.between_flag_and_socket" => match CALLER.with(|c| c.get()) {
                    Some(i) => format!("btw{i}"),
                    None => "btw".to_string(),
                },
                _ => return, // hold points of other families
            };
            ctl_hold(&key);
        })));
    });
}

fn ctl_reset() {
    let mut g = CTL.lock().unwrap();
    *g = Some(Ctl::default());
    CV.notify_all();
}

fn ctl_arm(key: &str, on: bool) {
    let mut g = CTL.lock().unwrap();
    let c = g.get_or_insert_with(Ctl::default);
    c.gates.entry(key.to_string()).or_default().armed = on;
    CV.notify_all();
    if !on {
        // a release returns once every thread that was parked there has left the hold point
        let t0 = Instant::now();
        while g.as_ref().and_then(|c| c.gates.get(key)).map(|x| x.parked).unwrap_or(0) > 0
            && t0.elapsed() < Duration::from_millis(2000)
        {
            g = CV.wait_timeout(g, Duration::from_millis(50)).unwrap().0;
        }
    }
}

fn ctl_parked(key: &str) -> usize {
    let g = CTL.lock().unwrap();
    g.as_ref().and_then(|c| c.gates.get(key)).map(|x| x.parked).unwrap_or(0)
}

fn ctl_daemon_tid() -> i32 {
    CTL.lock().unwrap().as_ref().map(|c| c.daemon_tid).unwrap_or(0)
}

fn ctl_wait_parked(key: &str, max: Duration) -> bool {
    let t0 = Instant::now();
    let mut g = CTL.lock().unwrap();
    loop {
        if g.as_ref().and_then(|c| c.gates.get(key)).map(|x| x.parked).unwrap_or(0) > 0 {
            return true;
        }
        let el = t0.elapsed();
        if el >= max {
            return false;
        }
        g = CV.wait_timeout(g, max - el).unwrap().0;
    }
}

// ------------------------------------------------------------------------------------------------
// thread inspection

fn task_alive(tid: i32) -> bool {
    tid != 0 && std::path::Path::new(&format!("/proc/self/task/{tid}")).exists()
}

/// blocked inside recvmsg (sleeping in the system call)
fn in_recvmsg(tid: i32) -> bool {
    let st = std::fs::read_to_string(format!("/proc/self/task/{tid}/stat")).unwrap_or_default();
    let state = st.rfind(") ").and_then(|i| st[i + 2..].chars().next()).unwrap_or('?');
    if state != 'S' {
        return false;
    }
    match std::fs::read_to_string(format!("/proc/self/task/{tid}/syscall")) {
        Ok(s) => s.split_whitespace().next().and_then(|n| n.parse::<i64>().ok()) == Some(libc::SYS_recvmsg as i64),
        // no access to the syscall file: fall back to the kernel wait channel of a unix stream read
        Err(_) => std::fs::read_to_string(format!("/proc/self/task/{tid}/wchan"))
            .map(|w| w.contains("unix_stream") || w.contains("skb_wait") || w.contains("sk_wait"))
            .unwrap_or(false),
    }
}

/// the eventfd counter is non-zero (checked without consuming it)
fn readable(fd: i32) -> bool {
    let mut p = libc::pollfd { fd, events: libc::POLLIN, revents: 0 };
    // SAFETY: one valid pollfd.
    let r = unsafe { libc::poll(&mut p, 1, 0) };
    r == 1 && p.revents & libc::POLLIN != 0
}

/// sleeping in futex (a join or a lock)
fn in_futex(tid: i32) -> bool {
    let st = std::fs::read_to_string(format!("/proc/self/task/{tid}/stat")).unwrap_or_default();
    let state = st.rfind(") ").and_then(|i| st[i + 2..].chars().next()).unwrap_or('?');
    if state != 'S' {
        return false;
    }
    match std::fs::read_to_string(format!("/proc/self/task/{tid}/syscall")) {
        Ok(s) => s.split_whitespace().next().and_then(|n| n.parse::<i64>().ok()) == Some(libc::SYS_futex as i64),
        Err(_) => false,
    }
}

fn count_threads_named(name: &str) -> usize {
    let mut n = 0;
    if let Ok(rd) = std::fs::read_dir("/proc/self/task") {
        for e in rd.flatten() {
            if let Ok(c) = std::fs::read_to_string(e.path().join("comm")) {
                if c.trim() == name {
                    n += 1;
                }
            }
        }
    }
    n
}

// ------------------------------------------------------------------------------------------------
// backend

struct SBackend {
    workers: usize,
    exit_events: bool,
    /// duplicates of the exit-event consumers (an eventfd: the duplicate shares the counter)
    exit_dups: Arc<Mutex<Vec<OwnedFd>>>,
    /// raw consumer descriptors the crate abandons (`into_raw_fd`, never closed): closed by the bench at the end
    exit_raw: Arc<Mutex<Vec<i32>>>,
}

impl VhostUserBackendMut for SBackend {
    type Bitmap = ();
    type Vring = VringRwLock<GM>;

    fn num_queues(&self) -> usize {
        2
    }
    fn max_queue_size(&self) -> usize {
        256
    }
    fn features(&self) -> u64 {
        ctl_hold("cb");
        FEATS
    }
    fn protocol_features(&self) -> VhostUserProtocolFeatures {
        VhostUserProtocolFeatures::MQ
    }
    fn set_event_idx(&mut self, _enabled: bool) {}
    fn update_memory(&mut self, _mem: GM) -> std::io::Result<()> {
        Ok(())
    }
    fn queues_per_thread(&self) -> Vec<u64> {
        match self.workers {
            1 => vec![0b11],
            2 => vec![0b01, 0b10],
            _ => vec![0b01, 0b10, 0],
        }
    }
    fn exit_event(&self, _thread_index: usize) -> Option<(EventConsumer, EventNotifier)> {
        if !self.exit_events {
            return None;
        }
        let pair = new_event_consumer_and_notifier(EventFlag::NONBLOCK).expect("exit eventfd");
        // SAFETY: dup of a valid descriptor; the result is owned by us.
        let d = unsafe { libc::dup(pair.0.as_raw_fd()) };
        assert!(d >= 0, "dup");
        // SAFETY: fresh descriptor.
        self.exit_dups.lock().unwrap().push(unsafe { OwnedFd::from_raw_fd(d) });
        self.exit_raw.lock().unwrap().push(pair.0.as_raw_fd());
        Some(pair)
    }
    fn handle_event(&mut self, _device_event: u16, _evset: EventSet, _vrings: &[Self::Vring], _thread_id: usize) -> std::io::Result<()> {
        Ok(())
    }
}

// ------------------------------------------------------------------------------------------------
// requests of the peer (bytes written from the specification, see `crate::peer`)

fn req_bytes(kind: &str) -> Vec<u8> {
    let h = |code: u32, flags: u32, body: &[u8]| {
        let mut v = peer::Hdr { request: code, flags, size: body.len() as u32 }.encode().to_vec();
        v.extend_from_slice(body);
        v
    };
    match kind {
        "gf" => h(peer::codes::GET_FEATURES, 0x1, &[]),
        "sf" => h(peer::codes::SET_FEATURES, 0x1, &peer::b_u64(0)),
        "svn" => h(peer::codes::SET_VRING_NUM, 0x1, &peer::b_vring_state(0xff, 1)),
        "bad" => h(peer::codes::GET_FEATURES, 0x2, &[]),
        _ => panic!("unknown request kind {kind}"),
    }
}

fn err_class(e: &vhost_user_backend::Error) -> String {
    use vhost::vhost_user::Error as E;
    match e {
        vhost_user_backend::Error::HandleRequest(v) => match v {
            E::Disconnected => "disconnected",
            E::PartialMessage => "partial",
            E::InvalidMessage => "invalidMsg",
            E::SocketBroken(_) => "sockBroken",
            _ => "reqErr",
        }
        .to_string(),
        _ => "other".to_string(),
    }
}

fn res_str(r: &Result<(), vhost_user_backend::Error>) -> String {
    match r {
        Ok(()) => "ok".into(),
        Err(e) => format!("err:{}", err_class(e)),
    }
}

// ------------------------------------------------------------------------------------------------
// the bench

static SEQ: AtomicU64 = AtomicU64::new(0);

fn sock_path() -> PathBuf {
    let n = SEQ.fetch_add(1, Ordering::SeqCst);
    std::env::temp_dir().join(format!("vharness-c16-{}-{}.sock", std::process::id(), n))
}

struct PeerSide {
    sock: Option<UnixStream>,
    stream: Vec<u8>,
    off: usize,
}

impl PeerSide {
    fn write(&mut self, n: Option<usize>) {
        let left = self.stream.len() - self.off;
        let n = n.unwrap_or(left).min(left);
        if n == 0 {
            return;
        }
        if let Some(s) = &self.sock {
            let p = RawPeer { sock: s.try_clone().expect("clone"), reply_ack: false };
            // a write on a connection the daemon has shut down fails with EPIPE: nothing is delivered
            if p.send_raw(&self.stream[self.off..self.off + n], &[]).is_ok() {
                self.off += n;
            }
        }
    }
    /// read whatever is queued, without waiting; (bytes, end-of-stream seen)
    fn drain(&mut self, wait_ms: u64) -> (usize, bool) {
        let mut total = 0;
        let s = match &self.sock {
            Some(s) => s,
            None => return (0, false),
        };
        s.set_read_timeout(Some(Duration::from_millis(wait_ms.max(1)))).unwrap();
        let p = RawPeer { sock: s.try_clone().expect("clone"), reply_ack: false };
        loop {
            match p.recv_once(4096) {
                Ok((b, _)) => {
                    if b.is_empty() {
                        return (total, true);
                    }
                    total += b.len();
                }
                Err(e) if e.kind() == std::io::ErrorKind::Interrupted => continue,
                Err(_) => return (total, false),
            }
        }
    }
    fn close(&mut self) {
        self.sock = None;
    }
}

struct WaitJob {
    rx: mpsc::Receiver<(Daemon, Result<(), vhost_user_backend::Error>)>,
}

struct Run {
    daemon: Option<Daemon>,
    wait: Option<WaitJob>,
    wait_res: Option<Result<(), vhost_user_backend::Error>>,
    handle: Option<ShutdownHandle>,
    peer: PeerSide,
    callers: HashMap<usize, std::thread::JoinHandle<()>>,
    dropped: bool,
    settle: Duration,
    /// bytes read by the last `pr` event
    last_read: Option<usize>,
    /// shutdown() calls that did not return
    stuck_callers: usize,
    /// result of the scripted drop (`D`)
    drop_res: Option<&'static str>,
    watchdog: Duration,
}

impl Run {
    /// wait until the daemon thread is parked, blocked in recvmsg, or gone
    fn daemon_status(&self) -> char {
        let t0 = Instant::now();
        let mut stable = 0;
        let mut last = '?';
        loop {
            let tid = ctl_daemon_tid();
            let c = if tid == 0 {
                '?'
            } else if ctl_parked("pre") > 0 {
                'P'
            } else if ctl_parked("post") > 0 {
                'O'
            } else if ctl_parked("fin") > 0 {
                'F'
            } else if ctl_parked("cb") > 0 {
                'C'
            } else if !task_alive(tid) {
                'X'
            } else if in_recvmsg(tid) {
                'B'
            } else if self.dropped && in_futex(tid) {
                // after the daemon object is gone the thread is the handler's last owner: it joins the workers
                'J'
            } else {
                '?'
            };
            match c {
                'P' | 'O' | 'F' | 'C' | 'X' => return c,
                'B' | 'J' => {
                    // seen sleeping in the same system call several times in a row: blocked
                    if last == c {
                        stable += 1;
                    } else {
                        stable = 1;
                    }
                    if stable >= if c == 'B' { 3 } else { 25 } {
                        return c;
                    }
                }
                _ => stable = 0,
            }
            last = c;
            if t0.elapsed() > self.settle {
                return c;
            }
            std::thread::sleep(Duration::from_micros(200));
        }
    }

    fn poll_wait(&mut self, max: Duration) {
        if self.wait_res.is_some() {
            return;
        }
        if let Some(j) = &self.wait {
            if let Ok((d, r)) = j.rx.recv_timeout(max) {
                self.daemon = Some(d);
                self.wait_res = Some(r);
            }
        }
    }

    fn wait_status(&mut self, d: char) -> char {
        if self.wait.is_none() {
            return '-';
        }
        // wait() returns once the daemon thread is gone; give it a moment in that case only
        self.poll_wait(if d == 'X' { self.settle } else { Duration::from_millis(1) });
        match &self.wait_res {
            None => 'w',
            Some(Ok(())) => 'k',
            Some(Err(_)) => 'e',
        }
    }

    fn start_wait(&mut self) {
        if self.wait.is_some() || self.dropped {
            return;
        }
        let mut d = self.daemon.take().expect("daemon present");
        let (tx, rx) = mpsc::channel();
        std::thread::Builder::new()
            .name("c16wait".into())
            .spawn(move || {
                let r = d.wait();
                let _ = tx.send((d, r));
            })
            .expect("spawn");
        self.wait = Some(WaitJob { rx });
    }

    fn spawn_caller(&mut self, i: usize, reps: usize, gate: Option<Arc<Barrier>>) {
        let h = self.handle.clone().expect("shutdown handle");
        let t = std::thread::Builder::new()
            .name("c16caller".into())
            .spawn(move || {
                CALLER.with(|c| c.set(Some(i)));
                if let Some(b) = gate {
                    b.wait();
                }
                for _ in 0..reps {
                    h.shutdown();
                }
            })
            .expect("spawn");
        self.callers.insert(i, t);
    }

    /// join caller i; a caller that does not come back within the hard limit is abandoned and reported
    fn join_caller(&mut self, i: usize) {
        if let Some(t) = self.callers.remove(&i) {
            let t0 = Instant::now();
            while !t.is_finished() {
                if t0.elapsed() > Duration::from_secs(5) {
                    self.stuck_callers += 1;
                    return;
                }
                std::thread::sleep(Duration::from_micros(200));
            }
            let _ = t.join();
        }
    }

    fn event(&mut self, ev: &str) {
        let (k, arg) = ev.split_at(1);
        match k {
            "a" => ctl_arm(arg, true),
            "r" => ctl_arm(arg, false),
            "w" => {
                let n = if arg == "a" { None } else { Some(usize::from_str_radix(arg, 16).expect("w<hex>")) };
                self.peer.write(n);
            }
            "p" => match arg {
                "r" => {
                    let (n, _) = self.peer.drain(1);
                    self.last_read = Some(n);
                }
                "c" => self.peer.close(),
                _ => panic!("bad event {ev}"),
            },
            "s" => {
                let i: usize = arg.parse().expect("s<i>");
                // caller i is one thread: while it sits between its two steps it cannot start another call
                if self.callers.contains_key(&i) {
                    return;
                }
                self.spawn_caller(i, 1, None);
                self.join_caller(i);
            }
            "f" => {
                let i: usize = arg.parse().expect("f<i>");
                if self.callers.contains_key(&i) {
                    return;
                }
                ctl_arm(&format!("btw{i}"), true);
                self.spawn_caller(i, 1, None);
                ctl_wait_parked(&format!("btw{i}"), Duration::from_millis(2000));
            }
            "g" => {
                let i: usize = arg.parse().expect("g<i>");
                if !self.callers.contains_key(&i) {
                    return;
                }
                ctl_arm(&format!("btw{i}"), false);
                self.join_caller(i);
            }
            "S" => {
                let mut it = arg.split('x');
                let k: usize = it.next().unwrap().parse().expect("S<k>x<r>");
                let r: usize = it.next().unwrap_or("1").parse().expect("S<k>x<r>");
                let b = Arc::new(Barrier::new(k));
                for i in 0..k {
                    self.spawn_caller(100 + i, r, Some(b.clone()));
                }
                for i in 0..k {
                    self.join_caller(100 + i);
                }
            }
            "q" => {
                if let Some(d) = &self.daemon {
                    d.request_shutdown();
                }
            }
            "W" => self.start_wait(),
            "D" => {
                if let Some(d) = self.daemon.take() {
                    // in its own thread: if the daemon thread is gone already this is the last owner of the handler
                    // and the drop joins the workers
                    self.drop_res = Some(drop_watched(d, self.watchdog));
                    self.dropped = true;
                }
            }
            _ => panic!("bad event {ev}"),
        }
    }
}

fn mk_daemon(workers: usize, ex: bool) -> (Daemon, Arc<Mutex<Vec<OwnedFd>>>, Arc<Mutex<Vec<i32>>>) {
    let dups = Arc::new(Mutex::new(Vec::new()));
    let raw = Arc::new(Mutex::new(Vec::new()));
    let be = SBackend { workers, exit_events: ex, exit_dups: dups.clone(), exit_raw: raw.clone() };
    let mem: GM = GuestMemoryAtomic::new(GuestMemoryMmap::<()>::new());
    let d = VhostUserDaemon::new(DAEMON_NAME.to_string(), Arc::new(Mutex::new(be)), mem).expect("daemon");
    (d, dups, raw)
}

/// wait until the number of live `vring_worker` threads is `want` (or the time is up); returns the count
fn workers_alive(base: usize, want: usize, max: Duration) -> usize {
    let t0 = Instant::now();
    loop {
        let n = count_threads_named("vring_worker").saturating_sub(base);
        if n == want || t0.elapsed() > max {
            return n;
        }
        std::thread::sleep(Duration::from_micros(500));
    }
}

/// drop the daemon in its own thread under the watchdog; "ok" or "blocked"
fn drop_watched(d: Daemon, watchdog: Duration) -> &'static str {
    let (tx, rx) = mpsc::channel();
    std::thread::Builder::new()
        .name("c16drop".into())
        .spawn(move || {
            drop(d);
            let _ = tx.send(());
        })
        .expect("spawn");
    match rx.recv_timeout(watchdog) {
        Ok(()) => "ok",
        Err(_) => "blocked",
    }
}

fn close_raw(raw: &Arc<Mutex<Vec<i32>>>) {
    for fd in raw.lock().unwrap().drain(..) {
        // SAFETY: released by the crate with into_raw_fd; nothing refers to it any more.
        unsafe { libc::close(fd) };
    }
}

struct Scen<'a> {
    ex: bool,
    wk: usize,
    arm: Vec<&'a str>,
    reqs: Vec<&'a str>,
    sched: Vec<&'a str>,
}

fn run_wait(sc: &Scen) -> String {
    let watchdog = Duration::from_millis(env_ms("VERIF_SHUT_WATCHDOG_MS", 1000));
    let settle = Duration::from_millis(env_ms("VERIF_SHUT_SETTLE_MS", 400));
    let wbase = count_threads_named("vring_worker");
    for p in &sc.arm {
        ctl_arm(p, true);
    }
    let (mut d, _dups, raw) = mk_daemon(sc.wk, sc.ex);
    let path = sock_path();
    let mut listener = Listener::new(&path, true).expect("listener");
    let sock = UnixStream::connect(&path).expect("connect");
    d.start(&mut listener).expect("start");
    let handle = d.shutdown_handle();
    let mut stream = Vec::new();
    for k in &sc.reqs {
        stream.extend_from_slice(&req_bytes(k));
    }
    let mut run = Run {
        daemon: Some(d),
        wait: None,
        wait_res: None,
        handle,
        peer: PeerSide { sock: Some(sock), stream, off: 0 },
        callers: HashMap::new(),
        dropped: false,
        settle,
        last_read: None,
        stuck_callers: 0,
        drop_res: None,
        watchdog,
    };
    let mut snaps = Vec::new();
    let ds = run.daemon_status();
    let ws = run.wait_status(ds);
    snaps.push(format!("0:{ds}{ws}"));
    for ev in &sc.sched {
        run.event(ev);
        let ds = run.daemon_status();
        let ws = run.wait_status(ds);
        match run.last_read.take() {
            Some(n) => snaps.push(format!("{ev}:{ds}{ws}/{n:x}")),
            None => snaps.push(format!("{ev}:{ds}{ws}")),
        }
    }
    // ---- epilogue: the daemon thread is released from whatever hold point it is parked at (callers that sit
    // between their two steps stay there: a shutdown request in progress)
    for k in ["pre", "post", "fin", "cb"] {
        ctl_arm(k, false);
    }
    let mut out = vec![format!("st={}", snaps.join(","))];
    let mut forced = false;
    if run.dropped {
        out.push("wait=none hs=-".into());
    } else {
        run.start_wait();
        run.poll_wait(watchdog);
        if run.wait_res.is_none() {
            // blocked: unblock everything so that the process can go on
            forced = true;
            out.push("wait=blocked".into());
            for k in ["pre", "post", "fin", "cb"] {
                ctl_arm(k, false);
            }
            let keys: Vec<usize> = run.callers.keys().copied().collect();
            for i in keys {
                ctl_arm(&format!("btw{i}"), false);
                run.join_caller(i);
            }
            if let Some(s) = &run.peer.sock {
                let _ = s.shutdown(std::net::Shutdown::Both);
            }
            run.poll_wait(Duration::from_secs(5));
            out.push("hs=-".into());
        } else {
            out.push(format!("wait={}", res_str(run.wait_res.as_ref().unwrap())));
            let hs = run.daemon.as_ref().map(|d| d.shutdown_handle().is_some()).unwrap_or(false);
            out.push(format!("hs={}", hs as u8));
        }
    }
    // release whatever is still parked (callers between their two steps)
    let keys: Vec<usize> = run.callers.keys().copied().collect();
    for i in keys {
        ctl_arm(&format!("btw{i}"), false);
        run.join_caller(i);
    }
    // what the peer reads now
    if forced {
        out.push("peer=forced".into());
    } else if run.peer.sock.is_none() {
        out.push("peer=closed".into());
    } else {
        let (n, eof) = run.peer.drain(env_ms("VERIF_SHUT_PEER_MS", 150));
        out.push(format!("peer={:x}+{}", n, if eof { "eof" } else { "wb" }));
    }
    run.peer.close();
    match run.daemon.take() {
        None => {
            // dropped by the script (or lost in a wait that never returned)
            out.push("wait2=- restart=skip".into());
            for k in ["pre", "post", "fin", "cb"] {
                ctl_arm(k, false);
            }
            let left = workers_alive(wbase, 0, if sc.ex { watchdog } else { Duration::from_millis(100) });
            out.push(format!("left={left:x} drop={}", run.drop_res.unwrap_or("lost")));
        }
        Some(mut d) => {
            for k in ["pre", "post", "fin", "cb"] {
                ctl_arm(k, false);
            }
            // wait() with no thread
            out.push(format!("wait2={}", if d.wait().is_ok() { "ok" } else { "err" }));
            // second start on the same listener
            let sock2 = UnixStream::connect(&path).expect("connect 2");
            let started = d.start(&mut listener).is_ok();
            let p2 = RawPeer::new(sock2);
            p2.set_timeout_ms(watchdog.as_millis() as u64);
            let reply = matches!(p2.get_u64(peer::codes::GET_FEATURES), Ok(v) if v == FEATS);
            drop(p2);
            let (tx, rx) = mpsc::channel();
            let t = std::thread::Builder::new()
                .name("c16wait2".into())
                .spawn(move || {
                    let r = d.wait();
                    let _ = tx.send((d, r));
                })
                .expect("spawn");
            match rx.recv_timeout(watchdog) {
                Ok((d2, r)) => {
                    let _ = t.join();
                    out.push(format!("restart={}/{}/{}", if started { "ok" } else { "fail" }, if reply { "ok" } else { "no" }, res_str(&r)));
                    let dr = drop_watched(d2, if sc.ex { watchdog } else { Duration::from_millis(150) });
                    let left = workers_alive(wbase, 0, Duration::from_millis(if dr == "ok" { 500 } else { 1 }));
                    out.push(format!("left={left:x} drop={dr}"));
                }
                Err(_) => {
                    out.push(format!("restart={}/{}/blocked", if started { "ok" } else { "fail" }, if reply { "ok" } else { "no" }));
                    out.push("left=? drop=lost".into());
                }
            }
        }
    }
    drop(listener);
    let _ = std::fs::remove_file(&path);
    if sc.ex {
        close_raw(&raw);
    }
    if run.stuck_callers > 0 {
        out.push(format!("stuck-shutdown-calls={:x}", run.stuck_callers));
    }
    out.join(" ")
}

fn run_serve(sc: &Scen) -> String {
    let watchdog = Duration::from_millis(env_ms("VERIF_SHUT_WATCHDOG_MS", 1000));
    let settle = Duration::from_millis(env_ms("VERIF_SHUT_SETTLE_MS", 400));
    let wbase = count_threads_named("vring_worker");
    for p in &sc.arm {
        ctl_arm(p, true);
    }
    let (mut d, dups, raw) = mk_daemon(sc.wk, sc.ex);
    let path = sock_path();
    let p2 = path.clone();
    let (tx, rx) = mpsc::channel();
    std::thread::Builder::new()
        .name("c16serve".into())
        .spawn(move || {
            let r = d.serve(&p2);
            let _ = tx.send((d, r));
        })
        .expect("spawn");
    // the listener is bound inside serve(): wait for the path, then connect
    let t0 = Instant::now();
    let sock = loop {
        if let Ok(s) = UnixStream::connect(&path) {
            break s;
        }
        if t0.elapsed() > Duration::from_secs(3) {
            return "setup-failed:connect".into();
        }
        std::thread::sleep(Duration::from_micros(300));
    };
    let mut stream = Vec::new();
    for k in &sc.reqs {
        stream.extend_from_slice(&req_bytes(k));
    }
    let mut run = Run {
        daemon: None,
        wait: None,
        wait_res: None,
        handle: None,
        peer: PeerSide { sock: Some(sock), stream, off: 0 },
        callers: HashMap::new(),
        dropped: false,
        settle,
        last_read: None,
        stuck_callers: 0,
        drop_res: None,
        watchdog,
    };
    let mut snaps = Vec::new();
    let ds = run.daemon_status();
    snaps.push(format!("0:{ds}-"));
    for ev in &sc.sched {
        run.event(ev);
        let ds = run.daemon_status();
        match run.last_read.take() {
            Some(n) => snaps.push(format!("{ev}:{ds}-/{n:x}")),
            None => snaps.push(format!("{ev}:{ds}-")),
        }
    }
    for k in ["pre", "post", "fin", "cb"] {
        ctl_arm(k, false);
    }
    let mut out = vec![format!("st={}", snaps.join(","))];
    let mut forced = false;
    let mut got = rx.recv_timeout(watchdog).ok();
    if got.is_none() {
        forced = true;
        out.push("serve=blocked".into());
        for k in ["pre", "post", "fin", "cb"] {
            ctl_arm(k, false);
        }
        if let Some(s) = &run.peer.sock {
            let _ = s.shutdown(std::net::Shutdown::Both);
        }
        got = rx.recv_timeout(Duration::from_secs(5)).ok();
    } else {
        out.push(format!("serve={}", res_str(&got.as_ref().unwrap().1)));
    }
    // exit events raised (the duplicate shares the eventfd counter; neither the worker nor this check consumes it)
    let raised = dups.lock().unwrap().iter().filter(|fd| readable(fd.as_raw_fd())).count();
    out.push(format!("exit={:x}/{:x}", raised, sc.wk));
    let wleft = workers_alive(wbase, 0, Duration::from_millis(if sc.ex { 500 } else { 50 }));
    out.push(format!("wleft={wleft:x}"));
    if forced {
        out.push("peer=forced".into());
    } else if run.peer.sock.is_none() {
        out.push("peer=closed".into());
    } else {
        let (n, eof) = run.peer.drain(env_ms("VERIF_SHUT_PEER_MS", 150));
        out.push(format!("peer={:x}+{}", n, if eof { "eof" } else { "wb" }));
    }
    run.peer.close();
    match got {
        Some((d, _)) => {
            let dr = drop_watched(d, if sc.ex { watchdog } else { Duration::from_millis(150) });
            let left = workers_alive(wbase, 0, Duration::from_millis(if dr == "ok" { 500 } else { 1 }));
            out.push(format!("left={left:x} drop={dr}"));
        }
        None => out.push("left=? drop=lost".into()),
    }
    let _ = std::fs::remove_file(&path);
    if sc.ex {
        close_raw(&raw);
    }
    out.join(" ")
}

pub fn run(line: &str) -> String {
    let toks: Vec<&str> = line.split_whitespace().collect();
    install_controller();
    ctl_reset();
    let list = |k: &str, sep: char| -> Vec<&str> {
        kv(&toks, k).unwrap_or("-").split(sep).filter(|s| !s.is_empty() && *s != "-").collect()
    };
    let sc = Scen {
        ex: kv(&toks, "ex").unwrap_or("1") == "1",
        wk: kv(&toks, "wk").unwrap_or("1").parse().expect("wk"),
        arm: list("arm", '+'),
        reqs: list("reqs", ','),
        sched: list("sched", ','),
    };
    let r = match kv(&toks, "m").unwrap_or("wait") {
        "wait" => run_wait(&sc),
        "serve" => run_serve(&sc),
        m => panic!("unknown mode {m}"),
    };
    // nothing may stay parked for the next scenario
    ctl_reset();
    r
}
