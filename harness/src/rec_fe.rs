//! Recording implementation of the frontend application's handler for backend-initiated requests
//! (`VhostUserFrontendReqHandlerMut`) whose results are scripted by the scenario, plus small helpers shared by the
//! `proxy`, `besrv` and `gpu` families.
#![allow(dead_code)]
use crate::rawsock::*;
use crate::util::*;
use std::collections::HashMap;
use std::os::unix::io::{AsRawFd, RawFd};
use std::sync::{Arc, Mutex};
use vhost::vhost_user::message::*;
use vhost::vhost_user::{HandlerResult, VhostUserFrontendReqHandlerMut};

/// scripted handler outcome: `h=ok:<n>` | `h=errno:<e>` | `h=err`
#[derive(Clone, Debug)]
pub enum FeOut {
    Ok(u64),
    Errno(i32),
    Err,
}

impl Default for FeOut {
    fn default() -> Self {
        FeOut::Ok(0)
    }
}

impl FeOut {
    pub fn parse(s: &str) -> FeOut {
        if let Some(n) = s.strip_prefix("ok:") {
            FeOut::Ok(parse_hex_u64(n))
        } else if let Some(e) = s.strip_prefix("errno:") {
            FeOut::Errno(parse_hex_u64(e) as i32)
        } else {
            FeOut::Err
        }
    }
    fn result(&self) -> HandlerResult<u64> {
        match self {
            FeOut::Ok(n) => Ok(*n),
            FeOut::Errno(e) => Err(std::io::Error::from_raw_os_error(*e)),
            FeOut::Err => Err(std::io::Error::other("scripted failure without errno")),
        }
    }
}

#[derive(Default)]
pub struct FeShared {
    pub calls: Vec<String>,
    pub next: FeOut,
    /// live table of the scenario's objects (identity by inode)
    pub objs: Option<Arc<Mutex<Objs>>>,
}

#[derive(Clone)]
pub struct RecFe {
    pub sh: Arc<Mutex<FeShared>>,
}

impl RecFe {
    pub fn new() -> Self {
        RecFe { sh: Arc::new(Mutex::new(FeShared::default())) }
    }
    fn ident(&self, fd: &dyn AsRawFd) -> String {
        let objs = self.sh.lock().unwrap().objs.clone();
        let id = objs.and_then(|o| ino_of(fd.as_raw_fd()).and_then(|i| o.lock().unwrap().map.get(&i).cloned()));
        match id {
            Some(id) => format!("{}", id),
            None => "?".to_string(),
        }
    }
    fn log(&self, name: &str, args: String, payload: &[u8], fd: String) -> HandlerResult<u64> {
        let mut sh = self.sh.lock().unwrap();
        sh.calls.push(format!("{}:{}:{}:{}", name, args, bytes_to_hex(payload), fd));
        sh.next.result()
    }
}

fn uuid_hex(m: &VhostUserSharedMsg) -> String {
    format!("{:x}", u128::from_le_bytes(*m.uuid.as_bytes()))
}

fn mmap_args(r: &VhostUserMMap) -> String {
    format!("{:x},{:x},{:x},{:x},{:x}", { r.shmid }, { r.fd_offset }, { r.shm_offset }, { r.len }, { r.flags })
}

impl VhostUserFrontendReqHandlerMut for RecFe {
    fn handle_config_change(&mut self) -> HandlerResult<u64> {
        self.log("handle_config_change", "-".into(), &[], "-".into())
    }
    fn shared_object_add(&mut self, uuid: &VhostUserSharedMsg) -> HandlerResult<u64> {
        self.log("shared_object_add", uuid_hex(uuid), &[], "-".into())
    }
    fn shared_object_remove(&mut self, uuid: &VhostUserSharedMsg) -> HandlerResult<u64> {
        self.log("shared_object_remove", uuid_hex(uuid), &[], "-".into())
    }
    fn shared_object_lookup(&mut self, uuid: &VhostUserSharedMsg, fd: &dyn AsRawFd) -> HandlerResult<u64> {
        let id = self.ident(fd);
        self.log("shared_object_lookup", uuid_hex(uuid), &[], id)
    }
    fn shmem_map(&mut self, req: &VhostUserMMap, fd: &dyn AsRawFd) -> HandlerResult<u64> {
        let id = self.ident(fd);
        let pad = req.padding;
        self.log("shmem_map", mmap_args(req), &pad, id)
    }
    fn shmem_unmap(&mut self, req: &VhostUserMMap) -> HandlerResult<u64> {
        let pad = req.padding;
        self.log("shmem_unmap", mmap_args(req), &pad, "-".into())
    }
}

/// fresh objects with scenario-wide identities 1, 2, ...
pub struct Objs {
    pub map: HashMap<Ino, u32>,
    pub next: u32,
}

impl Objs {
    pub fn new() -> Self {
        Objs { map: HashMap::new(), next: 1 }
    }
    pub fn fresh_memfd(&mut self) -> RawFd {
        let fd = new_memfd(0);
        self.map.insert(ino_of(fd).unwrap(), self.next);
        self.next += 1;
        fd
    }
}

/// kernel thread id of the calling thread
pub fn gettid() -> i32 {
    unsafe { libc::syscall(libc::SYS_gettid) as i32 }
}

/// is thread `tid` of this process in interruptible sleep (state `S` in /proc/self/task/<tid>/stat)?
pub fn thread_sleeping(tid: i32) -> bool {
    if tid <= 0 {
        return false;
    }
    match std::fs::read_to_string(format!("/proc/self/task/{}/stat", tid)) {
        Ok(s) => match s.rfind(')') {
            Some(i) => s[i + 1..].trim_start().starts_with('S'),
            None => false,
        },
        Err(_) => false,
    }
}

/// bytes queued for reading on a socket
pub fn pending_bytes(fd: RawFd) -> i32 {
    let mut n: libc::c_int = 0;
    unsafe { libc::ioctl(fd, libc::FIONREAD, &mut n) };
    n
}

/// "the call waits for bytes nobody is going to send": decided by observation instead of by a short timer, so that a
/// loaded machine does not turn a slow call into `blocked` — the thread that runs the call sleeps, nothing is queued on
/// its socket, and the other side has nothing left to do, for `QUIET_ROUNDS` consecutive polls; `WATCHDOG` is the fallback.
pub const QUIET_ROUNDS: u32 = 6;
pub const WATCHDOG: std::time::Duration = std::time::Duration::from_secs(20);

pub fn readable(fd: RawFd, ms: i32) -> bool {
    let mut pfd = libc::pollfd { fd, events: libc::POLLIN, revents: 0 };
    let r = unsafe { libc::poll(&mut pfd, 1, ms) };
    r > 0 && (pfd.revents & (libc::POLLIN | libc::POLLHUP)) != 0
}

/// the raw peer's half of one operation in peer mode: collect what the proxy wrote; once a complete request has
/// arrived, play the reply script `r=<hex>/<nfds>` | `-` | `close` (one sendmsg) and optionally close.
pub struct PeerSide {
    pub sock: Option<std::os::unix::net::UnixStream>,
    pub fd: RawFd,
}

pub struct OpCollect {
    pub wire: Vec<u8>,
    pub wire_fds: Vec<String>,
    pub replied: bool,
}

impl PeerSide {
    pub fn new(sock: std::os::unix::net::UnixStream) -> Self {
        let fd = sock.as_raw_fd();
        PeerSide { sock: Some(sock), fd }
    }
    pub fn alive(&self) -> bool {
        self.sock.is_some()
    }
    /// one collection round; `hdr_only_size`: how to find the end of the request (12-byte header, size at offset 8)
    pub fn round(&mut self, c: &mut OpCollect, objs: &Arc<Mutex<Objs>>, rscript: Option<&str>, then_close: bool) {
        if self.sock.is_none() {
            return;
        }
        set_nonblocking(self.fd, true);
        let (b, fds, _eof) = drain(self.fd);
        set_nonblocking(self.fd, false);
        c.wire.extend(b);
        {
            let o = objs.lock().unwrap();
            for fd in fds {
                c.wire_fds.push(match ino_of(fd).and_then(|i| o.map.get(&i).cloned()) {
                    Some(id) => id.to_string(),
                    None => "?".into(),
                });
                close(fd);
            }
        }
        if !c.replied && c.wire.len() >= 12 {
            let size = u32::from_le_bytes([c.wire[8], c.wire[9], c.wire[10], c.wire[11]]) as usize;
            if c.wire.len() >= 12 + size {
                c.replied = true;
                match rscript {
                    None | Some("-") => {}
                    Some("close") => {
                        self.sock = None;
                    }
                    Some(s) => {
                        let (hexs, n) = match s.split_once('/') {
                            Some((a, b)) => (a, b.parse::<usize>().unwrap_or(0)),
                            None => (s, 0),
                        };
                        let bytes = hex_to_bytes(hexs);
                        let mut fds = Vec::new();
                        for _ in 0..n {
                            // reply descriptors get identities >= 1000 so that a leak of one of them is visible
                            let fd = new_memfd(0);
                            let mut o = objs.lock().unwrap();
                            let id = 1000 + o.next;
                            o.map.insert(ino_of(fd).unwrap(), id);
                            fds.push(fd);
                        }
                        if !bytes.is_empty() {
                            let _ = sendmsg(self.fd, &bytes, &fds, 0);
                        }
                        for fd in fds {
                            close(fd);
                        }
                        if then_close {
                            self.sock = None;
                        }
                    }
                }
            }
        }
    }
}
