//! family `send`: the crate's send loop (`Endpoint::send_iovec_all`) on a socket that accepts only part of a write,
//! and the iovec offset helper.
//!
//! `send bufs=<len,len,..> fds=<n> pre=<filler bytes> nb=<0|1>` -> `ret=ok:<n>|err.<class> bytes=<ok|bad:<first bad offset>> got=<n> fdsat=<offsets|->`
//! `send subiovs lens=<l,l,..> skip=<n>` -> `<nr>,<off>`
use crate::rawsock::*;
use crate::rec::err_class;
use crate::util::*;
use std::os::unix::io::AsRawFd;
use std::time::Duration;
use vhost::vhost_user::verif_hooks as hooks;

fn pat(i: usize) -> u8 {
    ((i * 7 + 3) % 251) as u8
}

pub fn run(line: &str) -> String {
    let toks: Vec<&str> = line.split_whitespace().collect();
    if toks.len() > 1 && toks[1] == "subiovs" {
        let lens: Vec<usize> = kv(&toks, "lens").unwrap_or("").split(',').filter(|s| !s.is_empty()).map(|s| usize::from_str_radix(s, 16).unwrap()).collect();
        let skip = usize::from_str_radix(kv(&toks, "skip").unwrap_or("0"), 16).unwrap();
        let (a, b) = hooks::get_sub_iovs_offset(&lens, skip);
        return format!("{:x},{:x}", a, b);
    }
    let lens: Vec<usize> = kv(&toks, "bufs").unwrap_or("").split(',').filter(|s| !s.is_empty()).map(|s| usize::from_str_radix(s, 16).unwrap()).collect();
    let nfds: usize = kv(&toks, "fds").unwrap_or("0").parse().unwrap();
    let pre: usize = usize::from_str_radix(kv(&toks, "pre").unwrap_or("0"), 16).unwrap();
    let nb = kv(&toks, "nb").unwrap_or("1") == "1";
    let (tx_sock, rx_sock) = pair();
    let txfd = tx_sock.as_raw_fd();
    let rxfd = rx_sock.as_raw_fd();
    // smallest possible send buffer
    let v: libc::c_int = 1;
    unsafe { libc::setsockopt(txfd, libc::SOL_SOCKET, libc::SO_SNDBUF, &v as *const _ as *const libc::c_void, 4) };
    // filler that is already queued when the message is sent
    let filler = vec![0xeeu8; pre];
    let mut off = 0;
    set_nonblocking(txfd, true);
    while off < filler.len() {
        let r = sendmsg(txfd, &filler[off..], &[], 0);
        if r <= 0 {
            break;
        }
        off += r as usize;
    }
    let pre_sent = off;
    set_nonblocking(txfd, nb);
    let total: usize = lens.iter().sum();
    // slow reader
    let reader = std::thread::spawn(move || {
        let mut got: Vec<u8> = Vec::new();
        let mut fds_at: Vec<usize> = Vec::new();
        let mut nf = 0usize;
        let want = pre_sent + total;
        let t0 = std::time::Instant::now();
        while got.len() < want && t0.elapsed() < Duration::from_millis(3000) {
            std::thread::sleep(Duration::from_micros(200));
            match recvmsg(rxfd, 997, libc::MSG_DONTWAIT) {
                Ok((b, f)) => {
                    if b.is_empty() && f.is_empty() {
                        break;
                    }
                    if !f.is_empty() {
                        fds_at.push(got.len());
                        nf += f.len();
                        for fd in f {
                            close(fd);
                        }
                    }
                    got.extend(b);
                }
                Err(e) if e == libc::EAGAIN => continue,
                Err(_) => break,
            }
        }
        (got, fds_at, nf)
    });
    let bufs: Vec<Vec<u8>> = {
        let mut k = 0;
        lens.iter().map(|l| { let v: Vec<u8> = (0..*l).map(|i| pat(k + i)).collect(); k += *l; v }).collect()
    };
    let iovs: Vec<&[u8]> = bufs.iter().map(|b| b.as_slice()).collect();
    let fds: Vec<i32> = (0..nfds).map(|_| new_memfd(0)).collect();
    let mut ep = hooks::RawEndpoint::from_stream(tx_sock);
    let r = ep.send_iovec_all(&iovs, if nfds > 0 { Some(&fds) } else { None });
    for fd in fds {
        close(fd);
    }
    let ret = match r {
        Ok(n) => format!("ok:{:x}", n),
        Err(e) => format!("err.{}", err_class(&e)),
    };
    drop(ep);
    let (got, fds_at, nf) = reader.join().unwrap();
    drop(rx_sock);
    let msg = &got[pre_sent.min(got.len())..];
    let mut bad: Option<usize> = None;
    for (i, b) in msg.iter().enumerate() {
        if *b != pat(i) {
            bad = Some(i);
            break;
        }
    }
    let bytes = match bad { None => "ok".to_string(), Some(i) => format!("bad:{:x}", i) };
    let fa: Vec<String> = fds_at.iter().map(|o| format!("{:x}", o.saturating_sub(pre_sent))).collect();
    format!("ret={} bytes={} got={:x} nfds={} fdsat={}", ret, bytes, msg.len(), nf, if fa.is_empty() { "-".to_string() } else { fa.join(",") })
}
