//! Reusable daemon test bench: a recording `VhostUserBackendMut`, a real `VhostUserDaemon` serving one
//! end of a unix connection, and the raw peer (`crate::peer::RawPeer`) on the other end.
//!
//! # API overview
//!
//! * [`Config`] — what the backend reports: `num_queues`, `max_queue_size`, `features`,
//!   `protocol_features`, `queues_per_thread`, `exit_events` (whether `exit_event(t)` returns a pair),
//!   `lock` ([`LockKind::Mutex`] → `Arc<Mutex<RecordingBackend>>`, [`LockKind::RwLock`] →
//!   `Arc<RwLock<RecordingBackend>>`: the crate's two `VhostUserBackendMut` adapters), scripted results
//!   (`update_memory_fails`).
//! * [`RecordingBackend<V, B>`] — generic over the vring type `V` (`VringMutex<GM<B>>`,
//!   `VringRwLock<GM<B>>`) and the bitmap type `B` (`()`, `BitmapMmapRegion`).  Every callback is
//!   appended to the shared [`EventLog`] as an [`Ev`]:
//!   `HandleEvent { device_event, evset, thread_id, rings, fired }`, `UpdateMemory { regions }`,
//!   `SetEventIdx`, `AckedFeatures`, `ResetDevice`, `GetConfig`, `SetConfig`, `SetBackendReqFd`,
//!   `ExitEvent { thread }` (the call of `exit_event`).
//!   `rings` is the identity of every element of the slice handed to `handle_event`
//!   ([`RingId`]: configured size, next_avail, ready, enabled) — scenarios make rings distinguishable by
//!   giving queue `q` a distinct size (SET_VRING_NUM, powers of two) and/or a distinct base
//!   (SET_VRING_BASE, any u16).  The slice itself is cloned into [`Shared::vrings`] (per thread) so that
//!   a scenario can later call `add_used` & co. on the very objects the daemon uses.
//! * [`EventLog`] — `snapshot()`, `len()`, `since(n)`, `wait_for(from, pred, timeout)` (condvar, no
//!   polling), `clear()`.
//! * [`start`]`::<V, B>(cfg, mem)` → [`Bench<V, B>`]: creates the backend, the `VhostUserDaemon` (which
//!   spawns one worker per mask), lets it accept the connection of a fresh `RawPeer` over a `Listener` on a
//!   private temporary socket path, and returns everything: `peer`, `log`, `shared`, `mem` (the very
//!   `GuestMemoryAtomic` the daemon updates on SET_MEM_TABLE), `workers` (type-erased
//!   `VringEpollHandler`s: `register_listener`, `unregister_listener`, `send_exit_event`).
//! * listeners:
//!   * [`Bench::add_probe`]`(thread, id: u64)` — registers a fresh non-blocking eventfd through the public
//!     `register_listener` with an arbitrary 64-bit id.  Probes are drained by the backend on *every*
//!     `handle_event` of that thread and the registered ids that were pending are recorded in
//!     `Ev::HandleEvent::fired` — so the observation "which listener fired, and under which
//!     `device_event` was it delivered" does not depend on the delivered id being right
//!     (epoll is level-triggered: a listener that is not consumed inside `handle_event` would be
//!     re-delivered forever).
//!   * [`Bench::barrier`]`(thread)` — "everything that was ready before now has been dispatched":
//!     a dedicated listener (id `BARRIER_BASE + thread`, consumed only by its own delivery) is fired and
//!     awaited twice.  The first delivery proves that the epoll batch that contained it was collected
//!     after every earlier write; the second delivery is necessarily in a later batch, so the first batch
//!     has been processed completely.  No sleeping; `false` = the worker did not answer within the
//!     watchdog (it exited or is blocked).
//! * additions for the `mem` / `vq` families (C13, C14), all add-only:
//!   * [`Shared::mem_snapshots`] — every `update_memory` call stores the very snapshot it was handed
//!     (`mem.memory().into_inner()`, an `Arc<GuestMemoryMmap<B>>` behind `dyn Any`); [`Bench::snapshots`] downcasts them.
//!     Reads and writes of guest memory "as the backend was given it" go through these objects.
//!   * [`RingFull`] / [`Shared::samples`] — every `handle_event` samples *all* queue accessors of every ring of its
//!     slice (size, max_size, ready, next_avail, next_used, desc/avail/used addresses, event_idx, enabled) from inside the
//!     handler; [`Bench::sample`]`(thread)` fires a dedicated listener and returns the sample taken by that delivery.
//!   * [`Shared::set_hook`] — a closure run *inside* `handle_event` (after sampling) with the ring slice, for ring
//!     operations issued from the backend's event handler (`add_used`, `signal_used_queue`, ...); its output strings are
//!     collected in [`Shared::hook_out`].  [`Bench::run_in_handler`] installs a one-shot hook, triggers a delivery on the
//!     thread and returns what the hook produced.
//!   * [`Shared::backend_reqs`] — the `Backend` objects handed to `set_backend_req_fd` (so that a scenario can issue
//!     backend-initiated requests through them and look at what arrives on its end of the channel).
//!   * [`Bench::reconnect`] — a refused request ends the daemon's connection thread; `reconnect` waits for it
//!     (`VhostUserDaemon::wait`), lets the *same* daemon (same handler, rings, memory, backend) accept a fresh connection
//!     (`VhostUserDaemon::start` on a new listener) and replaces `peer`.  The handler state survives, the per-connection
//!     negotiation state of the request server does not (the scenario repeats the feature exchange).
//! * [`Bench::finish`] — closes the peer, waits for the daemon thread (`wait()`), drops the daemon (which
//!   joins the workers if exit events are configured).
#![allow(dead_code)]

use std::any::Any;
use std::collections::HashMap;
use std::io;
use std::marker::PhantomData;
use std::os::fd::{AsRawFd, OwnedFd, RawFd};
use std::os::unix::net::UnixStream;
use std::sync::atomic::{AtomicU64, Ordering};
use std::sync::{Arc, Condvar, Mutex, RwLock};
use std::time::{Duration, Instant};

use vhost::vhost_user::message::VhostUserProtocolFeatures;
use vhost::vhost_user::{Backend, Listener};
use vhost_user_backend::bitmap::BitmapReplace;
use vhost_user_backend::{VhostUserBackend, VhostUserBackendMut, VhostUserDaemon, VringEpollHandler, VringT};
use virtio_queue::QueueT;
use vm_memory::bitmap::Bitmap;
use vm_memory::mmap::NewBitmap;
use vm_memory::{GuestAddressSpace, GuestMemory, GuestMemoryAtomic, GuestMemoryMmap, GuestMemoryRegion};
use vmm_sys_util::epoll::EventSet;
use vmm_sys_util::event::{new_event_consumer_and_notifier, EventConsumer, EventFlag, EventNotifier};

use crate::peer::{self, RawPeer};

pub type GM<B> = GuestMemoryAtomic<GuestMemoryMmap<B>>;

/// listener ids used by `Bench::barrier` (must be > num_queues and fit 16 bits)
pub const BARRIER_BASE: u64 = 0xB000;

#[derive(Debug, Clone, Copy, PartialEq, Eq)]
pub enum LockKind {
    Mutex,
    RwLock,
}

#[derive(Debug, Clone)]
pub struct Config {
    pub num_queues: usize,
    pub max_queue_size: usize,
    pub features: u64,
    pub protocol_features: u64,
    pub queues_per_thread: Vec<u64>,
    pub exit_events: bool,
    pub lock: LockKind,
    /// `update_memory` returns an error (scripted)
    pub update_memory_fails: bool,
}

impl Default for Config {
    fn default() -> Self {
        Config {
            num_queues: 2,
            max_queue_size: 1024,
            features: (1 << peer::vfeat::PROTOCOL_FEATURES) | (1 << peer::vfeat::VERSION_1) | (1 << peer::vfeat::RING_EVENT_IDX)
                | (1 << peer::vfeat::LOG_ALL),
            protocol_features: (1 << peer::pfeat::MQ) | (1 << peer::pfeat::LOG_SHMFD) | (1 << peer::pfeat::REPLY_ACK)
                | (1 << peer::pfeat::CONFIGURE_MEM_SLOTS) | (1 << peer::pfeat::CONFIG),
            queues_per_thread: vec![0xffff_ffff],
            exit_events: true,
            lock: LockKind::Mutex,
            update_memory_fails: false,
        }
    }
}

/// what the backend can see of one ring
#[derive(Debug, Clone, Copy, PartialEq, Eq)]
pub struct RingId {
    pub size: u16,
    pub next_avail: u16,
    pub ready: bool,
    pub enabled: bool,
}

#[derive(Debug, Clone, PartialEq, Eq)]
pub enum Ev {
    HandleEvent {
        device_event: u16,
        evset: u32,
        thread_id: usize,
        rings: Vec<RingId>,
        /// registered ids of the probe listeners of this thread that were pending (and got drained)
        fired: Vec<u64>,
    },
    UpdateMemory { regions: Vec<(u64, u64)> },
    SetEventIdx(bool),
    AckedFeatures(u64),
    ResetDevice,
    GetConfig { offset: u32, size: u32 },
    SetConfig { offset: u32, data: Vec<u8> },
    SetBackendReqFd,
    ExitEvent { thread: usize },
}

/// append-only callback log shared between the backend and the scenario runner
#[derive(Default)]
pub struct EventLog {
    evs: Mutex<Vec<Ev>>,
    cv: Condvar,
}

impl EventLog {
    pub fn push(&self, e: Ev) {
        self.evs.lock().unwrap().push(e);
        self.cv.notify_all();
    }
    pub fn len(&self) -> usize {
        self.evs.lock().unwrap().len()
    }
    pub fn snapshot(&self) -> Vec<Ev> {
        self.evs.lock().unwrap().clone()
    }
    pub fn since(&self, n: usize) -> Vec<Ev> {
        self.evs.lock().unwrap()[n..].to_vec()
    }
    pub fn clear(&self) {
        self.evs.lock().unwrap().clear();
    }
    /// wait until an entry at index >= `from` satisfies `pred`; returns its index
    pub fn wait_for<F: Fn(&Ev) -> bool>(&self, from: usize, pred: F, timeout: Duration) -> Option<usize> {
        let deadline = Instant::now() + timeout;
        let mut g = self.evs.lock().unwrap();
        let mut scanned = from;
        loop {
            while scanned < g.len() {
                if pred(&g[scanned]) {
                    return Some(scanned);
                }
                scanned += 1;
            }
            let now = Instant::now();
            if now >= deadline {
                return None;
            }
            let (g2, _) = self.cv.wait_timeout(g, deadline - now).unwrap();
            g = g2;
        }
    }
}

struct ProbeReg {
    id: u64,
    fd: Arc<OwnedFd>,
}

/// state shared between backend callbacks and the scenario runner (never behind the backend's own lock)
pub struct Shared<V> {
    pub log: Arc<EventLog>,
    /// per thread: probe listeners (drained on every handle_event of that thread)
    probes: Mutex<HashMap<usize, Vec<ProbeReg>>>,
    /// per thread: barrier eventfd (drained only by its own delivery)
    barriers: Mutex<HashMap<usize, Arc<OwnedFd>>>,
    /// per thread: the ring slice most recently handed to `handle_event` (clones share the ring state)
    pub vrings: Mutex<HashMap<usize, Vec<V>>>,
    /// number of `exit_event` calls
    exit_calls: AtomicU64,
    /// raw descriptors of the exit-event consumers handed to the crate.  `VringEpollHandler::new` turns them into raw
    /// descriptors (`into_raw_fd`) and never closes them; the bench closes them after the daemon is gone so that a
    /// long-running harness process does not run out of descriptors.
    exit_fds: Mutex<Vec<RawFd>>,
    // ---- additions for the mem / vq families (C13, C14)
    /// the snapshot (`Arc<GuestMemoryMmap<B>>`) each `update_memory` call was handed, oldest first
    pub mem_snapshots: Mutex<Vec<Arc<dyn Any + Send + Sync>>>,
    /// full accessor samples taken inside every `handle_event`
    pub samples: Mutex<Vec<Sample>>,
    /// closure run inside `handle_event` (after sampling); returns canonical output tokens
    hook: Mutex<Option<Hook<V>>>,
    /// what the hooks produced
    pub hook_out: Mutex<Vec<String>>,
    /// the channels handed to `set_backend_req_fd`
    pub backend_reqs: Mutex<Vec<Backend>>,
    /// per thread: eventfd of the sampling listener (id `SAMPLE_BASE + thread`)
    samplers: Mutex<HashMap<usize, Arc<OwnedFd>>>,
}

/// listener ids used by `Bench::sample` / `Bench::run_in_handler`
pub const SAMPLE_BASE: u64 = 0xB100;

/// `(device_event, ring slice, thread_id) -> output tokens`; return value `true` of the second component = keep the hook
pub type Hook<V> = Box<dyn FnMut(u16, &[V], usize) -> (Vec<String>, bool) + Send>;

/// every accessor of one ring, read inside the backend's event handler
#[derive(Debug, Clone, Copy, PartialEq, Eq)]
pub struct RingFull {
    pub size: u16,
    pub max_size: u16,
    pub ready: bool,
    pub next_avail: u16,
    pub next_used: u16,
    pub desc_table: u64,
    pub avail_ring: u64,
    pub used_ring: u64,
    pub event_idx: bool,
    pub enabled: bool,
}

#[derive(Debug, Clone, PartialEq, Eq)]
pub struct Sample {
    pub device_event: u16,
    pub thread_id: usize,
    pub rings: Vec<RingFull>,
}

pub fn ring_full<V, B>(v: &V) -> RingFull
where
    B: Bitmap + 'static,
    V: VringT<GM<B>>,
{
    let g = v.get_ref();
    let q = g.get_queue();
    RingFull {
        size: q.size(),
        max_size: q.max_size(),
        ready: q.ready(),
        next_avail: q.next_avail(),
        next_used: q.next_used(),
        desc_table: q.desc_table(),
        avail_ring: q.avail_ring(),
        used_ring: q.used_ring(),
        event_idx: q.event_idx_enabled(),
        enabled: g.is_enabled(),
    }
}

impl<V> Shared<V> {
    /// install (or clear) the closure run inside `handle_event`
    pub fn set_hook(&self, h: Option<Hook<V>>) {
        *self.hook.lock().unwrap() = h;
    }

    fn new() -> Self {
        Shared {
            log: Arc::new(EventLog::default()),
            probes: Mutex::new(HashMap::new()),
            barriers: Mutex::new(HashMap::new()),
            vrings: Mutex::new(HashMap::new()),
            exit_calls: AtomicU64::new(0),
            exit_fds: Mutex::new(Vec::new()),
            mem_snapshots: Mutex::new(Vec::new()),
            samples: Mutex::new(Vec::new()),
            hook: Mutex::new(None),
            hook_out: Mutex::new(Vec::new()),
            backend_reqs: Mutex::new(Vec::new()),
            samplers: Mutex::new(HashMap::new()),
        }
    }
}

pub struct RecordingBackend<V, B: Bitmap + 'static> {
    cfg: Config,
    shared: Arc<Shared<V>>,
    /// latest memory object handed over by `update_memory`
    pub mem: Option<GM<B>>,
    _p: PhantomData<(V, B)>,
}

impl<V, B: Bitmap + 'static> RecordingBackend<V, B> {
    fn new(cfg: Config, shared: Arc<Shared<V>>) -> Self {
        RecordingBackend { cfg, shared, mem: None, _p: PhantomData }
    }
}

pub fn ring_id<V, B>(v: &V) -> RingId
where
    B: Bitmap + 'static,
    V: VringT<GM<B>>,
{
    let g = v.get_ref();
    RingId { size: g.get_queue().size(), next_avail: g.get_queue().next_avail(), ready: g.get_queue().ready(), enabled: g.is_enabled() }
}

impl<V, B> VhostUserBackendMut for RecordingBackend<V, B>
where
    B: Bitmap + NewBitmap + Clone + Send + Sync + 'static,
    V: VringT<GM<B>> + Clone + Send + Sync + 'static,
{
    type Bitmap = B;
    type Vring = V;

    fn num_queues(&self) -> usize {
        self.cfg.num_queues
    }
    fn max_queue_size(&self) -> usize {
        self.cfg.max_queue_size
    }
    fn features(&self) -> u64 {
        self.cfg.features
    }
    fn acked_features(&mut self, features: u64) {
        self.shared.log.push(Ev::AckedFeatures(features));
    }
    fn protocol_features(&self) -> VhostUserProtocolFeatures {
        VhostUserProtocolFeatures::from_bits_truncate(self.cfg.protocol_features)
    }
    fn reset_device(&mut self) {
        self.shared.log.push(Ev::ResetDevice);
    }
    fn set_event_idx(&mut self, enabled: bool) {
        self.shared.log.push(Ev::SetEventIdx(enabled));
    }
    fn get_config(&self, offset: u32, size: u32) -> Vec<u8> {
        self.shared.log.push(Ev::GetConfig { offset, size });
        (0..size).map(|i| (offset.wrapping_add(i) & 0xff) as u8).collect()
    }
    fn set_config(&mut self, offset: u32, buf: &[u8]) -> io::Result<()> {
        self.shared.log.push(Ev::SetConfig { offset, data: buf.to_vec() });
        Ok(())
    }
    fn update_memory(&mut self, mem: GM<B>) -> io::Result<()> {
        let regions = mem.memory().iter().map(|r| (r.start_addr().0, r.len())).collect();
        // (C13/C14) keep the very snapshot this call was handed
        let snap: Arc<GuestMemoryMmap<B>> = mem.memory().into_inner();
        self.shared.mem_snapshots.lock().unwrap().push(snap as Arc<dyn Any + Send + Sync>);
        self.shared.log.push(Ev::UpdateMemory { regions });
        self.mem = Some(mem);
        if self.cfg.update_memory_fails {
            Err(io::Error::from(io::ErrorKind::Other))
        } else {
            Ok(())
        }
    }
    fn set_backend_req_fd(&mut self, backend: Backend) {
        self.shared.backend_reqs.lock().unwrap().push(backend);
        self.shared.log.push(Ev::SetBackendReqFd);
    }
    fn queues_per_thread(&self) -> Vec<u64> {
        self.cfg.queues_per_thread.clone()
    }
    fn exit_event(&self, thread_index: usize) -> Option<(EventConsumer, EventNotifier)> {
        self.shared.log.push(Ev::ExitEvent { thread: thread_index });
        self.shared.exit_calls.fetch_add(1, Ordering::SeqCst);
        if self.cfg.exit_events {
            let pair = new_event_consumer_and_notifier(EventFlag::NONBLOCK).expect("exit eventfd");
            self.shared.exit_fds.lock().unwrap().push(pair.0.as_raw_fd());
            Some(pair)
        } else {
            None
        }
    }
    fn handle_event(&mut self, device_event: u16, evset: EventSet, vrings: &[V], thread_id: usize) -> io::Result<()> {
        // drain the barrier only on its own delivery
        if device_event as u64 == BARRIER_BASE + thread_id as u64 {
            if let Some(fd) = self.shared.barriers.lock().unwrap().get(&thread_id) {
                let _ = peer::efd_read(fd.as_raw_fd());
            }
        }
        // (C13/C14) drain the sampling listener only on its own delivery
        if device_event as u64 == SAMPLE_BASE + thread_id as u64 {
            if let Some(fd) = self.shared.samplers.lock().unwrap().get(&thread_id) {
                let _ = peer::efd_read(fd.as_raw_fd());
            }
        }
        // drain every probe of this thread, remember which ones were pending
        let mut fired = Vec::new();
        if let Some(ps) = self.shared.probes.lock().unwrap().get(&thread_id) {
            for p in ps {
                if peer::efd_read(p.fd.as_raw_fd()).is_some() {
                    fired.push(p.id);
                }
            }
        }
        fired.sort_unstable();
        let rings: Vec<RingId> = vrings.iter().map(|v| ring_id::<V, B>(v)).collect();
        self.shared.vrings.lock().unwrap().insert(thread_id, vrings.to_vec());
        // (C13/C14) full accessor sample and the in-handler hook, before the event becomes visible in the log
        let full: Vec<RingFull> = vrings.iter().map(|v| ring_full::<V, B>(v)).collect();
        self.shared.samples.lock().unwrap().push(Sample { device_event, thread_id, rings: full });
        let hook = self.shared.hook.lock().unwrap().take();
        if let Some(mut h) = hook {
            let (out, keep) = h(device_event, vrings, thread_id);
            self.shared.hook_out.lock().unwrap().extend(out);
            if keep {
                let mut g = self.shared.hook.lock().unwrap();
                if g.is_none() {
                    *g = Some(h);
                }
            }
        }
        self.shared.log.push(Ev::HandleEvent { device_event, evset: evset.bits(), thread_id, rings, fired });
        Ok(())
    }
}

/// type-erased `Arc<VringEpollHandler<T>>`
pub trait Worker: Send + Sync {
    fn register_listener(&self, fd: RawFd, data: u64) -> io::Result<()>;
    fn unregister_listener(&self, fd: RawFd, data: u64) -> io::Result<()>;
    fn send_exit_event(&self);
}

impl<T> Worker for Arc<VringEpollHandler<T>>
where
    T: VhostUserBackend,
    T::Bitmap: Send + Sync,
    T::Vring: Send + Sync,
{
    fn register_listener(&self, fd: RawFd, data: u64) -> io::Result<()> {
        VringEpollHandler::register_listener(self, fd, EventSet::IN, data)
    }
    fn unregister_listener(&self, fd: RawFd, data: u64) -> io::Result<()> {
        VringEpollHandler::unregister_listener(self, fd, EventSet::IN, data)
    }
    fn send_exit_event(&self) {
        VringEpollHandler::send_exit_event(self)
    }
}

/// type-erased `VhostUserDaemon<T>`
pub trait DaemonOps: Send {
    /// `VhostUserDaemon::wait()`: true = Ok
    fn wait_ok(&mut self) -> bool;
    fn request_shutdown(&self);
    /// (C13/C14) `VhostUserDaemon::start` once more on the same daemon: true = a connection was accepted
    fn restart(&mut self, listener: &mut Listener) -> bool;
}

impl<T> DaemonOps for VhostUserDaemon<T>
where
    T: VhostUserBackend + Clone + 'static,
    T::Bitmap: BitmapReplace + NewBitmap + Clone + Send + Sync,
    T::Vring: Clone + Send + Sync,
{
    fn wait_ok(&mut self) -> bool {
        self.wait().is_ok()
    }
    fn request_shutdown(&self) {
        VhostUserDaemon::request_shutdown(self)
    }
    fn restart(&mut self, listener: &mut Listener) -> bool {
        self.start(listener).is_ok()
    }
}

pub struct Probe {
    pub id: u64,
    pub thread: usize,
    fd: Arc<OwnedFd>,
}

impl Probe {
    pub fn fire(&self) {
        peer::efd_write(self.fd.as_raw_fd(), 1).expect("probe write");
    }
    pub fn raw_fd(&self) -> RawFd {
        self.fd.as_raw_fd()
    }
}

pub struct Bench<V, B: Bitmap + 'static> {
    pub cfg: Config,
    pub peer: RawPeer,
    pub log: Arc<EventLog>,
    pub shared: Arc<Shared<V>>,
    /// the daemon's guest-memory object (`memory()` = current table)
    pub mem: GM<B>,
    pub workers: Vec<Box<dyn Worker>>,
    daemon: Option<Box<dyn DaemonOps>>,
    /// watchdog for barriers / waits
    pub watchdog: Duration,
}

static SOCK_SEQ: AtomicU64 = AtomicU64::new(0);

fn sock_path() -> std::path::PathBuf {
    let n = SOCK_SEQ.fetch_add(1, Ordering::SeqCst);
    std::env::temp_dir().join(format!("vharness-{}-{}.sock", std::process::id(), n))
}

/// Start a real daemon around a fresh `RecordingBackend<V, B>` and connect a raw peer to it.
pub fn start<V, B>(cfg: Config, mem: GM<B>) -> Bench<V, B>
where
    B: Bitmap + BitmapReplace + NewBitmap + Clone + Send + Sync + 'static,
    V: VringT<GM<B>> + Clone + Send + Sync + 'static,
{
    let shared: Arc<Shared<V>> = Arc::new(Shared::new());
    let rb = RecordingBackend::<V, B>::new(cfg.clone(), shared.clone());
    let path = sock_path();
    let mut listener = Listener::new(&path, true).expect("listener");
    // connect first (the kernel queues the connection), then let the daemon accept it
    let sock = UnixStream::connect(&path).expect("connect");
    let (daemon, workers): (Box<dyn DaemonOps>, Vec<Box<dyn Worker>>) = match cfg.lock {
        LockKind::Mutex => {
            let mut d = VhostUserDaemon::new("vharness".to_string(), Arc::new(Mutex::new(rb)), mem.clone()).expect("daemon");
            d.start(&mut listener).expect("start");
            let w = d.get_epoll_handlers().into_iter().map(|h| Box::new(h) as Box<dyn Worker>).collect();
            (Box::new(d), w)
        }
        LockKind::RwLock => {
            let mut d = VhostUserDaemon::new("vharness".to_string(), Arc::new(RwLock::new(rb)), mem.clone()).expect("daemon");
            d.start(&mut listener).expect("start");
            let w = d.get_epoll_handlers().into_iter().map(|h| Box::new(h) as Box<dyn Worker>).collect();
            (Box::new(d), w)
        }
    };
    drop(listener);
    let _ = std::fs::remove_file(&path);
    Bench {
        cfg,
        peer: RawPeer::new(sock),
        log: shared.log.clone(),
        shared,
        mem,
        workers,
        daemon: Some(daemon),
        watchdog: Duration::from_millis(2000),
    }
}

impl<V, B: Bitmap + 'static> Bench<V, B> {
    /// Register a probe listener with an arbitrary id on worker `thread` through the public
    /// `register_listener`.  `Err(())` = the registration was refused.
    pub fn add_probe(&self, thread: usize, id: u64) -> Result<Probe, ()> {
        let fd = Arc::new(peer::eventfd(true));
        // make the backend aware of it *before* it can fire
        self.shared.probes.lock().unwrap().entry(thread).or_default().push(ProbeReg { id, fd: fd.clone() });
        match self.workers[thread].register_listener(fd.as_raw_fd(), id) {
            Ok(()) => Ok(Probe { id, thread, fd }),
            Err(_) => {
                let mut g = self.shared.probes.lock().unwrap();
                let v = g.get_mut(&thread).unwrap();
                v.retain(|p| !Arc::ptr_eq(&p.fd, &fd));
                Err(())
            }
        }
    }

    /// Unregister a probe (through the public `unregister_listener`) and forget it.
    pub fn remove_probe(&self, p: &Probe) -> bool {
        let r = self.workers[p.thread].unregister_listener(p.fd.as_raw_fd(), p.id).is_ok();
        let mut g = self.shared.probes.lock().unwrap();
        if let Some(v) = g.get_mut(&p.thread) {
            v.retain(|q| !Arc::ptr_eq(&q.fd, &p.fd));
        }
        r
    }

    fn barrier_fd(&self, thread: usize) -> Option<Arc<OwnedFd>> {
        let mut g = self.shared.barriers.lock().unwrap();
        if let Some(fd) = g.get(&thread) {
            return Some(fd.clone());
        }
        let fd = Arc::new(peer::eventfd(true));
        g.insert(thread, fd.clone());
        drop(g);
        if self.workers[thread].register_listener(fd.as_raw_fd(), BARRIER_BASE + thread as u64).is_err() {
            self.shared.barriers.lock().unwrap().remove(&thread);
            return None;
        }
        Some(fd)
    }

    /// Everything that was ready on worker `thread` before this call has been dispatched when it returns
    /// `true`.  `false`: the worker did not answer within the watchdog.
    pub fn barrier(&self, thread: usize) -> bool {
        let fd = match self.barrier_fd(thread) {
            Some(f) => f,
            None => return false,
        };
        let id = (BARRIER_BASE + thread as u64) as u16;
        for _ in 0..2 {
            let from = self.log.len();
            if peer::efd_write(fd.as_raw_fd(), 1).is_err() {
                return false;
            }
            let seen = self.log.wait_for(
                from,
                |e| matches!(e, Ev::HandleEvent { device_event, thread_id, .. } if *device_event == id && *thread_id == thread),
                self.watchdog,
            );
            if seen.is_none() {
                return false;
            }
        }
        true
    }

    // ------------------------------------------------------------ additions for the mem / vq families (C13, C14)

    /// The snapshots handed to `update_memory`, oldest first.
    pub fn snapshots(&self) -> Vec<Arc<GuestMemoryMmap<B>>>
    where
        B: Send + Sync,
    {
        self.shared.mem_snapshots.lock().unwrap().iter().filter_map(|a| a.clone().downcast::<GuestMemoryMmap<B>>().ok()).collect()
    }

    fn sampler_fd(&self, thread: usize) -> Option<Arc<OwnedFd>> {
        let mut g = self.shared.samplers.lock().unwrap();
        if let Some(fd) = g.get(&thread) {
            return Some(fd.clone());
        }
        let fd = Arc::new(peer::eventfd(true));
        g.insert(thread, fd.clone());
        drop(g);
        if self.workers[thread].register_listener(fd.as_raw_fd(), SAMPLE_BASE + thread as u64).is_err() {
            self.shared.samplers.lock().unwrap().remove(&thread);
            return None;
        }
        Some(fd)
    }

    /// One delivery of the sampling listener on worker `thread`; returns the index of its `HandleEvent` log entry.
    fn sampler_delivery(&self, thread: usize) -> Option<usize> {
        let fd = self.sampler_fd(thread)?;
        let id = (SAMPLE_BASE + thread as u64) as u16;
        let from = self.log.len();
        peer::efd_write(fd.as_raw_fd(), 1).ok()?;
        self.log.wait_for(
            from,
            |e| matches!(e, Ev::HandleEvent { device_event, thread_id, .. } if *device_event == id && *thread_id == thread),
            self.watchdog,
        )
    }

    /// Queue accessors of every ring of worker `thread`'s slice, read inside the backend's `handle_event`
    /// (delivery of a dedicated listener registered through the public `register_listener`).
    pub fn sample(&self, thread: usize) -> Option<Vec<RingFull>> {
        self.sampler_delivery(thread)?;
        let id = (SAMPLE_BASE + thread as u64) as u16;
        let g = self.shared.samples.lock().unwrap();
        g.iter().rev().find(|s| s.device_event == id && s.thread_id == thread).map(|s| s.rings.clone())
    }

    /// Run `f` once inside the backend's `handle_event` on worker `thread` (with the ring slice the daemon passes) and
    /// return its output tokens.  `None`: the worker did not answer within the watchdog.
    pub fn run_in_handler<F>(&self, thread: usize, mut f: F) -> Option<Vec<String>>
    where
        F: FnMut(&[V]) -> Vec<String> + Send + 'static,
        V: 'static,
    {
        let id = (SAMPLE_BASE + thread as u64) as u16;
        self.shared.hook_out.lock().unwrap().clear();
        self.shared.set_hook(Some(Box::new(move |ev, vrings: &[V], t| {
            if ev == id && t == thread {
                (f(vrings), false)
            } else {
                (Vec::new(), true)
            }
        })));
        let r = self.sampler_delivery(thread);
        self.shared.set_hook(None);
        r?;
        Some(std::mem::take(&mut *self.shared.hook_out.lock().unwrap()))
    }

    /// After a refused request (the daemon's connection thread ended): wait for it, let the same daemon accept a fresh
    /// connection and replace `peer`.  Returns what `wait()` reported for the old connection, `None` if no new
    /// connection could be established.
    pub fn reconnect(&mut self) -> Option<bool> {
        let _ = self.peer.sock.shutdown(std::net::Shutdown::Both);
        let d = self.daemon.as_mut()?;
        let waited = d.wait_ok();
        let path = sock_path();
        let mut listener = Listener::new(&path, true).ok()?;
        let sock = UnixStream::connect(&path).ok()?;
        let ok = d.restart(&mut listener);
        drop(listener);
        let _ = std::fs::remove_file(&path);
        if !ok {
            return None;
        }
        self.peer = RawPeer::new(sock);
        Some(waited)
    }

    /// barrier on every worker
    pub fn barrier_all(&self) -> bool {
        (0..self.workers.len()).all(|t| self.barrier(t))
    }

    /// log entries that are not barrier deliveries
    pub fn events_since(&self, n: usize) -> Vec<Ev> {
        self.log
            .since(n)
            .into_iter()
            .filter(|e| !matches!(e, Ev::HandleEvent { device_event, thread_id, .. } if *device_event as u64 == BARRIER_BASE + *thread_id as u64))
            .collect()
    }

    /// close the exit-event consumers the crate abandoned (only after the daemon and its workers are gone)
    fn close_exit_fds(&self) {
        for fd in self.shared.exit_fds.lock().unwrap().drain(..) {
            // SAFETY: the descriptor was released by the crate with `into_raw_fd` and nothing refers to it any more.
            unsafe { libc::close(fd) };
        }
    }

    /// Orderly end: close our side, wait for the daemon's connection thread, drop the daemon (its handler
    /// joins the workers after sending the exit event; with `exit_events = false` the workers are left
    /// running detached, exactly as the crate does).  Returns what `wait()` reported.
    pub fn finish(mut self) -> bool {
        let _ = self.peer.sock.shutdown(std::net::Shutdown::Both);
        let mut ok = true;
        if let Some(mut d) = self.daemon.take() {
            ok = d.wait_ok();
            self.workers.clear();
            if self.cfg.exit_events {
                drop(d);
                self.close_exit_fds();
            } else {
                // dropping would join workers that never exit; leak the daemon on purpose
                std::mem::forget(d);
            }
        }
        ok
    }
}

impl<V, B: Bitmap + 'static> Drop for Bench<V, B> {
    fn drop(&mut self) {
        let _ = self.peer.sock.shutdown(std::net::Shutdown::Both);
        if let Some(mut d) = self.daemon.take() {
            let _ = d.wait_ok();
            self.workers.clear();
            if self.cfg.exit_events {
                drop(d);
                self.close_exit_fds();
            } else {
                std::mem::forget(d);
            }
        }
    }
}
