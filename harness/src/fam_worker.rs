//! family `worker` (C12): worker thread × control thread × guest kick of a real `VhostUserDaemon`, interleaved at the hold
//! points of feature `verif-hooks`.
//!
//! scenario:  `worker scen=disable|stop|stopnf|reset cfg=mutex|rwlock sched=<tok>,<tok>,...`
//!   Setup (controller disarmed): 1 ring (`reset`: 2 rings), features with bit 30 acknowledged, ring 0 started with a
//!   non-blocking eventfd `fd0` and enabled, worker idle.  Then the controller is armed: the worker thread parks at every
//!   `worker.*` hold point and the daemon's request thread at every `ctl.*` hold point, and each schedule token lets exactly
//!   one party run one code segment:
//!   `K`  the guest writes 1 to the kick descriptor most recently sent for ring 0;
//!   `W`  the worker runs from its hold point to the next one (`worker.wait` → `epoll.wait` → `worker.woken` → [ready check] →
//!        `worker.pre_read` → `read_kick`, enabled test → `worker.dispatch` → `backend.handle_event` → `worker.wait`); to leave
//!        `worker.wait` a listener of the bench is fired first, so `epoll.wait` always returns (with or without the ring's event);
//!   `C`  the control thread runs one segment of the scenario's messages, in order:
//!        disable: SET_VRING_ENABLE(0,0) = `d.state` `d.epoll` `d.reply`;
//!        reset:   RESET_DEVICE = `x.state` `x.epoll` (ring 0) `x.state1` `x.epoll1` (ring 1, not started) `x.reply`;
//!        stop:    GET_VRING_BASE(0) = `s.state` `s.epoll` `s.drop` `s.reply`, then SET_VRING_KICK(0, fresh non-blocking `fd1`) =
//!                 `r.state` `r.ready` `r.epoll` `r.reply`;
//!        stopnf:  GET_VRING_BASE(0) = `s.state` `s.epoll` `s.drop` `s.reply`, then SET_VRING_KICK(0) with the no-descriptor
//!                 flag (payload bit 8, no fd) = `n.state` `n.epoll` `n.reply` (a descriptor-less SET_VRING_KICK does not
//!                 start a ring: `vring_needs_init` is false, there is no `n.ready`);
//!        the first token of a message sends it (the request thread runs up to its first hold point, which lies after the
//!        state change); the last one lets the handler return and receives the reply.  What a token did is *observed* (hold
//!        point reached / reply readable), not assumed.
//!   Epilogue (controller disarmed, everything runs free): outstanding replies are received, the worker is drained with the
//!   bench barrier (`n1` = handler calls for ring 0 so far); the ring is activated again (disable: SET_VRING_ENABLE(0,1);
//!   reset: SET_FEATURES with bit 30 + SET_VRING_ENABLE(0,1); stop: nothing, the restart is part of the schedule; stopnf: the
//!   proper restart, SET_VRING_KICK(0, fresh non-blocking `fd1`)) and drained (`n2`); one more guest kick on the current
//!   descriptor, drained (`n3`).
//! observation: `tr=<t>,<t>,... end=<n1>.<n2>.<n3> alive=<0|1> fin=<bits>` — one trace token per schedule token:
//!   `k`, `d.state` … (the hold point reached, `.reply` when the reply arrived), `c.none` (no message left),
//!   `w.idle` (wait returned without the ring's event), `w.woken`, `w.chk` (passed to `worker.pre_read`), `w.skip` (returned
//!   before `read_kick`), `w.read1` (handler call granted: parked at `worker.dispatch`), `w.read0` (not granted), `w.disp`
//!   (handler called), `w.dead` (the worker thread no longer reaches a hold point: it ended), `w.gone` (token after that);
//!   every token carries `/<bits>`: readability (counter > 0) of fd0 and, once sent, fd1.  `fin` = the same bits at the end.
use std::os::fd::{AsRawFd, OwnedFd};
use std::sync::{Arc, Condvar, Mutex, Once};
use std::time::{Duration, Instant};

use vhost::vhost_user::verif_hooks as hooks;
use vhost_user_backend::{VringMutex, VringRwLock, VringT};
use vm_memory::{GuestMemoryAtomic, GuestMemoryMmap};

use crate::daemon::{self, Bench, Config, Ev, LockKind, GM};
use crate::fam_ring::{env_ms, patient_barrier, worker_threads_alive};
use crate::peer::{self, codes, hflags, pfeat, vfeat, Ack};
use crate::util::*;

// ------------------------------------------------------------------------------------------------ schedule controller

struct GateSt {
    armed: bool,
    parked: Option<(&'static str, u64)>,
    permits: u32,
}

struct Gate {
    st: Mutex<GateSt>,
    cv: Condvar,
}

impl Gate {
    const fn new() -> Gate {
        Gate { st: Mutex::new(GateSt { armed: false, parked: None, permits: 0 }), cv: Condvar::new() }
    }
    fn arm(&self, on: bool) {
        let mut g = self.st.lock().unwrap();
        g.armed = on;
        g.permits = 0;
        if !on {
            g.parked = None;
        }
        self.cv.notify_all();
    }
    fn hold(&self, point: &'static str, ctx: u64) {
        let mut g = self.st.lock().unwrap();
        if !g.armed {
            return;
        }
        g.parked = Some((point, ctx));
        self.cv.notify_all();
        while g.armed && g.permits == 0 {
            g = self.cv.wait(g).unwrap();
        }
        if g.permits > 0 {
            g.permits -= 1;
        }
        g.parked = None;
        self.cv.notify_all();
    }
    fn permit(&self) {
        let mut g = self.st.lock().unwrap();
        g.permits += 1;
        self.cv.notify_all();
    }
    fn parked_now(&self) -> Option<(&'static str, u64)> {
        let g = self.st.lock().unwrap();
        if g.permits == 0 {
            g.parked
        } else {
            None
        }
    }
    /// wait until the thread is parked (with no unconsumed permit)
    fn wait_parked(&self, timeout: Duration) -> Option<(&'static str, u64)> {
        let deadline = Instant::now() + timeout;
        let mut g = self.st.lock().unwrap();
        loop {
            if g.permits == 0 {
                if let Some(p) = g.parked {
                    return Some(p);
                }
            }
            let now = Instant::now();
            if now >= deadline {
                return None;
            }
            let (g2, _) = self.cv.wait_timeout(g, deadline - now).unwrap();
            g = g2;
        }
    }
}

static WORKER: Gate = Gate::new();
static CTL: Gate = Gate::new();
static INIT: Once = Once::new();

/// listener ids (bench barrier, our probe) are passed through
const LISTENER_MIN: u64 = 0x8000;
const PROBE_ID: u64 = 0x9000;

fn install_controller() {
    INIT.call_once(|| {
        hooks::set_controller(Some(Arc::new(|point: &'static str, ctx: u64| {
            if point.starts_with("worker.") {
                // the segment between `worker.read_kick` and `worker.dispatch` touches no shared state
                if point == "worker.read_kick" {
                    return;
                }
                if point != "worker.wait" && ctx >= LISTENER_MIN {
                    return;
                }
                WORKER.hold(point, ctx);
            } else if point.starts_with("ctl.") {
                CTL.hold(point, ctx);
            }
        })));
    });
}

// ------------------------------------------------------------------------------------------------ scenario

fn readable(fd: &OwnedFd) -> bool {
    let mut p = libc::pollfd { fd: fd.as_raw_fd(), events: libc::POLLIN, revents: 0 };
    // SAFETY: one valid pollfd, zero timeout.
    let n = unsafe { libc::poll(&mut p, 1, 0) };
    n == 1 && p.revents & libc::POLLIN != 0
}

fn sock_readable(fd: i32) -> bool {
    let mut p = libc::pollfd { fd, events: libc::POLLIN | libc::POLLHUP, revents: 0 };
    // SAFETY: one valid pollfd, zero timeout.
    let n = unsafe { libc::poll(&mut p, 1, 0) };
    n == 1 && p.revents != 0
}

struct Msg {
    tag: &'static str,
    code: u32,
    body: Vec<u8>,
    /// the message carries a fresh kick descriptor
    fresh_fd: bool,
}

fn ring_dispatches(evs: &[Ev]) -> usize {
    evs.iter().filter(|e| matches!(e, Ev::HandleEvent { device_event, .. } if *device_event == 0)).count()
}

fn run_generic<V>(scen: &str, sched: &[&str]) -> String
where
    V: VringT<GM<()>> + Clone + Send + Sync + 'static,
{
    install_controller();
    WORKER.arm(false);
    CTL.arm(false);
    let n = if scen == "reset" { 2 } else { 1 };
    let cfg = Config {
        num_queues: n,
        max_queue_size: 1024,
        queues_per_thread: vec![0xffff_ffff],
        exit_events: true,
        lock: LockKind::Mutex,
        protocol_features: Config::default().protocol_features | (1 << pfeat::RESET_DEVICE),
        ..Config::default()
    };
    let mem: GM<()> = GuestMemoryAtomic::new(GuestMemoryMmap::<()>::new());
    let mut b: Bench<V, ()> = daemon::start(cfg, mem);
    let watchdog = Duration::from_millis(env_ms("VERIF_WORKER_WATCHDOG_MS", 100));
    let long_watchdog = Duration::from_millis(env_ms("VERIF_LONG_WATCHDOG_MS", 5000));
    b.watchdog = long_watchdog;
    b.peer.set_timeout_ms(2000);
    // ---- setup
    let feats: u64 = (1 << vfeat::VERSION_1) | (1 << vfeat::PROTOCOL_FEATURES);
    let want = (1 << pfeat::REPLY_ACK) | (1 << pfeat::RESET_DEVICE) | (1 << pfeat::MQ);
    let ok = (|| -> Result<(), &'static str> {
        b.peer.send_req(codes::SET_OWNER, 0, &[], &[]).map_err(|_| "owner")?;
        b.peer.get_u64(codes::GET_FEATURES).map_err(|_| "get_features")?;
        let proto = b.peer.get_u64(codes::GET_PROTOCOL_FEATURES).map_err(|_| "get_protocol_features")?;
        if proto & want != want {
            return Err("protocol-features-missing");
        }
        b.peer.send_req(codes::SET_PROTOCOL_FEATURES, 0, &peer::b_u64(want), &[]).map_err(|_| "set_protocol_features")?;
        b.peer.reply_ack = true;
        if b.peer.set(codes::SET_FEATURES, &peer::b_u64(feats), &[]) != Ack::Ok {
            return Err("set_features");
        }
        Ok(())
    })();
    if let Err(w) = ok {
        return format!("setup-failed:{}", w);
    }
    let mut fds: Vec<OwnedFd> = vec![peer::eventfd(true)];
    if b.peer.set(codes::SET_VRING_KICK, &peer::b_vring_fd(0, true), &[fds[0].as_raw_fd()]) != Ack::Ok
        || b.peer.set(codes::SET_VRING_ENABLE, &peer::b_vring_state(0, 1), &[]) != Ack::Ok
    {
        return "setup-failed:start".into();
    }
    let probe = match b.add_probe(0, PROBE_ID) {
        Ok(p) => p,
        Err(()) => return "setup-failed:probe".into(),
    };
    if !b.barrier(0) {
        return "setup-failed:barrier".into();
    }
    let mut msgs: Vec<Msg> = match scen {
        "disable" => vec![Msg { tag: "d", code: codes::SET_VRING_ENABLE, body: peer::b_vring_state(0, 0), fresh_fd: false }],
        "reset" => vec![Msg { tag: "x", code: codes::RESET_DEVICE, body: vec![], fresh_fd: false }],
        "stop" => vec![
            Msg { tag: "s", code: codes::GET_VRING_BASE, body: peer::b_vring_state(0, 0), fresh_fd: false },
            Msg { tag: "r", code: codes::SET_VRING_KICK, body: peer::b_vring_fd(0, true), fresh_fd: true },
        ],
        "stopnf" => vec![
            Msg { tag: "s", code: codes::GET_VRING_BASE, body: peer::b_vring_state(0, 0), fresh_fd: false },
            Msg { tag: "n", code: codes::SET_VRING_KICK, body: peer::b_vring_fd(0, false), fresh_fd: false },
        ],
        other => panic!("unknown scenario {}", other),
    };
    msgs.reverse();
    // ---- arm; bring the worker to `worker.wait`
    let from0 = b.log.len();
    WORKER.arm(true);
    CTL.arm(true);
    probe.fire();
    if WORKER.wait_parked(Duration::from_millis(2000)).map(|p| p.0) != Some("worker.wait") {
        WORKER.arm(false);
        CTL.arm(false);
        return "setup-failed:worker-not-parked".into();
    }
    let bits = |fds: &Vec<OwnedFd>| -> String { fds.iter().map(|f| if readable(f) { '1' } else { '0' }).collect() };
    let mut tr: Vec<String> = Vec::new();
    let mut worker_dead = false;
    // the message in flight: (tag, number of hold points passed so far per name for `x.state1`)
    let mut inflight: Option<&'static str> = None;
    let mut states_seen: Vec<&'static str> = Vec::new();
    for tok in sched {
        let what: String = match *tok {
            "K" => {
                peer::efd_write(fds.last().unwrap().as_raw_fd(), 1).expect("guest kick");
                "k".into()
            }
            "C" => {
                if inflight.is_none() {
                    match msgs.pop() {
                        None => "c.none".into(),
                        Some(m) => {
                            let mut sendfds = Vec::new();
                            if m.fresh_fd {
                                fds.push(peer::eventfd(true));
                                sendfds.push(fds.last().unwrap().as_raw_fd());
                            }
                            b.peer.send_req(m.code, hflags::NEED_REPLY, &m.body, &sendfds).expect("send");
                            inflight = Some(m.tag);
                            states_seen.clear();
                            ctl_outcome(&b, &mut inflight, &mut states_seen)
                        }
                    }
                } else {
                    CTL.permit();
                    ctl_outcome(&b, &mut inflight, &mut states_seen)
                }
            }
            "W" => {
                if worker_dead {
                    "w.gone".into()
                } else {
                    let at = WORKER.parked_now().map(|p| p.0).unwrap_or("?");
                    let before = b.log.len();
                    if at == "worker.wait" {
                        probe.fire();
                    }
                    WORKER.permit();
                    // a worker that does not reach a hold point within the short watchdog has ended -- unless its thread
                    // still exists (slow machine): then it is given the long watchdog
                    let mut parked = WORKER.wait_parked(watchdog);
                    if parked.is_none() && worker_threads_alive() > 0 {
                        parked = WORKER.wait_parked(long_watchdog);
                    }
                    match parked {
                        None => {
                            worker_dead = true;
                            "w.dead".into()
                        }
                        Some((next, _)) => match (at, next) {
                            ("worker.wait", "worker.woken") => "w.woken".into(),
                            ("worker.wait", "worker.wait") => "w.idle".into(),
                            ("worker.woken", "worker.pre_read") => "w.chk".into(),
                            ("worker.woken", "worker.wait") => "w.skip".into(),
                            ("worker.pre_read", "worker.dispatch") => "w.read1".into(),
                            ("worker.pre_read", "worker.wait") => "w.read0".into(),
                            ("worker.dispatch", "worker.wait") => {
                                if ring_dispatches(&b.log.since(before)) == 1 {
                                    "w.disp".into()
                                } else {
                                    "w.disp?".into()
                                }
                            }
                            (a, z) => format!("w.{}>{}", a.trim_start_matches("worker."), z.trim_start_matches("worker.")),
                        },
                    }
                }
            }
            other => panic!("unknown schedule token {}", other),
        };
        tr.push(format!("{}/{}", what, bits(&fds)));
    }
    // ---- epilogue: everything runs free
    WORKER.arm(false);
    CTL.arm(false);
    let mut conn_ok = true;
    if inflight.is_some() {
        conn_ok &= b.peer.recv_reply().is_ok();
    }
    while let Some(m) = msgs.pop() {
        let mut sendfds = Vec::new();
        if m.fresh_fd {
            fds.push(peer::eventfd(true));
            sendfds.push(fds.last().unwrap().as_raw_fd());
        }
        conn_ok &= b.peer.send_req(m.code, hflags::NEED_REPLY, &m.body, &sendfds).is_ok() && b.peer.recv_reply().is_ok();
    }
    let mut alive = !worker_dead && patient_barrier(&mut b, watchdog);
    let n1 = ring_dispatches(&b.log.since(from0));
    match scen {
        "disable" => {
            conn_ok &= b.peer.set(codes::SET_VRING_ENABLE, &peer::b_vring_state(0, 1), &[]) == Ack::Ok;
        }
        "reset" => {
            conn_ok &= b.peer.set(codes::SET_FEATURES, &peer::b_u64(feats), &[]) == Ack::Ok;
            conn_ok &= b.peer.set(codes::SET_VRING_ENABLE, &peer::b_vring_state(0, 1), &[]) == Ack::Ok;
        }
        "stopnf" => {
            // the proper restart: a SET_VRING_KICK that carries a descriptor
            fds.push(peer::eventfd(true));
            conn_ok &= b.peer.set(codes::SET_VRING_KICK, &peer::b_vring_fd(0, true), &[fds.last().unwrap().as_raw_fd()]) == Ack::Ok;
        }
        _ => {}
    }
    alive = alive && patient_barrier(&mut b, watchdog);
    let n2 = ring_dispatches(&b.log.since(from0));
    peer::efd_write(fds.last().unwrap().as_raw_fd(), 1).expect("guest kick");
    alive = alive && patient_barrier(&mut b, watchdog);
    let n3 = ring_dispatches(&b.log.since(from0));
    let fin = bits(&fds);
    b.remove_probe(&probe);
    b.finish();
    format!(
        "tr={} end={:x}.{:x}.{:x} alive={}{} fin={}",
        if tr.is_empty() { "-".to_string() } else { tr.join(",") },
        n1,
        n2,
        n3,
        alive as u8,
        if conn_ok { "" } else { " conn=lost" },
        fin
    )
}

/// what the control thread did after it was sent a message / released: reached a hold point, or replied
fn ctl_outcome<V>(b: &Bench<V, ()>, inflight: &mut Option<&'static str>, seen: &mut Vec<&'static str>) -> String
where
    V: VringT<GM<()>> + Clone + Send + Sync + 'static,
{
    let tag = inflight.unwrap();
    let deadline = Instant::now() + Duration::from_millis(2000);
    loop {
        if let Some((point, _ctx)) = CTL.parked_now() {
            // the k-th time (k > 0) a hold point of the same name is reached within one message it is named `<name><k>`
            let name = point.trim_start_matches("ctl.");
            let k = seen.iter().filter(|n| **n == name).count();
            seen.push(name);
            return if k == 0 { format!("{}.{}", tag, name) } else { format!("{}.{}{}", tag, name, k) };
        }
        if sock_readable(b.peer.sock.as_raw_fd()) {
            let ok = b.peer.recv_reply().is_ok();
            *inflight = None;
            return if ok { format!("{}.reply", tag) } else { format!("{}.closed", tag) };
        }
        if Instant::now() >= deadline {
            return format!("{}.stuck", tag);
        }
        // wait for the gate to change (or look at the socket again shortly)
        let g = CTL.st.lock().unwrap();
        let _ = CTL.cv.wait_timeout(g, Duration::from_micros(200)).unwrap();
    }
}

pub fn run(line: &str) -> String {
    let toks: Vec<&str> = line.split_whitespace().collect();
    let scen = kv(&toks, "scen").expect("scen");
    let sched: Vec<&str> = match kv(&toks, "sched") {
        Some("-") | None => vec![],
        Some(s) => s.split(',').collect(),
    };
    if kv(&toks, "cfg") == Some("rwlock") {
        run_generic::<VringRwLock<GM<()>>>(scen, &sched)
    } else {
        run_generic::<VringMutex<GM<()>>>(scen, &sched)
    }
}
