//! Independent raw vhost-user peer (front-end side of the main channel).
//!
//! Everything here is written from the vhost-user *specification* (message header = three
//! little-endian u32 `request | flags | size`; bodies per message type) and talks to the socket with
//! `sendmsg(2)` / `recvmsg(2)` + `SCM_RIGHTS` through `libc` directly.  It deliberately does NOT use
//! the vhost crate's message structs, `Endpoint`, or `Frontend`: it is the independent party that the
//! real crates are checked against.
//!
//! # API overview
//!
//! * [`RawPeer`] — wraps one end of a connected `UnixStream`.
//!   * `send_raw(bytes, fds)` / `recv_raw(n, max_fds)` — one `sendmsg` / a `recvmsg` loop for exactly
//!     `n` bytes (or EOF), descriptors collected.
//!   * `send_req(code, flags, body, fds)` — header (`flags` are OR-ed with protocol version 1) + body
//!     in ONE `sendmsg` (the crate's request reader uses a single `recvmsg` for the body, see F-C08-body).
//!   * `recv_reply() -> (Hdr, body, fds)`; errors: [`PeerErr::Eof`], [`PeerErr::Timeout`], [`PeerErr::Io`].
//!   * conveniences used by every daemon scenario: `get_u64(code)`, `set(code, body, fds) -> Ack`
//!     (sends with NEED_REPLY when `reply_ack` was negotiated and waits for the ack, so that a returned
//!     `Ack::Ok` means the daemon finished handling the request), `handshake(..)`.
//! * [`codes`] — request codes of the front-end channel; [`hflags`] — header flag bits; [`vfeat`] /
//!   [`pfeat`] — feature bit numbers used by the scenarios.
//! * body builders: [`b_u64`], [`b_vring_state`], [`b_vring_addr`], [`b_mem_table`], [`b_single_region`],
//!   [`b_log`], [`b_vring_fd`].
//! * descriptors with known identity: [`eventfd`], [`memfd`], [`fd_identity`] (`(st_dev, st_ino)`),
//!   [`efd_write`], [`efd_read`], [`pread_all`], [`pwrite_all`].
#![allow(dead_code)]

use std::io;
use std::os::fd::{AsRawFd, FromRawFd, OwnedFd, RawFd};
use std::os::unix::net::UnixStream;
use std::time::Duration;

/// front-end request codes (vhost-user specification, "Front-end message types")
pub mod codes {
    pub const GET_FEATURES: u32 = 1;
    pub const SET_FEATURES: u32 = 2;
    pub const SET_OWNER: u32 = 3;
    pub const RESET_OWNER: u32 = 4;
    pub const SET_MEM_TABLE: u32 = 5;
    pub const SET_LOG_BASE: u32 = 6;
    pub const SET_LOG_FD: u32 = 7;
    pub const SET_VRING_NUM: u32 = 8;
    pub const SET_VRING_ADDR: u32 = 9;
    pub const SET_VRING_BASE: u32 = 10;
    pub const GET_VRING_BASE: u32 = 11;
    pub const SET_VRING_KICK: u32 = 12;
    pub const SET_VRING_CALL: u32 = 13;
    pub const SET_VRING_ERR: u32 = 14;
    pub const GET_PROTOCOL_FEATURES: u32 = 15;
    pub const SET_PROTOCOL_FEATURES: u32 = 16;
    pub const GET_QUEUE_NUM: u32 = 17;
    pub const SET_VRING_ENABLE: u32 = 18;
    pub const SEND_RARP: u32 = 19;
    pub const NET_SET_MTU: u32 = 20;
    pub const SET_BACKEND_REQ_FD: u32 = 21;
    pub const IOTLB_MSG: u32 = 22;
    pub const SET_VRING_ENDIAN: u32 = 23;
    pub const GET_CONFIG: u32 = 24;
    pub const SET_CONFIG: u32 = 25;
    pub const GET_INFLIGHT_FD: u32 = 31;
    pub const SET_INFLIGHT_FD: u32 = 32;
    pub const RESET_DEVICE: u32 = 34;
    pub const GET_MAX_MEM_SLOTS: u32 = 36;
    pub const ADD_MEM_REG: u32 = 37;
    pub const REM_MEM_REG: u32 = 38;
}

/// header flag bits
pub mod hflags {
    pub const VERSION: u32 = 0x1;
    pub const REPLY: u32 = 0x4;
    pub const NEED_REPLY: u32 = 0x8;
}

/// virtio feature bit numbers
pub mod vfeat {
    pub const LOG_ALL: u64 = 26;
    pub const RING_EVENT_IDX: u64 = 29;
    pub const PROTOCOL_FEATURES: u64 = 30;
    pub const VERSION_1: u64 = 32;
}

/// protocol feature bit numbers
pub mod pfeat {
    pub const MQ: u64 = 0;
    pub const LOG_SHMFD: u64 = 1;
    pub const RARP: u64 = 2;
    pub const REPLY_ACK: u64 = 3;
    pub const BACKEND_REQ: u64 = 5;
    pub const CONFIG: u64 = 9;
    pub const RESET_DEVICE: u64 = 13;
    pub const CONFIGURE_MEM_SLOTS: u64 = 15;
}

#[derive(Debug, Clone, Copy, PartialEq, Eq)]
pub struct Hdr {
    pub request: u32,
    pub flags: u32,
    pub size: u32,
}

impl Hdr {
    pub fn encode(&self) -> [u8; 12] {
        let mut b = [0u8; 12];
        b[0..4].copy_from_slice(&self.request.to_le_bytes());
        b[4..8].copy_from_slice(&self.flags.to_le_bytes());
        b[8..12].copy_from_slice(&self.size.to_le_bytes());
        b
    }
    pub fn decode(b: &[u8]) -> Hdr {
        Hdr {
            request: u32::from_le_bytes(b[0..4].try_into().unwrap()),
            flags: u32::from_le_bytes(b[4..8].try_into().unwrap()),
            size: u32::from_le_bytes(b[8..12].try_into().unwrap()),
        }
    }
    pub fn is_reply(&self) -> bool {
        self.flags & hflags::REPLY != 0
    }
}

#[derive(Debug)]
pub enum PeerErr {
    /// orderly end of stream (the daemon closed / shut down the connection)
    Eof,
    /// nothing arrived within the watchdog
    Timeout,
    /// the reply header announced more bytes than arrived
    Short,
    Io(io::Error),
}

/// outcome of a "set" style request
#[derive(Debug, Clone, Copy, PartialEq, Eq)]
pub enum Ack {
    /// acknowledged with 0 (or sent without NEED_REPLY: nothing to wait for)
    Ok,
    /// acknowledged with a non-zero value: the handler reported failure
    Fail,
    /// the daemon closed the connection instead of answering
    Closed,
    /// no answer within the watchdog
    Timeout,
}

impl Ack {
    pub fn tag(&self) -> &'static str {
        match self {
            Ack::Ok => "ok",
            Ack::Fail => "fail",
            Ack::Closed => "closed",
            Ack::Timeout => "timeout",
        }
    }
}

// ---------------------------------------------------------------------------------- body builders

pub fn b_u64(v: u64) -> Vec<u8> {
    v.to_le_bytes().to_vec()
}

/// `struct vhost_vring_state { u32 index; u32 num; }`
pub fn b_vring_state(index: u32, num: u32) -> Vec<u8> {
    let mut b = index.to_le_bytes().to_vec();
    b.extend_from_slice(&num.to_le_bytes());
    b
}

/// `struct vhost_vring_addr { u32 index; u32 flags; u64 desc; u64 used; u64 avail; u64 log; }`
pub fn b_vring_addr(index: u32, flags: u32, desc: u64, used: u64, avail: u64, log: u64) -> Vec<u8> {
    let mut b = index.to_le_bytes().to_vec();
    b.extend_from_slice(&flags.to_le_bytes());
    for v in [desc, used, avail, log] {
        b.extend_from_slice(&v.to_le_bytes());
    }
    b
}

/// one memory region description: guest address, size, user (front-end virtual) address, mmap offset
#[derive(Debug, Clone, Copy, PartialEq, Eq)]
pub struct Region {
    pub gpa: u64,
    pub size: u64,
    pub uaddr: u64,
    pub mmap_offset: u64,
}

impl Region {
    pub fn encode(&self) -> Vec<u8> {
        let mut b = Vec::with_capacity(32);
        for v in [self.gpa, self.size, self.uaddr, self.mmap_offset] {
            b.extend_from_slice(&v.to_le_bytes());
        }
        b
    }
}

/// SET_MEM_TABLE body: `u32 nregions; u32 padding; regions[]`
pub fn b_mem_table(regions: &[Region]) -> Vec<u8> {
    let mut b = (regions.len() as u32).to_le_bytes().to_vec();
    b.extend_from_slice(&0u32.to_le_bytes());
    for r in regions {
        b.extend_from_slice(&r.encode());
    }
    b
}

/// ADD_MEM_REG / REM_MEM_REG body: `u64 padding; region`
pub fn b_single_region(r: &Region) -> Vec<u8> {
    let mut b = 0u64.to_le_bytes().to_vec();
    b.extend_from_slice(&r.encode());
    b
}

/// SET_LOG_BASE body: `u64 mmap_size; u64 mmap_offset`
pub fn b_log(size: u64, offset: u64) -> Vec<u8> {
    let mut b = size.to_le_bytes().to_vec();
    b.extend_from_slice(&offset.to_le_bytes());
    b
}

/// SET_VRING_KICK/CALL/ERR body: u64 with the ring index in bits 0..7 and bit 8 = "no descriptor"
pub fn b_vring_fd(index: u8, has_fd: bool) -> Vec<u8> {
    let v: u64 = index as u64 | if has_fd { 0 } else { 0x100 };
    b_u64(v)
}

// ---------------------------------------------------------------------------------- descriptors

fn cvt(r: libc::c_int) -> io::Result<libc::c_int> {
    if r < 0 {
        Err(io::Error::last_os_error())
    } else {
        Ok(r)
    }
}

/// a fresh eventfd (counter 0)
pub fn eventfd(nonblock: bool) -> OwnedFd {
    let fl = libc::EFD_CLOEXEC | if nonblock { libc::EFD_NONBLOCK } else { 0 };
    // SAFETY: plain syscall; the returned descriptor is owned by us.
    let fd = cvt(unsafe { libc::eventfd(0, fl) }).expect("eventfd");
    // SAFETY: fd is a fresh valid descriptor.
    unsafe { OwnedFd::from_raw_fd(fd) }
}

/// add `v` to an eventfd counter
pub fn efd_write(fd: RawFd, v: u64) -> io::Result<()> {
    let b = v.to_ne_bytes();
    // SAFETY: writes 8 bytes from a valid buffer.
    let n = unsafe { libc::write(fd, b.as_ptr() as *const libc::c_void, 8) };
    if n == 8 {
        Ok(())
    } else {
        Err(io::Error::last_os_error())
    }
}

/// read (and zero) an eventfd counter; `None` if it was 0 and the descriptor is non-blocking
pub fn efd_read(fd: RawFd) -> Option<u64> {
    let mut b = [0u8; 8];
    // SAFETY: reads 8 bytes into a valid buffer.
    let n = unsafe { libc::read(fd, b.as_mut_ptr() as *mut libc::c_void, 8) };
    if n == 8 {
        Some(u64::from_ne_bytes(b))
    } else {
        None
    }
}

/// an anonymous memory file of `size` bytes (zero-filled)
pub fn memfd(name: &str, size: u64) -> OwnedFd {
    let cname = std::ffi::CString::new(name).unwrap();
    // SAFETY: plain syscall with a valid C string.
    let fd = cvt(unsafe { libc::memfd_create(cname.as_ptr(), libc::MFD_CLOEXEC) }).expect("memfd_create");
    // SAFETY: fd is a fresh valid descriptor.
    let o = unsafe { OwnedFd::from_raw_fd(fd) };
    // SAFETY: plain syscall.
    cvt(unsafe { libc::ftruncate(o.as_raw_fd(), size as libc::off_t) }).expect("ftruncate");
    o
}

/// `(st_dev, st_ino)` — identity of the open file description's inode
pub fn fd_identity(fd: RawFd) -> (u64, u64) {
    // SAFETY: zeroed stat is a valid out-parameter.
    let mut st: libc::stat = unsafe { std::mem::zeroed() };
    // SAFETY: plain syscall.
    cvt(unsafe { libc::fstat(fd, &mut st) }).expect("fstat");
    (st.st_dev as u64, st.st_ino as u64)
}

pub fn pread_all(fd: RawFd, off: u64, len: usize) -> Vec<u8> {
    let mut buf = vec![0u8; len];
    let mut done = 0usize;
    while done < len {
        // SAFETY: reads into the remaining part of a valid buffer.
        let n = unsafe {
            libc::pread(fd, buf[done..].as_mut_ptr() as *mut libc::c_void, len - done, (off + done as u64) as libc::off_t)
        };
        if n <= 0 {
            break;
        }
        done += n as usize;
    }
    buf.truncate(done);
    buf
}

pub fn pwrite_all(fd: RawFd, off: u64, data: &[u8]) {
    let mut done = 0usize;
    while done < data.len() {
        // SAFETY: writes from the remaining part of a valid buffer.
        let n = unsafe {
            libc::pwrite(fd, data[done..].as_ptr() as *const libc::c_void, data.len() - done, (off + done as u64) as libc::off_t)
        };
        assert!(n > 0, "pwrite failed");
        done += n as usize;
    }
}

// ---------------------------------------------------------------------------------- the peer

pub struct RawPeer {
    pub sock: UnixStream,
    /// REPLY_ACK negotiated: `set()` asks for and waits for an acknowledgement
    pub reply_ack: bool,
}

const MAX_FDS: usize = 32;

impl RawPeer {
    pub fn new(sock: UnixStream) -> RawPeer {
        let p = RawPeer { sock, reply_ack: false };
        p.set_timeout_ms(3000);
        p
    }

    /// watchdog for every blocking receive
    pub fn set_timeout_ms(&self, ms: u64) {
        self.sock.set_read_timeout(Some(Duration::from_millis(ms))).unwrap();
        self.sock.set_write_timeout(Some(Duration::from_millis(ms))).unwrap();
    }

    /// one `sendmsg`: `bytes` with `fds` attached as a single SCM_RIGHTS control message
    pub fn send_raw(&self, bytes: &[u8], fds: &[RawFd]) -> io::Result<usize> {
        let mut iov = libc::iovec { iov_base: bytes.as_ptr() as *mut libc::c_void, iov_len: bytes.len() };
        // SAFETY: CMSG_SPACE is a pure computation.
        let space = unsafe { libc::CMSG_SPACE((fds.len() * 4) as u32) } as usize;
        let mut cbuf = vec![0u64; (space + 7) / 8 + 1]; // u64 for alignment
        // SAFETY: zeroed msghdr is valid.
        let mut msg: libc::msghdr = unsafe { std::mem::zeroed() };
        msg.msg_iov = &mut iov;
        msg.msg_iovlen = 1;
        if !fds.is_empty() {
            msg.msg_control = cbuf.as_mut_ptr() as *mut libc::c_void;
            msg.msg_controllen = space as _;
            // SAFETY: the control buffer is large enough for one cmsg with fds.len() descriptors.
            unsafe {
                let c = libc::CMSG_FIRSTHDR(&msg);
                (*c).cmsg_level = libc::SOL_SOCKET;
                (*c).cmsg_type = libc::SCM_RIGHTS;
                (*c).cmsg_len = libc::CMSG_LEN((fds.len() * 4) as u32) as _;
                std::ptr::copy_nonoverlapping(fds.as_ptr() as *const u8, libc::CMSG_DATA(c), fds.len() * 4);
            }
        }
        // SAFETY: msg points at valid iov / control buffers for the duration of the call.
        let n = unsafe { libc::sendmsg(self.sock.as_raw_fd(), &msg, libc::MSG_NOSIGNAL) };
        if n < 0 {
            Err(io::Error::last_os_error())
        } else {
            Ok(n as usize)
        }
    }

    /// all of `bytes` (descriptors ride on the first chunk)
    pub fn send_all(&self, bytes: &[u8], fds: &[RawFd]) -> io::Result<()> {
        let mut off = 0;
        let mut first = true;
        while off < bytes.len() || (first && bytes.is_empty()) {
            let n = self.send_raw(&bytes[off..], if first { fds } else { &[] })?;
            first = false;
            if n == 0 && !bytes.is_empty() {
                return Err(io::ErrorKind::WriteZero.into());
            }
            off += n;
            if bytes.is_empty() {
                break;
            }
        }
        Ok(())
    }

    /// header + body in one `sendmsg`; `flags` is OR-ed with the protocol version
    pub fn send_req(&self, code: u32, flags: u32, body: &[u8], fds: &[RawFd]) -> io::Result<()> {
        let h = Hdr { request: code, flags: flags | hflags::VERSION, size: body.len() as u32 };
        let mut m = h.encode().to_vec();
        m.extend_from_slice(body);
        self.send_all(&m, fds)
    }

    /// one `recvmsg` of at most `n` bytes; returns the bytes (empty = EOF) and received descriptors
    pub fn recv_once(&self, n: usize) -> io::Result<(Vec<u8>, Vec<OwnedFd>)> {
        let mut buf = vec![0u8; n];
        let mut iov = libc::iovec { iov_base: buf.as_mut_ptr() as *mut libc::c_void, iov_len: n };
        // SAFETY: pure computation.
        let space = unsafe { libc::CMSG_SPACE((MAX_FDS * 4) as u32) } as usize;
        let mut cbuf = vec![0u64; (space + 7) / 8 + 1];
        // SAFETY: zeroed msghdr is valid.
        let mut msg: libc::msghdr = unsafe { std::mem::zeroed() };
        msg.msg_iov = &mut iov;
        msg.msg_iovlen = 1;
        msg.msg_control = cbuf.as_mut_ptr() as *mut libc::c_void;
        msg.msg_controllen = space as _;
        // SAFETY: msg points at valid buffers.
        let r = unsafe { libc::recvmsg(self.sock.as_raw_fd(), &mut msg, libc::MSG_CMSG_CLOEXEC) };
        if r < 0 {
            return Err(io::Error::last_os_error());
        }
        buf.truncate(r as usize);
        let mut fds = Vec::new();
        // SAFETY: walking the control messages the kernel wrote into our buffer.
        unsafe {
            let mut c = libc::CMSG_FIRSTHDR(&msg);
            while !c.is_null() {
                if (*c).cmsg_level == libc::SOL_SOCKET && (*c).cmsg_type == libc::SCM_RIGHTS {
                    let dlen = (*c).cmsg_len as usize - libc::CMSG_LEN(0) as usize;
                    let p = libc::CMSG_DATA(c) as *const RawFd;
                    for i in 0..dlen / 4 {
                        fds.push(OwnedFd::from_raw_fd(std::ptr::read_unaligned(p.add(i))));
                    }
                }
                c = libc::CMSG_NXTHDR(&msg, c);
            }
        }
        Ok((buf, fds))
    }

    /// exactly `n` bytes unless the stream ends first
    pub fn recv_raw(&self, n: usize) -> Result<(Vec<u8>, Vec<OwnedFd>), PeerErr> {
        let mut out = Vec::with_capacity(n);
        let mut fds = Vec::new();
        while out.len() < n {
            match self.recv_once(n - out.len()) {
                Ok((b, f)) => {
                    fds.extend(f);
                    if b.is_empty() {
                        return if out.is_empty() { Err(PeerErr::Eof) } else { Err(PeerErr::Short) };
                    }
                    out.extend_from_slice(&b);
                }
                Err(e) if e.kind() == io::ErrorKind::WouldBlock || e.kind() == io::ErrorKind::TimedOut => {
                    return Err(PeerErr::Timeout)
                }
                Err(e) if e.kind() == io::ErrorKind::Interrupted => continue,
                Err(e) if e.raw_os_error() == Some(libc::ECONNRESET) => return Err(PeerErr::Eof),
                Err(e) => return Err(PeerErr::Io(e)),
            }
        }
        Ok((out, fds))
    }

    /// one reply message: header, body (`hdr.size` bytes), descriptors
    pub fn recv_reply(&self) -> Result<(Hdr, Vec<u8>, Vec<OwnedFd>), PeerErr> {
        let (hb, mut fds) = self.recv_raw(12)?;
        let h = Hdr::decode(&hb);
        let body = if h.size > 0 {
            let (b, f2) = self.recv_raw(h.size as usize).map_err(|e| match e {
                PeerErr::Eof => PeerErr::Short,
                x => x,
            })?;
            fds.extend(f2);
            b
        } else {
            Vec::new()
        };
        Ok((h, body, fds))
    }

    /// true iff the daemon closed the connection (EOF within the watchdog)
    pub fn wait_eof(&self) -> bool {
        matches!(self.recv_raw(1), Err(PeerErr::Eof))
    }

    // ------------------------------------------------------------------ conveniences

    /// a "get" request with empty body and a u64 reply
    pub fn get_u64(&self, code: u32) -> Result<u64, PeerErr> {
        self.send_req(code, 0, &[], &[]).map_err(PeerErr::Io)?;
        let (h, b, _) = self.recv_reply()?;
        if h.request != code || !h.is_reply() || b.len() != 8 {
            return Err(PeerErr::Short);
        }
        Ok(u64::from_le_bytes(b[..8].try_into().unwrap()))
    }

    /// a "set" request.  With REPLY_ACK negotiated it carries NEED_REPLY and the call returns after the
    /// acknowledgement arrived, i.e. after the daemon finished handling the request.
    pub fn set(&self, code: u32, body: &[u8], fds: &[RawFd]) -> Ack {
        let fl = if self.reply_ack { hflags::NEED_REPLY } else { 0 };
        if self.send_req(code, fl, body, fds).is_err() {
            return Ack::Closed;
        }
        if !self.reply_ack {
            return Ack::Ok;
        }
        match self.recv_reply() {
            Ok((h, b, _)) if h.request == code && b.len() == 8 => {
                if u64::from_le_bytes(b[..8].try_into().unwrap()) == 0 {
                    Ack::Ok
                } else {
                    Ack::Fail
                }
            }
            Ok(_) => Ack::Fail,
            Err(PeerErr::Timeout) => Ack::Timeout,
            Err(_) => Ack::Closed,
        }
    }

    /// a request whose reply is a message body (e.g. GET_VRING_BASE, SET_LOG_BASE)
    pub fn call(&self, code: u32, body: &[u8], fds: &[RawFd]) -> Result<(Hdr, Vec<u8>, Vec<OwnedFd>), PeerErr> {
        self.send_req(code, 0, body, fds).map_err(|_| PeerErr::Eof)?;
        self.recv_reply()
    }

    /// SET_OWNER, feature negotiation (acks `want_features` ∩ offered, `want_proto` ∩ offered), returns
    /// `(offered features, offered protocol features)`.  After it, `reply_ack` reflects the negotiation.
    pub fn handshake(&mut self, want_features: u64, want_proto: u64) -> Result<(u64, u64), PeerErr> {
        self.send_req(codes::SET_OWNER, 0, &[], &[]).map_err(PeerErr::Io)?;
        let feats = self.get_u64(codes::GET_FEATURES)?;
        let acked = feats & want_features;
        self.send_req(codes::SET_FEATURES, 0, &b_u64(acked), &[]).map_err(PeerErr::Io)?;
        let mut proto = 0;
        if acked & (1 << vfeat::PROTOCOL_FEATURES) != 0 {
            proto = self.get_u64(codes::GET_PROTOCOL_FEATURES)?;
            let pa = proto & want_proto;
            self.send_req(codes::SET_PROTOCOL_FEATURES, 0, &b_u64(pa), &[]).map_err(PeerErr::Io)?;
            self.reply_ack = pa & (1 << pfeat::REPLY_ACK) != 0;
        }
        // synchronise: a get request is answered only after everything before it was handled
        let _ = self.get_u64(codes::GET_FEATURES)?;
        Ok((feats, proto))
    }
}
