//! family `gpu`: the real GPU proxy `GpuBackend` against the raw peer, driven op by op.
//!
//! `gpu | <op> | <op> ...`
//! op := `<method> <32-bit fields comma separated|-> [m=<64-bit modifier>] [v=<64-bit value>] [d=<hex>|pat:<len>:<a>:<b>] [fd=1]`
//!       `[r=<reply hex>/<nfds> | r=- | r=close] [then-close]`   |   `fail <errno>` (`set_failed`)
//! methods: get_protocol_features, set_protocol_features (v=), get_display_info, get_edid (1 field), set_scanout (3),
//! update_scanout (5, d=), set_dmabuf_scanout (10, fd=), set_dmabuf_scanout2 (10, m=, fd=), update_dmabuf_scanout (5),
//! cursor_pos (3), cursor_pos_hide (3), cursor_update (5, d= of exactly 16384 bytes).
//! observation per op: `ret=<ok|ok:<value>|ok:<reply bytes hex>|err|blocked> w=<bytes written> wf=<fd idents> lc=<n>`;
//! last item `L=<leaked ids|->`.  (The GPU proxy formats its errors into strings: only ok/err is observable.)
use crate::rawsock::*;
use crate::rec_fe::*;
use crate::util::*;
use std::os::unix::io::{AsRawFd, RawFd};
use std::sync::atomic::{AtomicI32, Ordering};
use std::sync::mpsc;
use std::sync::{Arc, Mutex};
use std::time::{Duration, Instant};
use vhost::vhost_user::gpu_message::*;
use vhost::vhost_user::message::VhostUserU64;
use vhost::vhost_user::GpuBackend;
use vm_memory::ByteValued;

fn p(s: &str) -> u64 {
    parse_hex_u64(s)
}

struct BorrowedFd(RawFd);
impl AsRawFd for BorrowedFd {
    fn as_raw_fd(&self) -> RawFd {
        self.0
    }
}

fn data_of(s: &str) -> Vec<u8> {
    if let Some(rest) = s.strip_prefix("pat:") {
        let f: Vec<&str> = rest.split(':').collect();
        let (len, a, b) = (p(f[0]) as usize, p(f[1]) as usize, p(f[2]) as usize);
        (0..len).map(|i| ((a + i * b) % 256) as u8).collect()
    } else {
        hex_to_bytes(s)
    }
}

fn unit(r: std::io::Result<()>) -> String {
    match r {
        Ok(()) => "ok".into(),
        Err(_) => "err".into(),
    }
}

fn do_op(gb: &GpuBackend, toks: &[String], objs: &Arc<Mutex<Objs>>) -> (String, usize) {
    let t: Vec<&str> = toks.iter().map(|s| s.as_str()).collect();
    let f: Vec<u32> = match t.iter().skip(1).find(|x| !x.contains('=')) {
        Some(&"-") | None => vec![],
        Some(l) => l.split(',').map(|x| p(x) as u32).collect(),
    };
    let data = data_of(kv(&t, "d").unwrap_or("-"));
    let mut made: Vec<(RawFd, Option<Ino>)> = Vec::new();
    let fd = if kv(&t, "fd") == Some("1") {
        let fd = objs.lock().unwrap().fresh_memfd();
        made.push((fd, ino_of(fd)));
        Some(BorrowedFd(fd))
    } else {
        None
    };
    let dmabuf = |f: &[u32]| VhostUserGpuDMABUFScanout {
        scanout_id: f[0], x: f[1], y: f[2], width: f[3], height: f[4], fd_width: f[5], fd_height: f[6], fd_stride: f[7],
        fd_flags: f[8], fd_drm_fourcc: f[9],
    };
    let upd = |f: &[u32]| VhostUserGpuUpdate { scanout_id: f[0], x: f[1], y: f[2], width: f[3], height: f[4] };
    let pos = |f: &[u32]| VhostUserGpuCursorPos { scanout_id: f[0], x: f[1], y: f[2] };
    let ret: String = match t[0] {
        "get_protocol_features" => match gb.get_protocol_features() { Ok(v) => format!("ok:{:x}", v.value), Err(_) => "err".into() },
        "set_protocol_features" => unit(gb.set_protocol_features(&VhostUserU64::new(p(kv(&t, "v").unwrap_or("0"))))),
        "get_display_info" => match gb.get_display_info() { Ok(v) => format!("ok:{}", bytes_to_hex(v.as_slice())), Err(_) => "err".into() },
        "get_edid" => match gb.get_edid(&VhostUserGpuEdidRequest { scanout_id: f[0] }) {
            Ok(v) => format!("ok:{}", bytes_to_hex(v.as_slice())),
            Err(_) => "err".into(),
        },
        "set_scanout" => unit(gb.set_scanout(&VhostUserGpuScanout { scanout_id: f[0], width: f[1], height: f[2] })),
        "update_scanout" => unit(gb.update_scanout(&upd(&f), &data)),
        "set_dmabuf_scanout" => unit(gb.set_dmabuf_scanout(&dmabuf(&f), fd.as_ref())),
        "set_dmabuf_scanout2" => unit(gb.set_dmabuf_scanout2(
            &VhostUserGpuDMABUFScanout2 { dmabuf_scanout: dmabuf(&f), modifier: p(kv(&t, "m").unwrap_or("0")) }, fd.as_ref())),
        "update_dmabuf_scanout" => unit(gb.update_dmabuf_scanout(&upd(&f))),
        "cursor_pos" => unit(gb.cursor_pos(&pos(&f))),
        "cursor_pos_hide" => unit(gb.cursor_pos_hide(&pos(&f))),
        "cursor_update" => {
            let mut d = [0u8; 4 * 64 * 64];
            assert!(data.len() == d.len(), "cursor_update needs 16384 bytes of data");
            d.copy_from_slice(&data);
            unit(gb.cursor_update(&VhostUserGpuCursorUpdate { pos: pos(&f), hot_x: f[3], hot_y: f[4] }, &d))
        }
        _ => "bad-op".into(),
    };
    let mut lent_closed = 0;
    for (fd, ino) in made.iter() {
        if ino_of(*fd) != *ino {
            lent_closed += 1;
        }
    }
    for (fd, _) in made {
        close(fd);
    }
    (ret, lent_closed)
}

pub fn run(line: &str) -> String {
    let rest = line.strip_prefix("gpu").unwrap_or(line).trim();
    let parts: Vec<&str> = rest.split('|').map(|s| s.trim()).filter(|s| !s.is_empty()).collect();
    let objs = Arc::new(Mutex::new(Objs::new()));
    let (a, b) = pair();
    let proxy_fd: RawFd = a.as_raw_fd();
    let gb = GpuBackend::from_stream(a);
    let mut peer: Option<PeerSide> = Some(PeerSide::new(b));
    let mut obs: Vec<String> = Vec::new();
    let mut dead = false;
    for st in parts.iter() {
        if dead {
            obs.push("ret=skipped".to_string());
            continue;
        }
        let toks: Vec<String> = st.split_whitespace().map(|s| s.to_string()).collect();
        let tref: Vec<&str> = toks.iter().map(|s| s.as_str()).collect();
        if tref[0] == "fail" {
            gb.set_failed(p(tref[1]) as i32);
            obs.push("ret=ok w=- wf=- lc=0".to_string());
            continue;
        }
        let rscript = kv(&tref, "r").map(|s| s.to_string());
        let then_close = tref.contains(&"then-close");
        let (tx, rx) = mpsc::channel();
        let gb2 = gb.clone();
        let objs2 = objs.clone();
        let optoks: Vec<String> = toks.iter().filter(|t| !t.starts_with("r=") && *t != "then-close").cloned().collect();
        let tid = Arc::new(AtomicI32::new(0));
        let tid2 = tid.clone();
        let th = std::thread::spawn(move || {
            tid2.store(gettid(), Ordering::SeqCst);
            let r = do_op(&gb2, &optoks, &objs2);
            let _ = tx.send(r);
        });
        let start = Instant::now();
        let mut quiet = 0u32;
        let mut col = OpCollect { wire: Vec::new(), wire_fds: Vec::new(), replied: false };
        let mut ret: Option<(String, usize)> = None;
        loop {
            if let Ok(r) = rx.try_recv() {
                ret = Some(r);
            }
            if let Some(pr) = peer.as_mut() {
                pr.round(&mut col, &objs, rscript.as_deref(), then_close);
                if !pr.alive() {
                    peer = None;
                }
            }
            if ret.is_some() {
                if !(peer.is_some() && readable(peer.as_ref().unwrap().fd, 0)) {
                    break;
                }
                continue;
            }
            let other_idle = peer.as_ref().map_or(true, |pr| !readable(pr.fd, 0));
            if other_idle && thread_sleeping(tid.load(Ordering::SeqCst)) && pending_bytes(proxy_fd) == 0 {
                quiet += 1;
                if quiet >= QUIET_ROUNDS {
                    if let Ok(r) = rx.try_recv() {
                        ret = Some(r);
                        continue;
                    }
                    break;
                }
            } else {
                quiet = 0;
            }
            if start.elapsed() > WATCHDOG {
                break;
            }
            match peer.as_ref() {
                Some(pr) => { readable(pr.fd, 2); }
                None => std::thread::sleep(Duration::from_millis(1)),
            }
        }
        let (ret, lent_closed) = match ret {
            Some(r) => {
                let _ = th.join();
                r
            }
            None => {
                peer = None;
                let _ = th.join();
                dead = true;
                ("blocked".to_string(), 0)
            }
        };
        obs.push(format!("ret={} w={} wf={} lc={}", ret, bytes_to_hex(&col.wire),
                         if col.wire_fds.is_empty() { "-".to_string() } else { col.wire_fds.join(",") }, lent_closed));
    }
    drop(peer);
    drop(gb);
    let leaked = open_idents(&objs.lock().unwrap().map);
    obs.push(format!("L={}", if leaked.is_empty() { "-".to_string() } else { leaked.iter().map(|x| x.to_string()).collect::<Vec<_>>().join(",") }));
    obs.join(" | ")
}
