//! family `route` (C17): kick routing and listener ids on a real multi-worker daemon.
//!
//! scenario:  `route n=<queues> masks=<m0,m1,..> vr=mutex|rwlock lk=mutex|rwlock ex=0|1 kicks=<q,..|-> probes=<t:id,..|->`
//!            (all numbers hex)
//! observation, one token per kick and per probe, in scenario order:
//!   `k=<q>:none`                         no worker dispatched the kick
//!   `k=<q>:t<thread>:e<device_event>:s<q0.q1...>`   one dispatch: worker, event id, the ring slice it was handed
//!                                         (each element identified by the size/base configured for it; `?` = unknown ring)
//!   several dispatches of one kick are joined by `+`
//!   `p=<t>:<id>:rej`                     register_listener refused the id
//!   `p=<t>:<id>:t<thread>:e<device_event>`  accepted; when fired, the backend saw this (thread, device_event)
//!   `p=<t>:<id>:lost`                    accepted but never delivered to the backend (watchdog)
//!   `setup-failed:<what>`                the daemon did not get through the configuration messages
use std::os::fd::{AsRawFd, OwnedFd};
use std::time::Duration;

use vhost_user_backend::{VringMutex, VringRwLock, VringT};
use vm_memory::{GuestMemoryAtomic, GuestMemoryMmap};

use crate::daemon::{self, Bench, Config, Ev, LockKind, RingId, GM};
use crate::peer::{self, codes, Ack};
use crate::util::*;

const BASE0: u16 = 0x100;

fn ring_queue(r: &RingId) -> Option<usize> {
    if r.next_avail < BASE0 {
        return None;
    }
    let q = (r.next_avail - BASE0) as usize;
    if q < 9 && r.size != (2u16 << q) {
        return None;
    }
    Some(q)
}

fn fmt_dispatch(e: &Ev) -> Option<String> {
    if let Ev::HandleEvent { device_event, thread_id, rings, .. } = e {
        let s: Vec<String> = rings.iter().map(|r| ring_queue(r).map(|q| format!("{:x}", q)).unwrap_or("?".into())).collect();
        Some(format!("t{:x}:e{:x}:s{}", thread_id, device_event, if s.is_empty() { "-".to_string() } else { s.join(".") }))
    } else {
        None
    }
}

fn run_generic<V>(n: usize, masks: Vec<u64>, lk: LockKind, ex: bool, kicks: Vec<usize>, probes: Vec<(usize, u64)>) -> String
where
    V: VringT<GM<()>> + Clone + Send + Sync + 'static,
{
    let cfg = Config { num_queues: n, max_queue_size: 1024, queues_per_thread: masks.clone(), exit_events: ex, lock: lk, ..Config::default() };
    let mem: GM<()> = GuestMemoryAtomic::new(GuestMemoryMmap::<()>::new());
    let mut b: Bench<V, ()> = daemon::start(cfg, mem);
    b.watchdog = Duration::from_millis(1000);
    if b.peer.handshake(u64::MAX, u64::MAX).is_err() {
        return "setup-failed:handshake".into();
    }
    let mut efds: Vec<OwnedFd> = Vec::new();
    for q in 0..n {
        let size = if q < 9 { 2u32 << q } else { 1024 };
        if b.peer.set(codes::SET_VRING_NUM, &peer::b_vring_state(q as u32, size), &[]) != Ack::Ok {
            return "setup-failed:num".into();
        }
        if b.peer.set(codes::SET_VRING_BASE, &peer::b_vring_state(q as u32, (BASE0 as u32) + q as u32), &[]) != Ack::Ok {
            return "setup-failed:base".into();
        }
        let e = peer::eventfd(true);
        if b.peer.set(codes::SET_VRING_KICK, &peer::b_vring_fd(q as u8, true), &[e.as_raw_fd()]) != Ack::Ok {
            return "setup-failed:kick".into();
        }
        if b.peer.set(codes::SET_VRING_ENABLE, &peer::b_vring_state(q as u32, 1), &[]) != Ack::Ok {
            return "setup-failed:enable".into();
        }
        efds.push(e);
    }
    let mut out: Vec<String> = Vec::new();
    // once a worker stopped answering (it exited or blocks) nothing later in the scenario can be observed: report it
    // without burning one watchdog period per remaining op
    let mut stuck = false;
    for q in kicks {
        if stuck {
            out.push(format!("k={:x}:worker-stuck", q));
            continue;
        }
        let from = b.log.len();
        peer::efd_write(efds[q].as_raw_fd(), 1).expect("kick");
        if !b.barrier_all() {
            // what was dispatched before the worker stopped is still worth reporting
            let ds: Vec<String> = b.events_since(from).iter().filter_map(fmt_dispatch).collect();
            out.push(format!("k={:x}:{}worker-stuck", q, if ds.is_empty() { String::new() } else { ds.join("+") + "+" }));
            stuck = true;
            continue;
        }
        let ds: Vec<String> = b.events_since(from).iter().filter_map(fmt_dispatch).collect();
        out.push(format!("k={:x}:{}", q, if ds.is_empty() { "none".to_string() } else { ds.join("+") }));
    }
    for (t, id) in probes {
        if t >= b.workers.len() {
            out.push(format!("p={:x}:{:x}:no-thread", t, id));
            continue;
        }
        if stuck {
            // registration can still be observed; delivery cannot
            match b.add_probe(t, id) {
                Err(()) => out.push(format!("p={:x}:{:x}:rej", t, id)),
                Ok(p) => {
                    b.remove_probe(&p);
                    out.push(format!("p={:x}:{:x}:lost", t, id));
                }
            }
            continue;
        }
        match b.add_probe(t, id) {
            Err(()) => out.push(format!("p={:x}:{:x}:rej", t, id)),
            Ok(p) => {
                let from = b.log.len();
                p.fire();
                let hit = b.log.wait_for(
                    from,
                    |e| matches!(e, Ev::HandleEvent { fired, .. } if fired.contains(&id)),
                    Duration::from_millis(400),
                );
                match hit {
                    Some(i) => {
                        if let Ev::HandleEvent { device_event, thread_id, .. } = &b.log.snapshot()[i] {
                            out.push(format!("p={:x}:{:x}:t{:x}:e{:x}", t, id, thread_id, device_event));
                        }
                    }
                    None => out.push(format!("p={:x}:{:x}:lost", t, id)),
                }
                b.remove_probe(&p);
            }
        }
    }
    b.finish();
    if out.is_empty() {
        "-".into()
    } else {
        out.join(" ")
    }
}

pub fn run(line: &str) -> String {
    let toks: Vec<&str> = line.split_whitespace().collect();
    let n = parse_hex_u64(kv(&toks, "n").expect("n")) as usize;
    let masks: Vec<u64> = kv(&toks, "masks").expect("masks").split(',').map(parse_hex_u64).collect();
    let lk = if kv(&toks, "lk") == Some("rwlock") { LockKind::RwLock } else { LockKind::Mutex };
    let ex = kv(&toks, "ex") != Some("0");
    let kicks: Vec<usize> = match kv(&toks, "kicks") {
        Some("-") | None => vec![],
        Some(s) => s.split(',').map(|x| parse_hex_u64(x) as usize).collect(),
    };
    let probes: Vec<(usize, u64)> = match kv(&toks, "probes") {
        Some("-") | None => vec![],
        Some(s) => s
            .split(',')
            .map(|x| {
                let (a, b) = x.split_once(':').expect("t:id");
                (parse_hex_u64(a) as usize, parse_hex_u64(b))
            })
            .collect(),
    };
    assert!(kicks.iter().all(|q| *q < n), "kick index out of range");
    if kv(&toks, "vr") == Some("rwlock") {
        run_generic::<VringRwLock<GM<()>>>(n, masks, lk, ex, kicks, probes)
    } else {
        run_generic::<VringMutex<GM<()>>>(n, masks, lk, ex, kicks, probes)
    }
}
