//! family `mem` (C13): guest memory table and address translation of a real daemon.
//!
//! scenario: `mem vr=mutex|rwlock lk=mutex|rwlock files=<spec>,<spec>,.. <op> <op> ...`   (numbers hex)
//!   file specs (index = position): `f<len>` memfd of `len` bytes opened read/write, `r<len>` the same file opened
//!   read-only (a shared writable mapping is refused), `e` an eventfd (cannot be mapped).
//!   Files are filled with the position pattern [`pattern`] (whole file when small, else the pages around every region
//!   edge named by the scenario).
//!   ops (one token each):
//!   `mt:<gpa>/<size>/<uaddr>/<off>/<file>,..`   SET_MEM_TABLE (one descriptor per region, in order)
//!   `add:<gpa>/<size>/<uaddr>/<off>/<file>`     ADD_MEM_REG
//!   `rem:<gpa>/<size>/<uaddr>/<off>`            REM_MEM_REG
//!   `va:<desc>/<avail>/<used>`                  SET_VRING_ADDR on ring 0 with these three front-end virtual addresses
//!   `rd:<gpa>`      one byte read through the snapshot most recently handed to `update_memory`
//!   `wr:<gpa>`      one byte (old value xor 0xa5) written through that snapshot; then every file is scanned
//!   `fw:<file>/<off>`  the front-end writes (old xor 0x5a) into the file itself
//! observation: one token per op:
//!   `mt|add|rem:<ack>:u<k>:<shown>:<cur>`  ack = ok|fail|closed|timeout; k = number of `update_memory` calls during the
//!       op; shown = region lists of the snapshots those calls were handed (joined by `+`, `-` = none);
//!       cur = region list of the daemon's memory object afterwards.  A region prints as `gpa/size/file/offset`
//!       (file = scenario index found by inode identity of the mapped file, offset = mapping offset), lists are
//!       comma-joined in the collection's own order, `-` = empty.
//!   `va:<ack>:<desc>/<avail>/<used>`       guest addresses ring 0 holds afterwards (sampled inside `handle_event`)
//!   `rd:<byte>` | `rd:err` (address refused) | `rd:unbacked` (cell beyond the end of the file: not touched) | `rd:nosnap`
//!   `wr:<file>@<off>=<byte>,..` (every file cell that changed) | `wr:err` | `wr:unbacked` | `wr:nosnap` | `wr:nochange`
//!   `fw:ok` | `fw:oob`
//!   `dead` for every op after the daemon could not be reconnected.
//! A refused request ends the daemon's connection thread; the harness then reconnects to the same daemon
//! (`Bench::reconnect`) and repeats the feature exchange (without SET_OWNER), so histories continue past failures.
use std::collections::HashMap;
use std::os::fd::{AsRawFd, FromRawFd, OwnedFd, RawFd};
use std::sync::Arc;
use std::time::Duration;

use vhost_user_backend::{VringMutex, VringRwLock, VringT};
use vm_memory::{Bytes, GuestAddress, GuestAddressSpace, GuestMemory, GuestMemoryAtomic, GuestMemoryMmap, GuestMemoryRegion};

use crate::daemon::{self, Bench, Config, Ev, LockKind, GM};
use crate::peer::{self, codes, pfeat, vfeat, Ack, RawPeer, Region};
use crate::util::*;

/// position pattern of file `f` at offset `o`
pub fn pattern(f: u64, o: u64) -> u8 {
    (o.wrapping_mul(131)
        .wrapping_add((o >> 8).wrapping_mul(17))
        .wrapping_add((o >> 12).wrapping_mul(29))
        .wrapping_add((o >> 16).wrapping_mul(3))
        .wrapping_add((o >> 24).wrapping_mul(7))
        .wrapping_add((o >> 32).wrapping_mul(13))
        .wrapping_add(f.wrapping_mul(73))
        .wrapping_add(11)
        & 0xff) as u8
}

const PAGE: u64 = 4096;
const SMALL: u64 = 0x200000;

pub enum Kind {
    Rw,
    Ro,
    Efd,
}

pub struct ScFile {
    pub kind: Kind,
    /// descriptor handed to the daemon
    pub fd: OwnedFd,
    /// read/write descriptor of the same file for the harness (None for eventfd)
    pub rw: Option<OwnedFd>,
    pub len: u64,
    pub ident: (u64, u64),
    /// page index -> content as last seen by the harness
    pub shadow: HashMap<u64, Vec<u8>>,
}

impl ScFile {
    pub fn parse(spec: &str, idx: usize) -> ScFile {
        if spec == "e" {
            let fd = peer::eventfd(true);
            let ident = peer::fd_identity(fd.as_raw_fd());
            return ScFile { kind: Kind::Efd, fd, rw: None, len: 0, ident, shadow: HashMap::new() };
        }
        let len = parse_hex_u64(&spec[1..]);
        let rw = peer::memfd(&format!("vharness-mem{}", idx), len);
        let ident = peer::fd_identity(rw.as_raw_fd());
        if spec.starts_with('r') {
            let path = std::ffi::CString::new(format!("/proc/self/fd/{}", rw.as_raw_fd())).unwrap();
            // SAFETY: plain syscall with a valid C string.
            let fd = unsafe { libc::open(path.as_ptr(), libc::O_RDONLY | libc::O_CLOEXEC) };
            assert!(fd >= 0, "open read-only");
            // SAFETY: fresh valid descriptor.
            let ro = unsafe { OwnedFd::from_raw_fd(fd) };
            ScFile { kind: Kind::Ro, fd: ro, rw: Some(rw), len, ident, shadow: HashMap::new() }
        } else {
            let dup = rw.try_clone().expect("dup");
            ScFile { kind: Kind::Rw, fd: dup, rw: Some(rw), len, ident, shadow: HashMap::new() }
        }
    }

    fn fill_page(&mut self, idx: usize, page: u64) {
        if page * PAGE >= self.len || self.shadow.contains_key(&page) {
            return;
        }
        let n = std::cmp::min(PAGE, self.len - page * PAGE) as usize;
        let buf: Vec<u8> = (0..n as u64).map(|i| pattern(idx as u64, page * PAGE + i)).collect();
        peer::pwrite_all(self.rw.as_ref().unwrap().as_raw_fd(), page * PAGE, &buf);
        let mut full = buf;
        full.resize(PAGE as usize, 0);
        self.shadow.insert(page, full);
    }

    /// pattern-fill the whole file (small) or the pages around the given offsets
    pub fn fill(&mut self, idx: usize, edges: &[u64]) {
        if self.rw.is_none() || self.len == 0 {
            return;
        }
        if self.len <= SMALL {
            for p in 0..(self.len + PAGE - 1) / PAGE {
                self.fill_page(idx, p);
            }
        } else {
            for e in edges {
                let p = e / PAGE;
                for q in p.saturating_sub(2)..=p.saturating_add(1) {
                    self.fill_page(idx, q);
                }
            }
        }
    }

    /// pages that hold data (SEEK_DATA / SEEK_HOLE)
    fn data_pages(&self) -> Vec<u64> {
        let fd = self.rw.as_ref().unwrap().as_raw_fd();
        let mut out = Vec::new();
        let mut pos: i64 = 0;
        loop {
            // SAFETY: plain syscalls on a valid descriptor.
            let d = unsafe { libc::lseek(fd, pos, libc::SEEK_DATA) };
            if d < 0 {
                break;
            }
            // SAFETY: as above.
            let h = unsafe { libc::lseek(fd, d, libc::SEEK_HOLE) };
            let h = if h < 0 { self.len as i64 } else { h };
            let mut p = d as u64 / PAGE;
            while p * PAGE < h as u64 {
                out.push(p);
                p += 1;
            }
            pos = h;
            if pos as u64 >= self.len {
                break;
            }
        }
        out
    }

    /// cells that differ from the shadow copy (and bring the shadow up to date)
    pub fn diff(&mut self) -> Vec<(u64, u8)> {
        let mut out = Vec::new();
        if self.rw.is_none() {
            return out;
        }
        let fd = self.rw.as_ref().unwrap().as_raw_fd();
        for p in self.data_pages() {
            let mut now = peer::pread_all(fd, p * PAGE, PAGE as usize);
            now.resize(PAGE as usize, 0);
            let old = self.shadow.entry(p).or_insert_with(|| vec![0u8; PAGE as usize]);
            if *old != now {
                for i in 0..PAGE as usize {
                    if old[i] != now[i] {
                        out.push((p * PAGE + i as u64, now[i]));
                    }
                }
                *old = now;
            }
        }
        out
    }
}

pub fn parse_region(s: &str) -> (Region, usize) {
    let f: Vec<&str> = s.split('/').collect();
    let r = Region { gpa: parse_hex_u64(f[0]), size: parse_hex_u64(f[1]), uaddr: parse_hex_u64(f[2]), mmap_offset: parse_hex_u64(f[3]) };
    let file = if f.len() > 4 { parse_hex_u64(f[4]) as usize } else { 0 };
    (r, file)
}

/// region list of a memory object: `gpa/size/file/offset,..`
pub fn fmt_table<M: GuestMemory>(m: &M, files: &[ScFile]) -> String {
    let v: Vec<String> = m
        .iter()
        .map(|r| {
            let (fi, off) = match r.file_offset() {
                Some(fo) => {
                    let id = peer::fd_identity(fo.file().as_raw_fd());
                    (files.iter().position(|f| f.ident == id).map(|i| format!("{:x}", i)).unwrap_or("?".into()), fo.start())
                }
                None => ("none".into(), 0),
            };
            format!("{:x}/{:x}/{}/{:x}", r.start_addr().0, r.len(), fi, off)
        })
        .collect();
    if v.is_empty() {
        "-".into()
    } else {
        v.join(",")
    }
}

/// feature exchange on a fresh connection of an already owned daemon (no SET_OWNER)
pub fn rehandshake(p: &mut RawPeer) -> bool {
    let feats = match p.get_u64(codes::GET_FEATURES) {
        Ok(f) => f,
        Err(_) => return false,
    };
    if p.send_req(codes::SET_FEATURES, 0, &peer::b_u64(feats), &[]).is_err() {
        return false;
    }
    if feats & (1 << vfeat::PROTOCOL_FEATURES) != 0 {
        let proto = match p.get_u64(codes::GET_PROTOCOL_FEATURES) {
            Ok(f) => f,
            Err(_) => return false,
        };
        if p.send_req(codes::SET_PROTOCOL_FEATURES, 0, &peer::b_u64(proto), &[]).is_err() {
            return false;
        }
        p.reply_ack = proto & (1 << pfeat::REPLY_ACK) != 0;
    }
    p.get_u64(codes::GET_FEATURES).is_ok()
}

/// the file cell behind `gpa` according to the mapping the snapshot really holds (only used to stay inside the file)
fn cell_of(snap: &GuestMemoryMmap<()>, files: &[ScFile], gpa: u64) -> Option<(Option<usize>, u64)> {
    let r = snap.find_region(GuestAddress(gpa))?;
    let fo = r.file_offset()?;
    let id = peer::fd_identity(fo.file().as_raw_fd());
    let fi = files.iter().position(|f| f.ident == id);
    Some((fi, fo.start() + (gpa - r.start_addr().0)))
}

fn run_generic<V>(lk: LockKind, fspecs: &[&str], ops: &[&str]) -> String
where
    V: VringT<GM<()>> + Clone + Send + Sync + 'static,
{
    let cfg = Config { num_queues: 1, max_queue_size: 256, queues_per_thread: vec![1], exit_events: true, lock: lk, ..Config::default() };
    let mem: GM<()> = GuestMemoryAtomic::new(GuestMemoryMmap::<()>::new());
    let mut b: Bench<V, ()> = daemon::start(cfg, mem);
    b.watchdog = Duration::from_millis(2000);
    if b.peer.handshake(u64::MAX, u64::MAX).is_err() {
        return "setup-failed:handshake".into();
    }
    let mut files: Vec<ScFile> = fspecs.iter().enumerate().map(|(i, s)| ScFile::parse(s, i)).collect();
    // pattern-fill around every region edge the scenario names
    let mut edges: Vec<Vec<u64>> = vec![Vec::new(); files.len()];
    for op in ops {
        let (k, rest) = op.split_once(':').unwrap_or((op, ""));
        if k == "mt" || k == "add" {
            for rs in rest.split(',').filter(|x| !x.is_empty()) {
                let (r, fi) = parse_region(rs);
                if fi < files.len() {
                    edges[fi].push(r.mmap_offset);
                    edges[fi].push(r.mmap_offset.saturating_add(r.size));
                }
            }
        }
    }
    for (i, f) in files.iter_mut().enumerate() {
        f.fill(i, &edges[i]);
    }

    let mut dead = false;
    let mut out: Vec<String> = Vec::new();
    for op in ops {
        let (kind, rest) = op.split_once(':').unwrap_or((op, ""));
        if dead {
            out.push("dead".into());
            continue;
        }
        match kind {
            "mt" | "add" | "rem" => {
                let log_from = b.log.len();
                let snaps_from = b.shared.mem_snapshots.lock().unwrap().len();
                let ack = match kind {
                    "mt" => {
                        let parsed: Vec<(Region, usize)> = rest.split(',').filter(|x| !x.is_empty()).map(parse_region).collect();
                        let rs: Vec<Region> = parsed.iter().map(|p| p.0).collect();
                        let fds: Vec<RawFd> = parsed.iter().map(|p| files[p.1].fd.as_raw_fd()).collect();
                        b.peer.set(codes::SET_MEM_TABLE, &peer::b_mem_table(&rs), &fds)
                    }
                    "add" => {
                        let (r, fi) = parse_region(rest);
                        b.peer.set(codes::ADD_MEM_REG, &peer::b_single_region(&r), &[files[fi].fd.as_raw_fd()])
                    }
                    _ => {
                        let (r, _) = parse_region(rest);
                        b.peer.set(codes::REM_MEM_REG, &peer::b_single_region(&r), &[])
                    }
                };
                if ack != Ack::Ok {
                    // the connection thread has ended (or is about to): join it, then look at the state
                    if b.reconnect().is_none() || !rehandshake(&mut b.peer) {
                        dead = true;
                    }
                }
                let k = b.log.since(log_from).iter().filter(|e| matches!(e, Ev::UpdateMemory { .. })).count();
                let snaps = b.snapshots();
                let shown: Vec<String> = snaps[snaps_from.min(snaps.len())..].iter().map(|s| fmt_table(&**s, &files)).collect();
                let cur = fmt_table(&*b.mem.memory(), &files);
                out.push(format!("{}:{}:u{:x}:{}:{}", kind, ack.tag(), k, if shown.is_empty() { "-".to_string() } else { shown.join("+") }, cur));
            }
            "va" => {
                let f: Vec<u64> = rest.split('/').map(parse_hex_u64).collect();
                let ack = b.peer.set(codes::SET_VRING_ADDR, &peer::b_vring_addr(0, 0, f[0], f[2], f[1], 0), &[]);
                if ack != Ack::Ok && (b.reconnect().is_none() || !rehandshake(&mut b.peer)) {
                    dead = true;
                }
                match b.sample(0) {
                    Some(rs) if !rs.is_empty() => {
                        out.push(format!("va:{}:{:x}/{:x}/{:x}", ack.tag(), rs[0].desc_table, rs[0].avail_ring, rs[0].used_ring))
                    }
                    _ => out.push(format!("va:{}:nosample", ack.tag())),
                }
            }
            "rd" | "wr" => {
                let gpa = parse_hex_u64(rest);
                let snaps = b.snapshots();
                let snap: Arc<GuestMemoryMmap<()>> = match snaps.last() {
                    Some(s) => s.clone(),
                    None => {
                        out.push(format!("{}:nosnap", kind));
                        continue;
                    }
                };
                match cell_of(&snap, &files, gpa) {
                    None => {
                        // no region: the access itself must be refused
                        let r = if kind == "rd" { snap.read_obj::<u8>(GuestAddress(gpa)).is_err() } else { snap.write_obj::<u8>(0, GuestAddress(gpa)).is_err() };
                        out.push(format!("{}:{}", kind, if r { "err" } else { "accepted-without-region" }));
                    }
                    Some((fi, off)) => {
                        let backed = match fi {
                            Some(i) => off < files[i].len,
                            None => false,
                        };
                        if !backed {
                            out.push(format!("{}:unbacked", kind));
                            continue;
                        }
                        match snap.read_obj::<u8>(GuestAddress(gpa)) {
                            Err(_) => out.push(format!("{}:err", kind)),
                            Ok(old) => {
                                if kind == "rd" {
                                    out.push(format!("rd:{:02x}", old));
                                } else if snap.write_obj::<u8>(old ^ 0xa5, GuestAddress(gpa)).is_err() {
                                    out.push("wr:err".into());
                                } else {
                                    let mut cells: Vec<String> = Vec::new();
                                    for (i, f) in files.iter_mut().enumerate() {
                                        for (o, v) in f.diff() {
                                            if cells.len() < 8 {
                                                cells.push(format!("{:x}@{:x}={:02x}", i, o, v));
                                            }
                                        }
                                    }
                                    out.push(if cells.is_empty() { "wr:nochange".to_string() } else { format!("wr:{}", cells.join(",")) });
                                }
                            }
                        }
                    }
                }
            }
            "fw" => {
                let f: Vec<u64> = rest.split('/').map(parse_hex_u64).collect();
                let (fi, off) = (f[0] as usize, f[1]);
                if fi >= files.len() || files[fi].rw.is_none() || off >= files[fi].len {
                    out.push("fw:oob".into());
                    continue;
                }
                let fd = files[fi].rw.as_ref().unwrap().as_raw_fd();
                let old = peer::pread_all(fd, off, 1)[0];
                peer::pwrite_all(fd, off, &[old ^ 0x5a]);
                let _ = files[fi].diff();
                out.push("fw:ok".into());
            }
            _ => out.push(format!("bad-op:{}", kind)),
        }
    }
    b.finish();
    if out.is_empty() {
        "-".into()
    } else {
        out.join(" ")
    }
}

pub fn run(line: &str) -> String {
    let toks: Vec<&str> = line.split_whitespace().collect();
    let lk = if kv(&toks, "lk") == Some("rwlock") { LockKind::RwLock } else { LockKind::Mutex };
    let fspecs: Vec<&str> = kv(&toks, "files").expect("files").split(',').collect();
    let ops: Vec<&str> = toks.iter().skip(1).filter(|t| !t.contains('=')).cloned().collect();
    if kv(&toks, "vr") == Some("rwlock") {
        run_generic::<VringRwLock<GM<()>>>(lk, &fspecs, &ops)
    } else {
        run_generic::<VringMutex<GM<()>>>(lk, &fspecs, &ops)
    }
}
