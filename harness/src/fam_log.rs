//! family `log` (C15): dirty-page logging of a real daemon with `BitmapMmapRegion` guest memory.
//!
//! scenario: `log vr=mutex|rwlock lk=mutex|rwlock fsz=<log file bytes> init=<fill byte> <op> <op> ...` (numbers hex)
//!   ops (one token each):
//!   `mt:<gpa>/<size>,<gpa>/<size>,..`  SET_MEM_TABLE (every region backed by its own memfd); `mt:-` = empty table
//!   `add:<gpa>/<size>`                 ADD_MEM_REG          `rem:<gpa>/<size>`  REM_MEM_REG
//!   `lb:<mmap_size>:<mmap_offset>`     SET_LOG_BASE on the scenario's log file (shared memfd of `fsz` bytes)
//!   `w:<gpa>:<len>`                    `GuestMemory::write_slice` of `len` bytes at `gpa`
//!   `wo:<gpa>:<k>`                     `GuestMemory::write_obj` of a `k`-byte integer (k = 1,2,4,8)
//!   `mk:<gpa>:<slice_off>:<off>:<len>` `Bitmap` interface directly: region containing `gpa`,
//!                                      `region.bitmap().slice_at(slice_off).mark_dirty(off, len)` (any usize values)
//!   `au:<q>:<used_gpa>:<qsize>:<k>:<head>:<len>`  used-ring update: guest memory is prepared so that the used index is `k`,
//!                                      SET_VRING_NUM/ADDR configure ring `q`, then `vring.add_used(head, len)` on the daemon's
//!                                      own ring object
//!   `cw:<threads>:<rounds>:<gpa>`      concurrent writers: thread i writes one byte into page `gpa/4096 + i % 8`, all released
//!                                      together, `rounds` times (the 8 pages' log byte is cleared before each round)
//! observation: one token per op, in order:
//!   `mt:ok|fail|closed|timeout` (same for add, rem), `lb:ok|closed|timeout`,
//!   `w:[err][!<cleared bits>]+<newly set bits>` (same for wo, mk, au) — bit positions are absolute in the log *file*
//!   (byte index * 8 + bit, LSB first), so anything outside the mapped window shows up; ranges `a-b`, `-` = none,
//!   `cw:ok` or `cw:lost<n>` (rounds after which the byte was not the OR of all writers' bits),
//!   a refusal — nack or not — ends the daemon's connection thread; the harness reconnects to the same daemon (handler state
//!   survives) and the history goes on; `dead` for every op after a refusal from which the daemon could not be reconnected.
use std::os::fd::{AsRawFd, OwnedFd};
use std::sync::{Arc, Barrier};
use std::time::Duration;

use vhost_user_backend::bitmap::BitmapMmapRegion;
use vhost_user_backend::{VringMutex, VringRwLock, VringT};
use vm_memory::bitmap::Bitmap;
use vm_memory::{Bytes, GuestAddress, GuestAddressSpace, GuestMemory, GuestMemoryAtomic, GuestMemoryMmap, GuestMemoryRegion};

use crate::daemon::{self, Bench, Config, Ev, LockKind, GM};
use crate::fam_mem::rehandshake;
use crate::peer::{self, codes, Ack, PeerErr, Region};
use crate::util::*;

type B = BitmapMmapRegion;
const UBASE: u64 = 0x7000_0000_0000;
const NQ: usize = 2;

fn ranges(bits: &[u64]) -> String {
    if bits.is_empty() {
        return "-".into();
    }
    let mut out = Vec::new();
    let mut i = 0;
    while i < bits.len() {
        let mut j = i;
        while j + 1 < bits.len() && bits[j + 1] == bits[j] + 1 {
            j += 1;
        }
        if j == i {
            out.push(format!("{:x}", bits[i]));
        } else {
            out.push(format!("{:x}-{:x}", bits[i], bits[j]));
        }
        i = j + 1;
    }
    out.join(",")
}

struct LogFile {
    fd: OwnedFd,
    size: usize,
    last: Vec<u8>,
}

impl LogFile {
    fn read(&self) -> Vec<u8> {
        peer::pread_all(self.fd.as_raw_fd(), 0, self.size)
    }
    /// `[!cleared]+set` since the previous call
    fn delta(&mut self) -> String {
        let now = self.read();
        let mut set = Vec::new();
        let mut clr = Vec::new();
        for (i, (a, b)) in self.last.iter().zip(now.iter()).enumerate() {
            if a != b {
                for bit in 0..8 {
                    let (x, y) = (a >> bit & 1, b >> bit & 1);
                    if x == 0 && y == 1 {
                        set.push(i as u64 * 8 + bit);
                    } else if x == 1 && y == 0 {
                        clr.push(i as u64 * 8 + bit);
                    }
                }
            }
        }
        self.last = now;
        let mut s = String::new();
        if !clr.is_empty() {
            s.push('!');
            s.push_str(&ranges(&clr));
        }
        s.push('+');
        s.push_str(&ranges(&set));
        s
    }
}

fn parse_regions(s: &str) -> Vec<(u64, u64)> {
    if s == "-" {
        return vec![];
    }
    s.split(',')
        .map(|x| {
            let (a, b) = x.split_once('/').expect("gpa/size");
            (parse_hex_u64(a), parse_hex_u64(b))
        })
        .collect()
}

fn run_generic<V>(lk: LockKind, fsz: usize, init: u8, ops: &[&str]) -> String
where
    V: VringT<GM<B>> + Clone + Send + Sync + 'static,
{
    let cfg = Config { num_queues: NQ, max_queue_size: 1024, queues_per_thread: vec![0xffff_ffff], exit_events: true, lock: lk, ..Config::default() };
    let mem: GM<B> = GuestMemoryAtomic::new(GuestMemoryMmap::<B>::new());
    let mut b: Bench<V, B> = daemon::start(cfg, mem);
    b.watchdog = Duration::from_millis(2000);
    if b.peer.handshake(u64::MAX, u64::MAX).is_err() {
        return "setup-failed:handshake".into();
    }
    let logfd = peer::memfd("vharness-log", fsz as u64);
    if init != 0 {
        peer::pwrite_all(logfd.as_raw_fd(), 0, &vec![init; fsz]);
    }
    let mut log = LogFile { fd: logfd, size: fsz, last: vec![init; fsz] };
    // backing files of the regions the daemon currently has: (gpa, size, memfd)
    let mut backing: Vec<(u64, u64, OwnedFd)> = Vec::new();
    let mut rings_started = false;
    let mut dead = false;
    let mut out: Vec<String> = Vec::new();

    for op in ops {
        let f: Vec<&str> = op.split(':').collect();
        let kind = f[0];
        if dead {
            out.push("dead".into());
            continue;
        }
        match kind {
            "mt" => {
                let regs = parse_regions(f[1]);
                let files: Vec<OwnedFd> = regs.iter().map(|(_, s)| peer::memfd("vharness-mem", *s)).collect();
                let rs: Vec<Region> = regs.iter().map(|(g, s)| Region { gpa: *g, size: *s, uaddr: UBASE + *g, mmap_offset: 0 }).collect();
                let fds: Vec<i32> = files.iter().map(|f| f.as_raw_fd()).collect();
                let a = b.peer.set(codes::SET_MEM_TABLE, &peer::b_mem_table(&rs), &fds);
                if a == Ack::Ok {
                    backing = regs.iter().zip(files).map(|((g, s), f)| (*g, *s, f)).collect();
                }
                // a refused request ends the daemon's connection thread: reconnect to the same daemon, the history goes on
                dead = a != Ack::Ok && (b.reconnect().is_none() || !rehandshake(&mut b.peer));
                out.push(format!("mt:{}", a.tag()));
            }
            "add" => {
                let (g, s) = parse_regions(f[1])[0];
                let file = peer::memfd("vharness-mem", s);
                let r = Region { gpa: g, size: s, uaddr: UBASE + g, mmap_offset: 0 };
                let a = b.peer.set(codes::ADD_MEM_REG, &peer::b_single_region(&r), &[file.as_raw_fd()]);
                if a == Ack::Ok {
                    backing.push((g, s, file));
                }
                // a refused request ends the daemon's connection thread: reconnect to the same daemon, the history goes on
                dead = a != Ack::Ok && (b.reconnect().is_none() || !rehandshake(&mut b.peer));
                out.push(format!("add:{}", a.tag()));
            }
            "rem" => {
                let (g, s) = parse_regions(f[1])[0];
                let r = Region { gpa: g, size: s, uaddr: UBASE + g, mmap_offset: 0 };
                let a = b.peer.set(codes::REM_MEM_REG, &peer::b_single_region(&r), &[]);
                if a == Ack::Ok {
                    backing.retain(|(bg, _, _)| *bg != g);
                }
                // a refused request ends the daemon's connection thread: reconnect to the same daemon, the history goes on
                dead = a != Ack::Ok && (b.reconnect().is_none() || !rehandshake(&mut b.peer));
                out.push(format!("rem:{}", a.tag()));
            }
            "lb" => {
                let (size, off) = (parse_hex_u64(f[1]), parse_hex_u64(f[2]));
                // the reply to an accepted SET_LOG_BASE is the message itself; a refused one ends the connection
                let r = b.peer.call(codes::SET_LOG_BASE, &peer::b_log(size, off), &[log.fd.as_raw_fd()]);
                let tag = match r {
                    Ok((h, body, _)) if h.request == codes::SET_LOG_BASE && body.len() == 16 => "ok",
                    Ok(_) => "badreply",
                    Err(PeerErr::Timeout) => "timeout",
                    Err(_) => {
                        dead = b.reconnect().is_none() || !rehandshake(&mut b.peer);
                        "closed"
                    }
                };
                out.push(format!("lb:{}", tag));
            }
            "w" => {
                let (gpa, len) = (parse_hex_u64(f[1]), parse_hex_u64(f[2]) as usize);
                let buf = vec![0xabu8; len];
                let r = b.mem.memory().write_slice(&buf, GuestAddress(gpa));
                out.push(format!("w:{}{}", if r.is_err() { "err" } else { "" }, log.delta()));
            }
            "wo" => {
                let (gpa, k) = (parse_hex_u64(f[1]), parse_hex_u64(f[2]));
                let m = b.mem.memory();
                let r = match k {
                    1 => m.write_obj(0x5au8, GuestAddress(gpa)),
                    2 => m.write_obj(0x5a5au16, GuestAddress(gpa)),
                    4 => m.write_obj(0x5a5a_5a5au32, GuestAddress(gpa)),
                    _ => m.write_obj(0x5a5a_5a5a_5a5a_5a5au64, GuestAddress(gpa)),
                };
                out.push(format!("wo:{}{}", if r.is_err() { "err" } else { "" }, log.delta()));
            }
            "mk" => {
                let gpa = parse_hex_u64(f[1]);
                let (sl, off, len) = (parse_hex_u64(f[2]) as usize, parse_hex_u64(f[3]) as usize, parse_hex_u64(f[4]) as usize);
                let m = b.mem.memory();
                let err = match m.find_region(GuestAddress(gpa)) {
                    Some(r) => {
                        let bm = GuestMemoryRegion::bitmap(r);
                        let s = bm.slice_at(sl);
                        s.mark_dirty(off, len);
                        false
                    }
                    None => true,
                };
                out.push(format!("mk:{}{}", if err { "err" } else { "" }, log.delta()));
            }
            "au" => {
                let q = parse_hex_u64(f[1]) as usize;
                let (used, qsize, k) = (parse_hex_u64(f[2]), parse_hex_u64(f[3]) as u32, parse_hex_u64(f[4]) as u16);
                let (head, len) = (parse_hex_u64(f[5]) as u16, parse_hex_u64(f[6]) as u32);
                let mut err = false;
                if !rings_started {
                    // start the rings and obtain the daemon's ring objects through one dispatched kick
                    let mut efds = Vec::new();
                    for i in 0..NQ {
                        let e = peer::eventfd(true);
                        err |= b.peer.set(codes::SET_VRING_KICK, &peer::b_vring_fd(i as u8, true), &[e.as_raw_fd()]) != Ack::Ok;
                        err |= b.peer.set(codes::SET_VRING_ENABLE, &peer::b_vring_state(i as u32, 1), &[]) != Ack::Ok;
                        efds.push(e);
                    }
                    let from = b.log.len();
                    peer::efd_write(efds[0].as_raw_fd(), 1).unwrap();
                    err |= b.log.wait_for(from, |e| matches!(e, Ev::HandleEvent { device_event: 0, .. }), b.watchdog).is_none();
                    rings_started = true;
                }
                // used index = k, written behind the daemon's back through the backing file (not a backend write)
                if let Some((g, _, file)) = backing.iter().find(|(g, s, _)| *g <= used + 2 && used + 4 <= *g + *s) {
                    peer::pwrite_all(file.as_raw_fd(), used + 2 - *g, &k.to_le_bytes());
                } else {
                    err = true;
                }
                let page = used & !0xfff;
                err |= b.peer.set(codes::SET_VRING_NUM, &peer::b_vring_state(q as u32, qsize), &[]) != Ack::Ok;
                err |= b.peer.set(codes::SET_VRING_ADDR, &peer::b_vring_addr(q as u32, 0, UBASE + page, UBASE + used, UBASE + page, 0), &[]) != Ack::Ok;
                // nothing so far may have been logged (reads and protocol messages only)
                let pre = log.delta();
                if pre != "+-" {
                    err = true;
                }
                let vr = b.shared.vrings.lock().unwrap().get(&0).and_then(|v| v.get(q).cloned());
                match vr {
                    Some(v) if !err => {
                        err |= v.add_used(head, len).is_err();
                    }
                    _ => err = true,
                }
                out.push(format!("au:{}{}", if err { "err" } else { "" }, log.delta()));
                // a refused configuration message ends the daemon's connection thread: reconnect, the history goes on
                dead = err && (b.reconnect().is_none() || !rehandshake(&mut b.peer));
            }
            "cw" => {
                let (nt, rounds, gpa) = (parse_hex_u64(f[1]) as usize, parse_hex_u64(f[2]) as usize, parse_hex_u64(f[3]));
                let first_page = gpa / 4096;
                let expect_bits: u8 = (0..nt).fold(0u8, |a, i| a | 1 << ((first_page + (i as u64 % 8)) % 8));
                let start = Arc::new(Barrier::new(nt + 1));
                let done = Arc::new(Barrier::new(nt + 1));
                let mut hs = Vec::new();
                for i in 0..nt {
                    let (s, d) = (start.clone(), done.clone());
                    let gm = b.mem.clone();
                    hs.push(std::thread::spawn(move || {
                        for _ in 0..rounds {
                            s.wait();
                            let _ = gm.memory().write_obj(0xeeu8, GuestAddress(gpa + 4096 * (i as u64 % 8) + i as u64));
                            d.wait();
                        }
                    }));
                }
                // which file byte do these pages live in?  found by observation in round 0 (all 8 pages share one byte
                // when `gpa/4096` is a multiple of 8); rounds compare that byte with the OR of all writers' bits
                let mut lost = 0usize;
                let mut byte_idx: Option<usize> = None;
                let before = log.read();
                for _ in 0..rounds {
                    if let Some(ix) = byte_idx {
                        // clear the writers' bits (shared mapping: visible to the daemon's mapping at once)
                        let cur = peer::pread_all(log.fd.as_raw_fd(), ix as u64, 1)[0];
                        peer::pwrite_all(log.fd.as_raw_fd(), ix as u64, &[cur & !expect_bits | (before[ix] & expect_bits)]);
                    }
                    start.wait();
                    done.wait();
                    let now = log.read();
                    if byte_idx.is_none() {
                        byte_idx = (0..now.len()).find(|i| now[*i] != before[*i]);
                    }
                    match byte_idx {
                        Some(ix) => {
                            if now[ix] & expect_bits != expect_bits {
                                lost += 1;
                            }
                        }
                        None => lost += 1,
                    }
                }
                for h in hs {
                    let _ = h.join();
                }
                // leave the final state of the round in `last` out of the per-op deltas: report it as part of this op
                let d = log.delta();
                out.push(if lost == 0 { format!("cw:ok{}", d) } else { format!("cw:lost{:x}{}", lost, d) });
            }
            "cwl" => {
                // concurrent writers while the front-end re-sends SET_LOG_BASE with the window already in force: every single
                // write must leave its bit in the log (each writer owns one page: it writes, checks its bit, clears it)
                let (nt, rounds, gpa) = (parse_hex_u64(f[1]) as usize, parse_hex_u64(f[2]) as usize, parse_hex_u64(f[3]));
                let (size, off) = (parse_hex_u64(f[4]), parse_hex_u64(f[5]));
                let nt = nt.min(8);
                let ok0 = matches!(b.peer.call(codes::SET_LOG_BASE, &peer::b_log(size, off), &[log.fd.as_raw_fd()]),
                                   Ok((h, ref body, _)) if h.request == codes::SET_LOG_BASE && body.len() == 16);
                if !ok0 {
                    dead = b.reconnect().is_none() || !rehandshake(&mut b.peer);
                    out.push("cwl:lbfail".into());
                    continue;
                }
                // the harness' own shared mapping of the log file
                let map = unsafe { libc::mmap(std::ptr::null_mut(), log.size, libc::PROT_READ | libc::PROT_WRITE, libc::MAP_SHARED, log.fd.as_raw_fd(), 0) };
                assert!(map != libc::MAP_FAILED, "mmap of the log file");
                let base = map as usize;
                let stop = Arc::new(std::sync::atomic::AtomicBool::new(false));
                let lost = Arc::new(std::sync::atomic::AtomicUsize::new(0));
                let writes = Arc::new(std::sync::atomic::AtomicUsize::new(0));
                let mut hs = Vec::new();
                for i in 0..nt {
                    let gm = b.mem.clone();
                    let (stop, lost, writes) = (stop.clone(), lost.clone(), writes.clone());
                    let page = gpa / 4096 + i as u64;
                    let byte = off as usize + (page / 8) as usize;
                    let bit = 1u8 << (page % 8);
                    hs.push(std::thread::spawn(move || {
                        // SAFETY: `byte` lies inside the mapping (the window is inside the file); AtomicU8 has no alignment need
                        let cell = unsafe { &*((base + byte) as *const std::sync::atomic::AtomicU8) };
                        cell.fetch_and(!bit, std::sync::atomic::Ordering::SeqCst);
                        while !stop.load(std::sync::atomic::Ordering::SeqCst) {
                            let r = gm.memory().write_obj(0xeeu8, GuestAddress(page * 4096 + i as u64));
                            writes.fetch_add(1, std::sync::atomic::Ordering::Relaxed);
                            if r.is_err() || cell.load(std::sync::atomic::Ordering::SeqCst) & bit == 0 {
                                lost.fetch_add(1, std::sync::atomic::Ordering::SeqCst);
                            }
                            cell.fetch_and(!bit, std::sync::atomic::Ordering::SeqCst);
                        }
                        // leave the page marked (the final state is part of the observation)
                        let _ = gm.memory().write_obj(0xeeu8, GuestAddress(page * 4096 + i as u64));
                    }));
                }
                let mut lbfail = false;
                for _ in 0..rounds {
                    let r = b.peer.call(codes::SET_LOG_BASE, &peer::b_log(size, off), &[log.fd.as_raw_fd()]);
                    if !matches!(r, Ok((h, ref body, _)) if h.request == codes::SET_LOG_BASE && body.len() == 16) {
                        lbfail = true;
                        break;
                    }
                }
                stop.store(true, std::sync::atomic::Ordering::SeqCst);
                for h in hs {
                    let _ = h.join();
                }
                unsafe { libc::munmap(map, log.size) };
                let d = log.delta();
                let l = lost.load(std::sync::atomic::Ordering::SeqCst);
                out.push(if lbfail { "cwl:lbfail".into() } else if l == 0 { format!("cwl:ok{}", d) } else { format!("cwl:lost{:x}{}", l, d) });
                if lbfail {
                    dead = b.reconnect().is_none() || !rehandshake(&mut b.peer);
                }
            }
            _ => out.push(format!("bad-op:{}", kind)),
        }
    }
    b.finish();
    if out.is_empty() {
        "-".into()
    } else {
        out.join(" ")
    }
}

pub fn run(line: &str) -> String {
    let toks: Vec<&str> = line.split_whitespace().collect();
    let lk = if kv(&toks, "lk") == Some("rwlock") { LockKind::RwLock } else { LockKind::Mutex };
    let fsz = parse_hex_u64(kv(&toks, "fsz").expect("fsz")) as usize;
    let init = parse_hex_u64(kv(&toks, "init").unwrap_or("0")) as u8;
    let ops: Vec<&str> = toks.iter().skip(1).filter(|t| !t.contains('=')).cloned().collect();
    if kv(&toks, "vr") == Some("rwlock") {
        run_generic::<VringRwLock<GM<B>>>(lk, fsz, init, &ops)
    } else {
        run_generic::<VringMutex<GM<B>>>(lk, fsz, init, &ops)
    }
}
