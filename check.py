#!/usr/bin/env python3
"""Per-property check driver.

usage: ./check.py Cxx [--tier quick|thorough] [--replay PATH]

Exit 0 iff every property theorem checks, the axiom audit is clean, the model agrees with the
implementation on every generated scenario, and the implementation satisfies the Spec on every scenario
(up to the findings listed in known_findings.txt). Otherwise exit 1 with
`VIOLATION property=<id> replay=<path>`.
"""
import argparse
import importlib
import os
import sys
import time

sys.path.insert(0, os.path.dirname(os.path.abspath(__file__)))
from checks import common as C  # noqa: E402


def log(*a):
    print(*a, flush=True)


def classify_family(fam, lines, tier, jobs):
    """Run harness, model driver and spec driver on `lines`. Returns dict with the three streams."""
    impl, errs = C.run_lines_parallel(C.HARNESS_BIN, [fam.harness_cmd], lines, jobs=fam.jobs(jobs),
                                      timeout=fam.timeout, env=fam.env())
    missing = [l for l in lines if l not in impl]
    model = {}
    if fam.has_model and os.path.exists(C.DRIVER):
        model, merrs = C.run_lines_parallel(C.DRIVER, [], [fam.model_input(l, impl.get(l, "")) for l in lines if l in impl],
                                            jobs=jobs, timeout=fam.timeout)
    spec_in = {fam.spec_input(l, impl[l]): l for l in lines if l in impl}
    spec, serrs = C.run_lines_parallel(C.SPECDRIVER, [], list(spec_in.keys()), jobs=jobs, timeout=fam.timeout)
    spec_fail, model_diff, crashes = [], [], []
    for l in lines:
        if l not in impl:
            continue
        obs = impl[l]
        if obs.startswith("PANIC"):
            crashes.append((l, obs))
        si = fam.spec_input(l, obs)
        so = spec.get(si)
        if so is None or not fam.spec_ok(so, obs):
            spec_fail.append((l, obs, so))
        if fam.has_model:
            mo = model.get(fam.model_input(l, obs))
            if mo is None or not fam.model_agrees(mo, obs):
                model_diff.append((l, obs, mo))
    return dict(impl=impl, model=model, spec=spec, spec_fail=spec_fail, model_diff=model_diff, missing=missing,
                harness_errs=errs, crashes=crashes)


def spec_fails(fam, line):
    """re-run one scenario through harness and spec driver; returns (fails, obs, spec_out)"""
    impl, _ = C.run_lines_parallel(C.HARNESS_BIN, [fam.harness_cmd], [line], jobs=1, timeout=fam.timeout, env=fam.env())
    if line not in impl:
        return True, "(no output)", None
    obs = impl[line]
    si = fam.spec_input(line, obs)
    spec, _ = C.run_lines_parallel(C.SPECDRIVER, [], [si], jobs=1, timeout=fam.timeout)
    so = spec.get(si)
    return (so is None or not fam.spec_ok(so, obs)), obs, so


def shrink(fam, line, key, budget=60):
    """greedy delta-debugging over the ` | `-separated steps of a scenario: drop steps while the same failure remains"""
    parts = line.split(" | ")
    if len(parts) < 3:
        return line
    head, steps = parts[0], parts[1:]
    # families whose first part is itself a step (e.g. `srv m ...`) keep the family token
    fam_tok = head.split(" ", 1)[0]
    first_is_step = fam_tok == fam.name and len(head.split()) > 1 and "=" not in head.split()[1]
    if first_is_step:
        steps = [head.split(" ", 1)[1]] + steps
        head = fam_tok
    tried = 0
    i = 0
    while i < len(steps) and tried < budget and len(steps) > 1:
        cand = steps[:i] + steps[i + 1:]
        cl = (head + " " + " | ".join(cand)) if first_is_step else " | ".join([head] + cand)
        tried += 1
        try:
            bad, obs, so = spec_fails(fam, cl)
        except Exception:
            bad = False
        if bad and fam.finding_key(cl, obs, so) == key:
            steps = cand
        else:
            i += 1
    return (head + " " + " | ".join(steps)) if first_is_step else " | ".join([head] + steps)


def main():
    ap = argparse.ArgumentParser()
    ap.add_argument("prop")
    ap.add_argument("--tier", default=os.environ.get("VERIF_TIER", "quick"))
    ap.add_argument("--replay")
    ap.add_argument("--jobs", type=int, default=min(16, os.cpu_count() or 4))
    ap.add_argument("--no-build", action="store_true")
    args = ap.parse_args()
    prop = args.prop
    seed = int(os.environ.get("VERIF_SEED", "20260925"))
    tier = args.tier if args.tier in ("quick", "thorough") else "quick"
    t0 = time.time()
    plugin = importlib.import_module("checks." + prop.lower())

    problems = []          # (stream, what, scenarios, expected, observed)
    notes = []
    # ---------------------------------------------------------------- build phase (serialised)
    with C.BuildLock():
        tr = C.translate()
        translator_failed = list(tr.get("failed", []))
        if translator_failed:
            notes.append(f"translator failed on: {translator_failed}: {tr.get('stderr', '')[-300:]}")
        targets = [f"VhostModel.Props.{m}" for m in plugin.PROPS_MODULES]
        ok_props, out_props = C.lake_build(targets)
        failed_thms = []
        if not ok_props:
            for m in plugin.PROPS_MODULES:
                failed_thms += [f"Props.{m}.{t}" for t in C.failed_theorems(m, out_props)]
            if not failed_thms:
                failed_thms = ["(build of " + ",".join(targets) + " failed: " + out_props[-400:].replace("\n", " | ") + ")"]
        ok_drv, out_drv = C.lake_build(["driver"])
        ok_sdrv, out_sdrv = C.lake_build(["specdriver"])
        if not ok_sdrv:
            log("FATAL: spec driver does not build (framework error):\n" + out_sdrv[-2000:])
            sys.exit(2)
        ok_cargo, out_cargo = C.cargo_build()
        axioms, audit_problems = {}, []
        thm_count = 0
        if ok_props:
            for m in plugin.PROPS_MODULES:
                ok_a, ax, pr = C.audit(m)
                axioms.update(ax)
                audit_problems += pr
                thm_count += len(C.theorems_of(m))
        forb = C.forbidden_tokens()
        if tier == "thorough" and ok_props:
            for m in plugin.PROPS_MODULES:
                rc, o, e = C.run(["lake", "env", "leanchecker", f"VhostModel.Props.{m}"], cwd=C.LEAN, timeout=3000)
                if rc != 0:
                    audit_problems.append(f"leanchecker rejected VhostModel.Props.{m}: {(o + e)[-300:]}")
    if not ok_cargo:
        # the tree no longer compiles with hooks on: nothing can be observed
        log("harness build failed:\n" + out_cargo[-3000:])
        path = C.write_replay(prop, seed, "build", "harness (and therefore /repo with feature verif-hooks) does not compile",
                              [], note=out_cargo[-1500:])
        log(f"VIOLATION property={prop} replay={path} no-failing-input-found")
        sys.exit(1)

    # ---------------------------------------------------------------- scenarios
    rng = C.Rng(seed)
    known_open, known_fixed = C.known_findings(prop)
    total_eval = 0
    nontrivial = set()
    samples = []
    dist = {}
    violations = []
    known_hits = {}
    model_diffs_all = []
    families_run = []
    for fam in plugin.FAMILIES:
        if args.replay:
            lines = [l for l in C.read_replay(args.replay) if l.split(" ", 1)[0] == fam.name]
            if not lines:
                continue
        else:
            lines = fam.corpus() + fam.generate(tier, rng)
        seen = set()
        lines = [l for l in lines if not (l in seen or seen.add(l))]
        if not ok_drv:
            fam.has_model = False
        r = classify_family(fam, lines, tier, args.jobs)
        families_run.append(fam.name)
        total_eval += len(lines)
        for l in lines:
            if l in r["impl"] and fam.nontrivial(l, r["impl"][l]):
                nontrivial.add(fam.key(l))
        fam.distribution(lines, r["impl"], dist)
        for l in lines[:2] + lines[len(lines) // 2:len(lines) // 2 + 1]:
            if l in r["impl"] and len(samples) < 12:
                samples.append(f"{l} => {r['impl'][l]}"[:400])
        if r["missing"]:
            # harness died (abort / alloc failure): bisect to the offending line
            bad = r["missing"][0]
            violations.append(("impl-vs-spec", f"harness produced no observation (process aborted?) in family {fam.name}",
                               [bad], None, "no output; harness stderr: " + str(r["harness_errs"])[:500]))
        for (l, obs, so) in r["spec_fail"]:
            k = fam.key(l)
            fk = fam.finding_key(l, obs, so)
            if fk in known_open:
                known_hits.setdefault(fk, []).append(l)
                continue
            violations.append(("impl-vs-spec", fam.describe_spec_failure(l, obs, so), [l], so, obs, fam, fk))
        for (l, obs, mo) in r["model_diff"]:
            model_diffs_all.append((fam, l, obs, mo))

    # ---------------------------------------------------------------- search for a failing input (escalation)
    # a proof obligation, the translator or the correspondence broke but the quick scenarios satisfy the Spec: widen the
    # implementation-vs-Spec search to the thorough generators (other seed), within a time budget, before giving up
    escalated = 0
    if tier == "quick" and not args.replay and not violations and (failed_thms or translator_failed or model_diffs_all or not ok_drv):
        budget = float(os.environ.get("VERIF_ESCALATION_S", "240"))
        t_esc = time.time()
        rng2 = C.Rng(seed + 1)
        for fam in plugin.FAMILIES:
            if time.time() - t_esc > budget or violations:
                break
            try:
                more = fam.generate("thorough", rng2)
            except Exception as e:   # a generator must never take the check down
                notes.append(f"escalation: generator of {fam.name} failed: {e}")
                continue
            seen = set()
            more = [l for l in more if not (l in seen or seen.add(l))]
            keep_model = fam.has_model
            fam.has_model = False    # Spec verdicts only
            for i in range(0, len(more), 20000):
                if time.time() - t_esc > budget or violations:
                    break
                chunk = more[i:i + 20000]
                r = classify_family(fam, chunk, "thorough", args.jobs)
                escalated += len(chunk)
                for (l, obs, so) in r["spec_fail"]:
                    fk = fam.finding_key(l, obs, so)
                    if fk in known_open:
                        continue
                    violations.append(("impl-vs-spec", fam.describe_spec_failure(l, obs, so), [l], so, obs, fam, fk))
            fam.has_model = keep_model
        total_eval += escalated
        notes.append(f"escalation: {escalated} further scenarios (thorough generators, seed+1) searched for a failing input in "
                     f"{time.time() - t_esc:.0f}s; found {len(violations)}")

    # ---------------------------------------------------------------- verdict
    wall = time.time() - t0
    exit_code = 0
    out_lines = []
    for fk, ls in known_hits.items():
        if C.KNOWN_OWNER.get(fk, prop) != prop:
            # a listed finding of another property seen through a shared family: that property's check reports it
            notes.append(f"listed finding of {C.KNOWN_OWNER[fk]} re-observed ({fk}, {len(ls)} scenario(s)); reported by its own check")
            continue
        out_lines.append(f"KNOWN-FINDING: property={prop} {fk}: {known_open[fk]} ({len(ls)} scenario(s), e.g. {ls[0][:160]})")
    shown = 0
    first_violation_path = None
    if violations:
        # report distinct failure descriptions, shrunk to the first scenario of each kind
        seen_kinds = set()
        for v in violations:
            (stream, what, scen, exp, obs) = v[:5]
            kind = v[6] if len(v) > 6 else what.split(":")[0]
            if kind in seen_kinds:
                continue
            seen_kinds.add(kind)
            if len(v) > 6 and scen and not args.replay:
                # shrink to a minimal step sequence with the same failure
                try:
                    small = shrink(v[5], scen[0], v[6])
                    if small != scen[0]:
                        bad, o2, so2 = spec_fails(v[5], small)
                        if bad:
                            scen, obs, exp = [small], o2, so2
                            what = v[5].describe_spec_failure(small, o2, so2)
                except Exception as e:  # shrinking is best effort
                    notes.append(f"shrink failed: {e}")
            path = C.write_replay(prop, seed, stream, what, scen, exp, obs)
            out_lines.append(f"VIOLATION property={prop} replay={path}")
            exit_code = 1
            shown += 1
            if shown >= 5:
                break
    if exit_code == 0 and model_diffs_all:
        fam, l, obs, mo = model_diffs_all[0]
        path = C.write_replay(prop, seed, "model-vs-impl",
                              f"correspondence family `{fam.name}` no longer agrees with the implementation "
                              f"({len(model_diffs_all)} diverging scenario(s)); the Spec held on every scenario tried",
                              [l], mo, obs)
        out_lines.append(f"VIOLATION property={prop} replay={path} no-failing-input-found")
        exit_code = 1
    if exit_code == 0 and (failed_thms or translator_failed):
        what = ""
        if failed_thms:
            what += "theorems that no longer check: " + ", ".join(failed_thms) + ". "
        if translator_failed:
            what += "untranslatable source items: " + "; ".join(notes)
        path = C.write_replay(prop, seed, "proof", what, [], note="implementation-vs-Spec search over "
                              f"{total_eval} scenarios of families {families_run} found no failing input")
        out_lines.append(f"VIOLATION property={prop} replay={path} no-failing-input-found")
        exit_code = 1
    if exit_code == 0 and (audit_problems or forb):
        what = "proof audit: " + "; ".join(audit_problems + forb)
        path = C.write_replay(prop, seed, "proof", what, [])
        out_lines.append(f"VIOLATION property={prop} replay={path} no-failing-input-found")
        exit_code = 1
    if exit_code == 0 and not ok_drv:
        path = C.write_replay(prop, seed, "model-vs-impl", "model driver does not build against the regenerated Gen/*.lean: "
                              + out_drv[-600:].replace("\n", " | "), [])
        out_lines.append(f"VIOLATION property={prop} replay={path} no-failing-input-found")
        exit_code = 1

    discharged = thm_count if ok_props and not audit_problems else 0
    obligations = max(thm_count, 1) if ok_props else max(sum(len(C.theorems_of(m)) for m in plugin.PROPS_MODULES), 1)
    coverage = {
        "obligations": obligations,
        "discharged": discharged,
        "checker_cmd": "lake build " + " ".join(f"VhostModel.Props.{m}" for m in plugin.PROPS_MODULES)
                       + " && #print axioms on every theorem" + (" && leanchecker" if tier == "thorough" else ""),
        "trusted_base": C.TRUSTED_BASE + getattr(plugin, "EXTRA_TRUSTED", []),
        "axioms": axioms,
        "theorems_failed": failed_thms,
        "translator": tr.get("status", {}),
        "evaluations": total_eval,
        "distinct_nontrivial": len(nontrivial),
        "rule": plugin.RULE,
        "samples": samples,
        "traces_validated_against_impl": total_eval - len(model_diffs_all),
        "model_disagreements": len(model_diffs_all),
        "spec_failures_unlisted": len(violations),
        "known_findings_reobserved": {k: len(v) for k, v in known_hits.items()},
        "input_distribution": dist,
        "families": families_run,
        "exhaustive": False,
    }
    if not args.replay:
        C.write_evidence(prop, tier, seed, coverage, wall, len(violations), getattr(plugin, "ASSUMPTIONS", []))
    log(f"[{prop}] tier={tier} seed={seed} theorems={discharged}/{obligations} scenarios={total_eval} "
        f"nontrivial={len(nontrivial)} model-diffs={len(model_diffs_all)} spec-failures={len(violations)} "
        f"known={sum(len(v) for v in known_hits.values())} wall={wall:.1f}s")
    for n in notes:
        log("note: " + n)
    for l in out_lines:
        log(l)
    sys.exit(exit_code)


if __name__ == "__main__":
    main()
