#!/usr/bin/env python3
"""Apply behaviour-preserving source changes (benign/<nn>-name/patch.diff) to /repo one at a time, run the checks whose models read
the touched files, revert; report per check: green / obligation-only (VIOLATION ... no-failing-input-found) / REPLAY (= false alarm).
usage: tools/run_benign.py <dir with */patch.diff> [name-prefix ...]"""
import json, os, re, subprocess, sys
V = os.path.dirname(os.path.dirname(os.path.abspath(__file__)))
D = os.path.abspath(sys.argv[1])
want = sys.argv[2:]
FILE_CHECKS = [("backend_req_handler.rs", ["C04", "C05", "C07", "C09"]), ("frontend.rs", ["C02", "C03", "C06", "C07", "C10"]),
               ("connection.rs", ["C08", "C09"]), ("gpu_message.rs", ["C20", "C01"]), ("message.rs", ["C20", "C01", "C02"]),
               ("gpu_backend_req.rs", ["C06", "C10", "C01"]), ("backend_req.rs", ["C18", "C10"]), ("frontend_req_handler.rs", ["C18", "C06"]),
               ("vhost-user-backend/src/handler.rs", ["C11", "C13", "C14", "C15", "C17", "C12"]), ("event_loop.rs", ["C12", "C17", "C16"]),
               ("vring.rs", ["C12", "C14"]), ("bitmap.rs", ["C15"]), ("vhost-user-backend/src/lib.rs", ["C16"]),
               ("vhost-user-backend/src/backend.rs", ["C14"]), ("vhost_kern", ["C19"]), ("vhost/src/backend.rs", ["C14", "C19"]),
               ("vhost_user/mod.rs", ["C08", "C05", "C20"])]
RES = os.path.join(D, "results.json")
res = json.load(open(RES)) if os.path.exists(RES) else {}
for name in sorted(os.listdir(D)):
    p = os.path.join(D, name, "patch.diff")
    if not os.path.exists(p) or (want and not any(name.startswith(w) for w in want)):
        continue
    files = re.findall(r"^\+\+\+ b/(\S+)", open(p).read(), re.M)
    checks = []
    for f in files:
        for key, cs in FILE_CHECKS:
            if key in f:
                checks += [c for c in cs if c not in checks]
    o = subprocess.run([sys.executable, os.path.join(V, "tools", "try_seeded.py"), p] + checks, capture_output=True, text=True)
    last = [l for l in o.stdout.splitlines() if l.startswith("{")]
    r = json.loads(last[-1]) if last else {}
    out = {}
    for c, v in r.items():
        viol = [l for l in v["lines"] if l.startswith("VIOLATION")]
        concrete = [l for l in viol if not l.rstrip().endswith("no-failing-input-found")]
        out[c] = "REPLAY" if concrete else ("obligation-only" if viol else "green")
    res[name] = {"files": files, "checks": out}
    print(name, files, out, flush=True)
    json.dump(res, open(os.path.join(D, "results.json"), "w"), indent=1, sort_keys=True)
