"""Translator extension for property C19 (kernel vhost / vDPA ioctl backends).

Picked up by tools/rs2lean.py through `generators(repo)`.  Emits lean/VhostModel/Gen/Ioctl.lean:

* `consts`      integer constants of vhost_kern/vhost_binding.rs
* `structs`     the `#[repr(C)]` structs and unions of vhost_binding.rs (layout is computed in Lean)
* `table`       every `ioctl_io*_nr!(NAME, ty, nr[, argty])` item
* `ops`         for every method of the kernel backends (vhost_kern/mod.rs, vdpa.rs, net.rs, vsock.rs) that
                issues an ioctl: which `VHOST_*()` request goes through which wrapper with which argument,
                and how the argument variable is initialised
* `lits`        every literal of a binding struct (and of `VhostIotlbMsg`) in those methods, field by field
* `delegates`   methods that issue nothing themselves but call `self.set_running(..)` / `self.send_iotlb_msg(..)`
* `iotlbWriter` the two branches of `send_iotlb_msg` (condition, struct, type constant, field assignments,
                the three arguments of `write`)
* `iotlbParsers` the two `VhostIotlbMsgParser` impls (type check, zero check, field assignments)

Everything is recognised at token level from fixed shapes; anything else raises `Untranslatable` naming file
and item (the check then treats the model as not regenerable, see DESIGN.md section 4).
"""
import os
import re

from rsparse import Untranslatable, tokenize, scan_items, impl_header, impl_fns, match_close, int_value, Item

FEATURES = ("vhost-user", "vhost-user-frontend", "vhost-user-backend", "vhost-kern", "vhost-vdpa",
            "vhost-net", "vhost-vsock", "postcopy")

BINDING = "vhost/src/vhost_kern/vhost_binding.rs"
KERN_FILES = ["vhost/src/vhost_kern/mod.rs", "vhost/src/vhost_kern/vdpa.rs", "vhost/src/vhost_kern/net.rs",
              "vhost/src/vhost_kern/vsock.rs"]

# C integer types on the supported hosts (LP64, x86-64 / aarch64)
CTYPES = {"c_char": 1, "c_schar": 1, "c_uchar": 1, "c_short": 2, "c_ushort": 2, "c_int": 4, "c_uint": 4,
          "c_long": 8, "c_ulong": 8, "c_longlong": 8, "c_ulonglong": 8,
          "u8": 1, "u16": 2, "u32": 4, "u64": 8, "i8": 1, "i16": 2, "i32": 4, "i64": 8, "usize": 8, "isize": 8}

MACROS = {"ioctl_io_nr": "io", "ioctl_ior_nr": "ior", "ioctl_iow_nr": "iow", "ioctl_iowr_nr": "iowr"}
WRAPPERS = ("ioctl", "ioctl_with_val", "ioctl_with_ref", "ioctl_with_mut_ref", "ioctl_with_ptr", "ioctl_with_mut_ptr")
LIT_EXTRA = ("VhostIotlbMsg",)


def canon(toks):
    """canonical text of a token run: no spaces except between two word-like tokens"""
    out = []
    prev_word = False
    for t in toks:
        s = t.text if hasattr(t, "text") else t
        word = bool(re.match(r"[A-Za-z0-9_]", s[-1])) and bool(re.match(r"[A-Za-z0-9_]", s[0]))
        if prev_word and word:
            out.append(" ")
        out.append(s)
        prev_word = word
    return "".join(out)


def lstr(s):
    return '"' + s.replace("\\", "\\\\").replace('"', '\\"') + '"'


def lpath(p):
    """dotted member path -> Lean list of strings"""
    return "[" + ", ".join(lstr(x) for x in p.split(".")) + "]"


def split_commas(toks):
    parts, cur, i = [], [], 0
    while i < len(toks):
        t = toks[i]
        if t.text in ("(", "[", "{"):
            k = match_close(toks, i)
            cur.extend(toks[i:k + 1])
            i = k + 1
            continue
        if t.text == "<" and cur and cur[-1].text == "::":
            # turbofish: copy up to the matching `>`
            depth = 0
            while True:
                x = toks[i]
                if x.text == "<":
                    depth += 1
                elif x.text == ">":
                    depth -= 1
                elif x.text == ">>":
                    depth -= 2
                cur.append(x)
                i += 1
                if depth <= 0:
                    break
            continue
        if t.text == ",":
            parts.append(cur)
            cur = []
        else:
            cur.append(t)
        i += 1
    if cur:
        parts.append(cur)
    return parts


# ------------------------------------------------------------------------------------------
# vhost_binding.rs


def type_size_expr(ts, structs, where):
    """token list of a field / argument type -> Lean FieldTy expression"""
    txt = "".join(t.text for t in ts)
    txt = re.sub(r"^(::)?(std::os::)?raw::", "", txt)
    if txt in CTYPES:
        return f"(.int {CTYPES[txt]})"
    m = re.match(r"\[(.+);(\d+)(usize)?\]$", txt)
    if m:
        inner_txt = m.group(1)
        inner_toks = tokenize(inner_txt)
        return f"(.arr {type_size_expr(inner_toks, structs, where)} {int(m.group(2))})"
    m = re.match(r"__IncompleteArrayField<(.+)>$", txt)
    if m:
        # `#[repr(C)] struct __IncompleteArrayField<T>(PhantomData<T>)`: size 0, alignment 1
        type_size_expr(tokenize(m.group(1)), structs, where)   # the element type must itself be known
        return "(.arr (.int 1) 0)"
    if txt in structs:
        return f'(.struct "{txt}")'
    raise Untranslatable(f"{where}: unsupported type `{txt}`")


def read_binding(repo):
    path = os.path.join(repo, BINDING)
    src = open(path).read()
    toks = tokenize(src)
    if not re.search(r"#\[repr\(C\)\]\s*(#\[[^\]]*\]\s*)*pub struct __IncompleteArrayField<T>\(::std::marker::PhantomData<T>\);", src):
        raise Untranslatable(f"{BINDING}: __IncompleteArrayField is not the expected `#[repr(C)] struct (PhantomData<T>)`")
    items = scan_items(toks, FEATURES)
    consts = []
    structs = {}
    order = []
    for it in items:
        if it.kind == "const":
            t = it.toks
            eq = next(i for i, x in enumerate(t) if x.text == "=")
            ty = "".join(x.text for x in t[2:eq])
            ty = re.sub(r"^(::)?(std::os::)?raw::", "", ty)
            if ty not in CTYPES:
                continue
            val = t[eq + 1:]
            if len(val) == 1 and val[0].kind == "int":
                v = int_value(val[0])
            elif len(val) == 2 and val[0].kind == "int" and val[1].kind == "intsuffix":
                v = int_value(val[0])
            else:
                raise Untranslatable(f"{BINDING}: const {it.name}: value is not an integer literal")
            consts.append((it.name, v))
        elif it.kind in ("struct", "union"):
            reprs = [a for a in it.attrs if a.startswith("#[repr(")]
            if not reprs:
                continue   # plain Rust helper types (VhostMemory) carry no layout promise
            if reprs != ["#[repr(C)]"]:
                raise Untranslatable(f"{BINDING}: {it.kind} {it.name}: unexpected {reprs}")
            fields = []
            t = it.toks
            i = 0
            while i < len(t):
                if t[i].text == "#":
                    i = match_close(t, i + 1) + 1
                    continue
                if t[i].text == "pub":
                    i += 1
                    if t[i].text == "(":
                        i = match_close(t, i) + 1
                    continue
                fname = t[i].text
                if t[i + 1].text != ":":
                    raise Untranslatable(f"{BINDING}: {it.name}: field syntax at line {t[i].line}")
                j = i + 2
                depth = 0
                while j < len(t):
                    if t[j].text in ("<", "[", "("):
                        depth += 1
                    elif t[j].text in (">", "]", ")"):
                        depth -= 1
                    elif t[j].text == "," and depth == 0:
                        break
                    j += 1
                fields.append((fname, t[i + 2:j]))
                i = j + 1
            structs[it.name] = (it.kind, fields)
            order.append(it.name)
    # ioctl macros (top level)
    table = []
    i, n = 0, len(toks)
    depth = 0
    cmap = dict(consts)
    while i < n:
        t = toks[i]
        if t.text in ("{", "(", "["):
            i = match_close(toks, i) + 1
            continue
        if t.kind == "ident" and t.text.startswith("ioctl_") and i + 1 < n and toks[i + 1].text == "!":
            if t.text not in MACROS:
                raise Untranslatable(f"{BINDING}: line {t.line}: unknown ioctl macro `{t.text}!`")
            k = match_close(toks, i + 2)
            args = split_commas(toks[i + 3:k])
            kind = MACROS[t.text]
            want = 3 if kind == "io" else 4
            if len(args) != want:
                raise Untranslatable(f"{BINDING}: line {t.line}: `{t.text}!` with {len(args)} arguments")
            if len(args[0]) != 1 or args[0][0].kind != "ident":
                raise Untranslatable(f"{BINDING}: line {t.line}: ioctl name is not an identifier")
            name = args[0][0].text
            if len(args[1]) != 1 or args[1][0].text not in cmap:
                raise Untranslatable(f"{BINDING}: {name}: ioctl type `{canon(args[1])}` is not a known constant")
            ty = cmap[args[1][0].text]
            if not (len(args[2]) == 1 and args[2][0].kind == "int"):
                raise Untranslatable(f"{BINDING}: {name}: ioctl number is not an integer literal")
            nr = int_value(args[2][0])
            arg = None
            if kind != "io":
                arg = type_size_expr(args[3], structs, f"{BINDING}: {name}")
            table.append((name, kind, ty, nr, arg))
            i = k + 1
            continue
        i += 1
    if not table:
        raise Untranslatable(f"{BINDING}: no ioctl_io*_nr! items found")
    names = [r[0] for r in table]
    if len(set(names)) != len(names):
        raise Untranslatable(f"{BINDING}: duplicate ioctl names")
    return consts, structs, order, table


# ------------------------------------------------------------------------------------------
# kernel backend methods


def scoped_fns(repo, rel):
    """[(scope, fn name, body tokens)] for impl blocks and for traits with default methods"""
    src = open(os.path.join(repo, rel)).read()
    toks = tokenize(src)
    out = []
    for it in scan_items(toks, FEATURES):
        if it.kind != "impl":
            continue
        trait, ty = impl_header(it)
        scope = trait if trait else ty
        if scope == "VhostIotlbMsgParser":
            scope = "VhostIotlbMsgParser:" + ty
        for name, attrs, params, ret, body in impl_fns(it, FEATURES):
            if body is not None:
                out.append((scope, name, body))
    # traits (default methods): `trait NAME ... { ... }` at top level
    i, n = 0, len(toks)
    attrs_excluded = False
    while i < n:
        t = toks[i]
        if t.text == "#" and toks[i + 1].text == "[":
            k = match_close(toks, i + 1)
            a = "".join(x.text for x in toks[i:k + 1])
            if a == "#[cfg(test)]":
                attrs_excluded = True
            i = k + 1
            continue
        if t.kind == "ident" and t.text == "mod":
            j = i
            while toks[j].text not in ("{", ";"):
                j += 1
            i = (match_close(toks, j) if toks[j].text == "{" else j) + 1
            attrs_excluded = False
            continue
        if t.kind == "ident" and t.text == "trait":
            name = toks[i + 1].text
            j = i + 2
            while toks[j].text != "{":
                j += 1
            k = match_close(toks, j)
            for fname, attrs, params, ret, body in impl_fns(Item("impl", None, [], toks[j + 1:k]), FEATURES):
                if body is not None:
                    out.append((name, fname, body))
            i = k + 1
            continue
        if t.text in ("{",):
            i = match_close(toks, i) + 1
            continue
        i += 1
    return out


def find_struct_lits(body, names):
    """[(struct, [(field, canon expr)], token index)] for every `NAME { .. }` literal in a fn body"""
    out = []
    i = 0
    while i < len(body):
        t = body[i]
        if (t.kind == "ident" and t.text in names and i + 1 < len(body) and body[i + 1].text == "{"
                and (i == 0 or body[i - 1].text not in ("struct", "impl", "for", "union", "::", "<"))):
            k = match_close(body, i + 1)
            fields = []
            for part in split_commas(body[i + 2:k]):
                if not part:
                    continue
                if part[0].text == "..":
                    fields.append(("..", canon(part[1:])))
                elif len(part) >= 2 and part[1].text == ":":
                    fields.append((part[0].text, canon(part[2:])))
                elif len(part) == 1:
                    fields.append((part[0].text, part[0].text))
                else:
                    raise Untranslatable(f"struct literal {t.text}: unrecognised field `{canon(part)}`")
            out.append((t.text, fields, i))
            # nested literals inside field expressions are found by continuing the scan inside
            i += 2
            continue
        i += 1
    return out


def let_binding(body, var, names):
    """initialiser of `let [mut] var [: T] = ...;` -> [(field, expr)] (struct literal) or [("=", expr)]"""
    i = 0
    while i < len(body):
        if body[i].text == "let":
            j = i + 1
            if body[j].text == "mut":
                j += 1
            if body[j].text == var:
                k = j + 1
                while body[k].text != "=":
                    k += 1
                e = k + 1
                end = e
                while body[end].text != ";":
                    if body[end].text in ("(", "[", "{"):
                        end = match_close(body, end)
                    end += 1
                expr = body[e:end]
                lits = find_struct_lits(expr, names)
                if lits and lits[0][2] == 0 and match_close(expr, 1) == len(expr) - 1:
                    return [(f, x) for f, x in lits[0][1]], lits[0][0]
                return [("=", canon(expr))], None
        i += 1
    return [], None


def extract_ops(repo, table_names, struct_names):
    ops, lits, delegates = [], [], []
    writer, parsers = None, []
    lit_names = set(struct_names) | set(LIT_EXTRA)
    seen_scopes = set()
    for rel in KERN_FILES:
        for scope, fname, body in scoped_fns(repo, rel):
            where = f"{rel}: {scope}::{fname}"
            seen_scopes.add(scope)
            calls = []
            i = 0
            while i < len(body):
                t = body[i]
                if t.kind == "ident" and t.text.startswith("ioctl") and t.text != "ioctl_result":
                    if t.text not in WRAPPERS or i + 1 >= len(body) or body[i + 1].text != "(":
                        raise Untranslatable(f"{where}: unrecognised use of `{t.text}`")
                    if i > 0 and body[i - 1].text in (".", "::"):
                        raise Untranslatable(f"{where}: `{t.text}` reached through a path or method call")
                    k = match_close(body, i + 1)
                    args = split_commas(body[i + 2:k])
                    want = 2 if t.text == "ioctl" else 3
                    if len(args) != want:
                        raise Untranslatable(f"{where}: `{t.text}` with {len(args)} arguments")
                    fd = canon(args[0])
                    if fd not in ("self", "&self.fd"):
                        raise Untranslatable(f"{where}: ioctl on `{fd}` (expected `self` or `&self.fd`)")
                    r = args[1]
                    if not (len(r) == 3 and r[0].kind == "ident" and r[1].text == "(" and r[2].text == ")"):
                        raise Untranslatable(f"{where}: request argument `{canon(r)}` is not `NAME()`")
                    if r[0].text not in table_names:
                        raise Untranslatable(f"{where}: request `{r[0].text}` has no ioctl_io*_nr! definition")
                    arg = canon(args[2]) if want == 3 else ""
                    calls.append((t.text, r[0].text, fd, arg, args[2] if want == 3 else []))
                    i = k + 1
                    continue
                i += 1
            if len(calls) > 1:
                raise Untranslatable(f"{where}: more than one ioctl in one method")
            for sname, fields, _ in find_struct_lits(body, lit_names):
                lits.append((scope, fname, sname, fields))
            has_write = any(body[j].text == "write" and j + 1 < len(body) and body[j + 1].text == "("
                            and (j == 0 or body[j - 1].text != ".") for j in range(len(body)))
            if has_write and not (scope == "VhostIotlbBackend" and fname == "send_iotlb_msg"):
                raise Untranslatable(f"{where}: unexpected call of write()")
            if calls:
                w, req, fd, arg, argtoks = calls[0]
                inits = []
                m = re.match(r"&(mut )?([A-Za-z_][A-Za-z0-9_]*)$", arg)
                base = m.group(2) if m else (argtoks[0].text if argtoks and argtoks[0].kind == "ident" else None)
                if base:
                    inits, _ = let_binding(body, base, lit_names)
                ops.append((scope, fname, w, req, fd, arg, inits))
            elif scope == "VhostIotlbBackend" and fname == "send_iotlb_msg":
                writer = extract_writer(body, where, struct_names)
            elif scope.startswith("VhostIotlbMsgParser:"):
                parsers.append(extract_parser(scope.split(":", 1)[1], body, where))
            else:
                for j in range(len(body) - 3):
                    if (body[j].text == "self" and body[j + 1].text == "." and body[j + 2].text in ("set_running", "send_iotlb_msg")
                            and body[j + 3].text == "("):
                        k = match_close(body, j + 3)
                        delegates.append((scope, fname, body[j + 2].text, [canon(a) for a in split_commas(body[j + 4:k])]))
    need = {"VhostBackend", "VhostKernFeatures", "VhostIotlbBackend", "VhostVdpa", "VhostNet", "VhostVsock"}
    if not need <= seen_scopes:
        raise Untranslatable(f"kernel backends: impl/trait blocks not found: {sorted(need - seen_scopes)}")
    if writer is None:
        raise Untranslatable("vhost_kern/mod.rs: send_iotlb_msg not found")
    if len(parsers) != 2:
        raise Untranslatable("vhost_kern/mod.rs: expected two VhostIotlbMsgParser impls")
    return ops, lits, delegates, writer, parsers


def extract_writer(body, where, struct_names):
    """`if COND { .. } else { .. }` with one struct literal, field assignments and one write() per branch"""
    i = 0
    while i < len(body) and body[i].text != "if":
        i += 1
    if i == len(body):
        raise Untranslatable(f"{where}: no `if` selecting the message version")
    j = i + 1
    while body[j].text != "{":
        if body[j].text in ("(", "["):
            j = match_close(body, j)
        j += 1
    cond = canon(body[i + 1:j])
    k = match_close(body, j)
    if body[k + 1].text != "else" or body[k + 2].text != "{":
        raise Untranslatable(f"{where}: version selection without `else` block")
    k2 = match_close(body, k + 2)
    rest = [t.text for t in body[k2 + 1:]]
    if "if" in rest or "write" in rest:
        raise Untranslatable(f"{where}: statements after the version selection")
    branches = []
    for c, blk in ((cond, body[j + 1:k]), ("", body[k + 3:k2])):
        lits = find_struct_lits(blk, struct_names)
        if len(lits) != 1:
            raise Untranslatable(f"{where}: expected exactly one message literal per branch")
        sname, fields, at = lits[0]
        if not (blk[at - 1].text == "=" and blk[at - 3].text in ("let", "mut")):
            raise Untranslatable(f"{where}: message literal is not bound by `let`")
        var = blk[at - 2].text
        tconst = dict(fields).get("type_")
        if tconst is None or [f for f, _ in fields] != ["type_", ".."] or dict(fields)[".."] != "Default::default()":
            raise Untranslatable(f"{where}: message literal is not `{sname} {{ type_: CONST, ..Default::default() }}`")
        assigns = []
        wargs = None
        p = match_close(blk, at + 1) + 1
        while p < len(blk):
            t = blk[p]
            if t.text == var and blk[p + 1].text == ".":
                q = p
                while blk[q].text != "=":
                    q += 1
                e = q + 1
                while blk[e].text != ";":
                    e += 1
                assigns.append((canon(blk[p + 2:q]), canon(blk[q + 1:e])))
                p = e + 1
                continue
            if t.text == "write" and blk[p + 1].text == "(":
                kk = match_close(blk, p + 1)
                a = split_commas(blk[p + 2:kk])
                if len(a) != 3 or wargs is not None:
                    raise Untranslatable(f"{where}: unexpected write() shape")
                wargs = [canon(x) for x in a]
                p = kk + 1
                continue
            if t.kind == "ident" and t.text not in ("ret", "unsafe") and t.text != ";":
                raise Untranslatable(f"{where}: unrecognised statement starting with `{t.text}` in a branch")
            p += 1
        if wargs is None:
            raise Untranslatable(f"{where}: branch without write()")
        branches.append((c, sname, tconst, assigns, wargs))
    return branches


def extract_parser(sname, body, where):
    """if self.type_ != CONST { return Err(..) } unsafe { if self.PATH == 0 { return Err(..) } msg.F = ..; .. } Ok(())"""
    txt = canon(body)
    m = re.match(r"if self\.type_!=([A-Z0-9_]+)\{return Err\(Error::InvalidIotlbMsg\);\}unsafe\{if self\.([A-Za-z0-9_.]+)==0\{"
                 r"return Err\(Error::InvalidIotlbMsg\);\}(.*)\}Ok\(\(\)\)$", txt)
    if not m:
        raise Untranslatable(f"{where}: parser body has an unrecognised shape")
    tconst, zero, rest = m.group(1), m.group(2), m.group(3)
    assigns = []
    for st in [s for s in rest.split(";") if s]:
        m2 = re.match(r"msg\.([a-z_]+)=self\.([A-Za-z0-9_.]+)$", st)
        m3 = re.match(r"msg\.([a-z_]+)=mem::transmute::<u8,([A-Za-z]+)>\(self\.([A-Za-z0-9_.]+)\)$", st)
        if m2:
            assigns.append((m2.group(1), m2.group(2), ""))
        elif m3:
            assigns.append((m3.group(1), m3.group(3), m3.group(2)))
        else:
            raise Untranslatable(f"{where}: unrecognised statement `{st}`")
    return (sname, tconst, zero, assigns)


# ------------------------------------------------------------------------------------------
# output


def gen_ioctl(repo):
    consts, structs, order, table = read_binding(repo)
    ops, lits, delegates, writer, parsers = extract_ops(repo, {r[0] for r in table}, set(structs))
    o = ["-- GENERATED by tools/rs2lean.py (tools/rs2lean_kern.py) from /repo — do not edit.", "import VhostModel.Base",
         "import VhostModel.Base.Ioctl", "", "namespace Gen.Ioctl", "open Base", ""]
    o.append(f"/-- integer constants of {BINDING} -/")
    o.append("def consts : List (String × Nat) := [")
    o.append(",\n".join(f"  ({lstr(n)}, 0x{v:x})" for n, v in consts))
    o.append("]")
    o.append("")
    o.append(f"/-- `#[repr(C)]` structs and unions of {BINDING}, fields in declaration order -/")
    o.append("def structs : List StructDef := [")
    rows = []
    for name in order:
        kind, fields = structs[name]
        fs = ", ".join(f'({lstr(fn)}, {type_size_expr(ft, structs, BINDING + ": " + name + "." + fn)})' for fn, ft in fields)
        rows.append(f'  {{ name := {lstr(name)}, repr := {".union" if kind == "union" else ".c"}, fields := [{fs}] }}')
    o.append(",\n".join(rows))
    o.append("]")
    o.append("")
    o.append("/-- every `ioctl_io*_nr!(NAME, ty, nr[, argty])` item -/")
    o.append("def table : List IoctlRow := [")
    o.append(",\n".join(
        f'  {{ name := {lstr(n)}, kind := .{k}, ty := 0x{ty:x}, nr := 0x{nr:x}, arg := {("some " + a) if a else "none"} }}'
        for n, k, ty, nr, a in table))
    o.append("]")
    o.append("")
    o.append("/-- per method: wrapper, request, descriptor expression, argument expression, initialiser of the argument -/")
    o.append("def ops : List OpRow := [")
    o.append(",\n".join(
        f'  {{ scope := {lstr(s)}, method := {lstr(f)}, wrapper := {lstr(w)}, request := {lstr(r)}, fd := {lstr(fd)}, '
        f'arg := {lstr(a)}, inits := [{", ".join("(" + lstr(x) + ", " + lstr(y) + ")" for x, y in ini)}] }}'
        for s, f, w, r, fd, a, ini in ops))
    o.append("]")
    o.append("")
    o.append("/-- struct literals of binding types in the backend methods: (scope, method, struct, field initialisers) -/")
    o.append("def lits : List (String × String × String × List (String × String)) := [")
    o.append(",\n".join(
        f'  ({lstr(s)}, {lstr(f)}, {lstr(n)}, [{", ".join("(" + lstr(x) + ", " + lstr(y) + ")" for x, y in fs)}])'
        for s, f, n, fs in lits))
    o.append("]")
    o.append("")
    o.append("/-- methods that only delegate: (scope, method, callee, arguments) -/")
    o.append("def delegates : List (String × String × String × List String) := [")
    o.append(",\n".join(f'  ({lstr(s)}, {lstr(f)}, {lstr(c)}, [{", ".join(lstr(a) for a in args)}])' for s, f, c, args in delegates))
    o.append("]")
    o.append("")
    o.append("/-- `send_iotlb_msg`: the `if` branch (cond ≠ \"\") and the `else` branch -/")
    o.append("def iotlbWriter : List IotlbBranch := [")
    o.append(",\n".join(
        f'  {{ cond := {lstr(c)}, struct := {lstr(s)}, typeConst := {lstr(tc)}, '
        f'assigns := [{", ".join("(" + lpath(x) + ", " + lstr(y) + ")" for x, y in asg)}], '
        f'writeArgs := [{", ".join(lstr(a) for a in wa)}] }}'
        for c, s, tc, asg, wa in writer))
    o.append("]")
    o.append("")
    o.append("/-- `impl VhostIotlbMsgParser for ..`: type check, zero check, (message field, source path, transmute target) -/")
    o.append("def iotlbParsers : List IotlbParser := [")
    o.append(",\n".join(
        f'  {{ struct := {lstr(s)}, typeConst := {lstr(tc)}, zeroCheck := {lpath(z)}, '
        f'assigns := [{", ".join("(" + lstr(x) + ", " + lpath(y) + ", " + lstr(zz) + ")" for x, y, zz in asg)}] }}'
        for s, tc, z, asg in parsers))
    o.append("]")
    o.append("")
    o.append("end Gen.Ioctl")
    return "\n".join(o) + "\n"


def generators(repo):
    return [("Ioctl", lambda world: gen_ioctl(repo))]
