"""Translator extension: the frontend endpoint (vhost/src/vhost_user/frontend.rs) -> lean/VhostModel/Gen/FrontendOps.lean.

For every method of `impl VhostBackend for Frontend` and `impl VhostUserFrontend for Frontend`, in source order, one
row (two for a method whose tail is an `if … else …` with a send in either branch):

  * the ordered *local checks* in front of the send — the method's own (`if COND { return error_code(E) }`,
    `node.check_feature(F)?`, `node.check_proto_feature(F)?`) followed by those of the `FrontendInternal` send helper
    the method calls (`send_request_header`, `send_request_with_body`, `send_request_with_payload`,
    `send_fd_for_vring`), each with the error it raises.  Feature constants are resolved to bit numbers, named
    constants to their values; which feature word (`virtio_features` / `acked_virtio_features` /
    `acked_protocol_features`) `check_feature` / `check_proto_feature` test is read from their bodies;
  * the `FrontendReq::X` sent (resolved to its number), the body type, whether descriptors are attached;
  * the await kind (nothing, `wait_for_ack`, `recv_reply::<T>`, `recv_reply_with_optional_files::<T>`,
    `recv_reply_with_files::<T>`, `recv_reply_with_payload::<T>`);
  * the assignments to fields of `node`, each marked as made before or after the reply is read;
  * what the method does with the reply (conditions rendered as text, errors, `take_single_file`).

A second table lists, per helper method of `FrontendInternal`, its statements in order.

Every statement of every method body must be of a known shape: anything else raises `Untranslatable` naming the file,
the method and the statement, so a source change cannot silently drop out of the table.

Picked up by tools/rs2lean.py through `generators(repo)`.
"""
import os

from rsparse import (Untranslatable, tokenize, scan_items, impl_header, impl_fns, Node, Parser, match_close)
from rs2lean import FEATURES, LEAN_HEADER

REL = "vhost/src/vhost_user/frontend.rs"
BACKEND_REL = "vhost/src/backend.rs"

TRAITS = ("VhostBackend", "VhostUserFrontend")
SEND_HELPERS = ("send_request_header", "send_request_with_body", "send_request_with_payload", "send_fd_for_vring")
RECV_HELPERS = ("recv_reply", "recv_reply_with_optional_files", "recv_reply_with_files", "recv_reply_with_payload")
OTHER_HELPERS = ("wait_for_ack", "check_feature", "check_proto_feature", "check_state", "new_request_header")
HELPERS = SEND_HELPERS + RECV_HELPERS + OTHER_HELPERS
NODE_FIELDS = ("virtio_features", "acked_virtio_features", "protocol_features", "acked_protocol_features",
               "protocol_features_ready", "max_queue_num", "error", "hdr_flags")


# ------------------------------------------------------------------------------------------
# parser: rsparse.Parser plus `for PAT in EXPR { .. }` (nested blocks parsed by the same class)


def normalize_tail_if(stmts):
    """`… ; if c { A } else { B }` as the value of a function body is the same program as `… ; if c { return A; } B`
    (one level, no `else if`): render both spellings alike"""
    if not stmts:
        return stmts
    last = stmts[-1]
    if last.op == "tail" and last.args[0] is not None and last.args[0].op == "if":
        c, th, el = last.args[0].args
        def is_err(n):
            return n is not None and n.op == "call" and n.args[0].op == "path" and n.args[0].args[-1] in ("error_code", "Err")
        # only the early-error shape: `if c { <error> } else { … }`
        if el is not None and el.op == "block" and th.op == "block" and len(th.args) == 1 and th.args[0].op == "tail" \
                and is_err(th.args[0].args[0]):
            th2 = Node("block", *(list(th.args[:-1]) + [Node("return", th.args[-1].args[0])]))
            return list(stmts[:-1]) + [Node("stmt", Node("if", c, th2, None))] + normalize_tail_if(list(el.args))
    return stmts



class FParser(Parser):
    def sub(self, toks):
        return FParser(toks, self.where)

    def block(self):
        stmts = []
        while self.peek().kind != "eof":
            if self.at("#"):
                if self.attrs():
                    sub = self.sub(self.t[self.i:])
                    sub.one_stmt()
                    self.i += sub.i
                continue
            if self.at("let"):
                self.eat()
                mut = False
                if self.at("mut"):
                    self.eat()
                    mut = True
                if self.at("("):
                    k = match_close(self.t, self.i)
                    name = " ".join(x.text for x in self.t[self.i:k + 1])
                    self.i = k + 1
                else:
                    name = self.eat().text
                ty = None
                if self.at(":"):
                    self.eat()
                    ty = self.type_()
                self.eat("=")
                e = self.expr()
                self.eat(";")
                if not (name == "_" and e is not None and e.op == "ref" and e.args and e.args[0] is not None and e.args[0].op == "path"):   # `let _ = &x;` does nothing
                    stmts.append(Node("let", name, e, ty=ty, mut=mut))
            elif self.at("return"):
                self.eat()
                e = None if self.at(";") else self.expr()
                if self.at(";"):
                    self.eat()
                stmts.append(Node("return", e))
            else:
                e = self.expr()
                if self.peek().kind == "punct" and self.peek().text in ("=", "+=", "-=", "|=", "&=", "^=", "*=", "/=",
                                                                        "<<=", ">>="):
                    op = self.eat().text
                    rhs = self.expr()
                    e = Node("assign", op, e, rhs)
                if self.at(";"):
                    self.eat()
                    if e.op == "macro" and e.args and e.args[0] in ("debug_assert", "debug_assert_eq", "debug_assert_ne"):
                        continue   # no release semantics; a failing one panics in the correspondence runs (debug assertions on)
                    stmts.append(Node("stmt", e))
                elif e.op in ("if", "match", "block", "for") and self.peek().kind != "eof":
                    stmts.append(Node("stmt", e))
                else:
                    stmts.append(Node("tail", e))
        return stmts

    def primary(self):
        t = self.peek()
        if t.kind == "ident" and t.text == "for":
            self.eat()
            pat = []
            while not (self.peek().kind == "ident" and self.peek().text == "in"):
                if self.peek().kind == "eof":
                    self.err("`for` without `in`")
                pat.append(self.eat().text)
            self.eat("in")
            self.no_struct += 1
            it = self.expr()
            self.no_struct -= 1
            body = self.block_expr()
            return Node("for", " ".join(pat), it, body)
        if t.kind == "ident" and t.text in ("loop", "while", "break", "continue"):
            self.err(f"`{t.text}` is outside the translated subset")
        if t.text == "{":
            k = match_close(self.t, self.i)
            inner = self.sub(self.t[self.i + 1:k]).block()
            self.i = k + 1
            return Node("block", *inner)
        if t.kind == "ident" and t.text == "unsafe":
            self.eat()
            return self.primary()
        return super().primary()

    def block_expr(self):
        if not self.at("{"):
            self.err("expected block")
        k = match_close(self.t, self.i)
        inner = self.sub(self.t[self.i + 1:k]).block()
        self.i = k + 1
        return Node("block", *inner)

    def match_(self):
        self.eat("match")
        self.no_struct += 1
        scrut = self.expr()
        self.no_struct -= 1
        if not self.at("{"):
            self.err("expected match body")
        k = match_close(self.t, self.i)
        p = self.sub(self.t[self.i + 1:k])
        self.i = k + 1
        arms = []
        while p.peek().kind != "eof":
            skip = p.attrs() if p.at("#") else False
            pat = p.pattern()
            guard = None
            if p.at("if"):
                p.eat()
                guard = p.expr()
            p.eat("=>")
            if p.at("return"):
                p.eat()
                body = Node("return", None if p.at(",") else p.expr())
            else:
                body = p.expr()
            if p.at(","):
                p.eat()
            if not skip:
                arms.append((pat, guard, body))
        return Node("match", scrut, arms)


# ------------------------------------------------------------------------------------------
# small expression helpers


def strip(n):
    """peel try / ref / paren"""
    while n is not None and n.op in ("try", "ref", "paren"):
        n = n.args[0]
    return n


def unparen(n):
    while n is not None and n.op == "paren":
        n = n.args[0]
    return n


def is_path(n, *names):
    return n is not None and n.op == "path" and list(n.args) == list(names) and not n.kw.get("generics")


def is_field(n, recv, name=None):
    return n is not None and n.op == "field" and is_path(n.args[0], recv) and (name is None or n.args[1] == name)


def is_int(n, v=None):
    n = unparen(n)
    return n is not None and n.op == "int" and (v is None or n.args[0] == v)


def render(n):
    """canonical text of an expression (used for reply post-processing conditions and returned values)"""
    if n is None:
        return ""
    op = n.op
    if op == "int":
        return str(n.args[0])
    if op == "str":
        return n.args[0]
    if op == "unit":
        return "()"
    if op == "path":
        s = "::".join(n.args)
        g = n.kw.get("generics")
        return s + ("::<" + ",".join(g) + ">" if g else "")
    if op == "field":
        return f"{render(n.args[0])}.{n.args[1]}"
    if op == "mcall":
        tf = n.kw.get("turbofish")
        return f"{render(n.args[0])}.{n.args[1]}{'::<' + tf + '>' if tf else ''}({', '.join(render(a) for a in n.args[2:])})"
    if op == "call":
        return f"{render(n.args[0])}({', '.join(render(a) for a in n.args[1:])})"
    if op == "bin":
        return f"{render(n.args[1])} {n.args[0]} {render(n.args[2])}"
    if op == "not":
        return "!" + render(n.args[0])
    if op == "neg":
        return "-" + render(n.args[0])
    if op == "paren":
        return "(" + render(n.args[0]) + ")"
    if op == "ref":
        return "&" + render(n.args[0])
    if op == "deref":
        return "*" + render(n.args[0])
    if op == "cast":
        return f"{render(n.args[0])} as {n.args[1]}"
    if op == "try":
        return render(n.args[0]) + "?"
    if op == "tuple":
        return "(" + ", ".join(render(a) for a in n.args) + ")"
    if op == "index":
        return f"{render(n.args[0])}[{render(n.args[1])}]"
    if op == "array":
        return "[" + n.args[0].replace(" ", "") + "]"
    if op == "assign":
        return f"{render(n.args[1])} {n.args[0]} {render(n.args[2])}"
    if op == "closure":
        return "|" + ", ".join(n.args[0]) + "| " + render(n.args[1])
    raise Untranslatable(f"{REL}: cannot render expression {n!r}"[:300])


def lean_str(s):
    if '"' in s or "\\" in s or "\n" in s:
        raise Untranslatable(f"{REL}: text not representable as a Lean string literal: {s!r}")
    return '"' + s + '"'


def short(n):
    try:
        return render(n.args[1] if n.op == "let" else n.args[0]) if n.op in ("let", "stmt", "tail", "return") else render(n)
    except Untranslatable:
        return repr(n)[:300]


def err_of(e):
    """`error_code(VhostUserError::E [(..)])` / `Err(VhostUserError::E [(..)])` -> E"""
    e = unparen(e)
    if e is not None and e.op == "call" and e.args[0].op == "path" and e.args[0].args in (["error_code"], ["Err"]) \
            and len(e.args) == 2:
        x = unparen(e.args[1])
        if x.op == "call":
            x = x.args[0]
        if x.op == "path" and len(x.args) == 2 and x.args[0] == "VhostUserError":
            return x.args[1]
    return None


def only_return_err(block):
    """block is `{ return error_code(E); }` / `{ return Err(E); }` -> E"""
    if block is None or block.op != "block" or len(block.args) != 1:
        return None
    s = block.args[0]
    if s.op == "return":
        return err_of(s.args[0])
    return None


def split_params(params, where):
    """[(name, type text)] of a fn's parameter tokens (the receiver is dropped)"""
    out, cur, depth = [], [], 0
    parts = []
    for t in params:
        if t.text in ("(", "[", "{", "<"):
            depth += 1
        elif t.text in (")", "]", "}", ">"):
            depth -= 1
        elif t.text == ">>":
            depth -= 2
        if t.text == "," and depth == 0:
            parts.append(cur)
            cur = []
        else:
            cur.append(t)
    if cur:
        parts.append(cur)
    for p in parts:
        txt = [t.text for t in p]
        if txt in (["&", "self"], ["&", "mut", "self"], ["self"]):
            continue
        if len(p) < 3 or p[0].kind != "ident" or p[1].text != ":":
            raise Untranslatable(f"{where}: parameter `{' '.join(txt)}` is not `name: Type`")
        out.append((p[0].text, "".join(txt[2:])))
    return out


def base_type(ty):
    """`&T`, `&mut T`, `Option<T>` -> T (text)"""
    ty = ty.lstrip("&")
    if ty.startswith("mut"):
        ty = ty[3:]
    if ty.startswith("dyn"):
        ty = ty[3:]
    return ty


# ------------------------------------------------------------------------------------------
# conditions


class Ctx:
    """what a condition may refer to: the receiver holding the node state (`node` in the API methods, `self` in the
    helpers), variable types, constants"""

    def __init__(self, world, where, recv, types, loop=None):
        self.world, self.where, self.recv, self.types, self.loop = world, where, recv, dict(types), loop
        self.lets = {}

    def fail(self, msg):
        raise Untranslatable(f"{self.where}: {msg}")

    def const(self, n):
        n = unparen(n)
        if n.op == "int":
            return n.args[0]
        if n.op == "path" and len(n.args) == 1 and n.args[0] in self.world.consts:
            return self.world.consts[n.args[0]][1]
        self.fail(f"`{render(n)}` is not a known constant")

    def flag_bit(self, n):
        """`Flags::NAME.bits()` -> (Flags, bit number)"""
        n = unparen(n)
        if n.op == "mcall" and n.args[1] == "bits" and len(n.args) == 2:
            n = unparen(n.args[0])
        else:
            return None
        if n.op == "path" and len(n.args) == 2 and n.args[0] in self.world.flags:
            return n.args[0], bit_of(self.world, n.args[0], n.args[1], self.where)
        return None


def bit_of(world, flags_ty, const, where):
    if flags_ty not in world.flags:
        raise Untranslatable(f"{where}: unknown flag set {flags_ty}")
    rty, consts = world.flags[flags_ty]
    for n, v in consts:
        if n == const:
            if v == 0 or v & (v - 1):
                raise Untranslatable(f"{where}: {flags_ty}::{const} is not a single bit")
            return v.bit_length() - 1
    raise Untranslatable(f"{where}: unknown flag {flags_ty}::{const}")


def disjuncts(c):
    c = unparen(c)
    if c.op == "bin" and c.args[0] == "||":
        return disjuncts(c.args[1]) + disjuncts(c.args[2])
    return [c]


def conjuncts(c):
    c = unparen(c)
    if c.op == "bin" and c.args[0] == "&&":
        return conjuncts(c.args[1]) + conjuncts(c.args[2])
    return [c]


def size_of_ty(n):
    """`mem::size_of::<T>()` -> T"""
    n = unparen(n)
    if n.op == "call" and n.args[0].op == "path" and n.args[0].args[-1] == "size_of" and len(n.args) == 1:
        g = n.args[0].kw.get("generics") or []
        if len(g) == 1:
            return g[0]
    return None


def cond_one(c, ctx):
    """one disjunct of a refusal condition -> Lean `FeCond` term"""
    c = unparen(c)
    w = ctx.world
    if c.op == "bin":
        op, a, b = c.args
        a, b = unparen(a), unparen(b)
        # queue_index as u64 >= R.max_queue_num
        if op == ">=" and a.op == "cast" and is_path(unparen(a.args[0]), "queue_index") and a.args[1] == "u64" and \
                is_field(b, ctx.recv, "max_queue_num"):
            return ".queueIdxOob"
        # queue_index > N
        if op == ">" and is_path(a, "queue_index"):
            return f".idxAbove {ctx.const(b)}"
        # X.flags & !(F::all().bits()) != 0
        if op == "!=" and is_int(b, 0) and a.op == "bin" and a.args[0] == "&":
            l, r = unparen(a.args[1]), unparen(a.args[2])
            if r.op == "not":
                m = unparen(r.args[0])
                if m.op == "mcall" and m.args[1] == "bits" and unparen(m.args[0]).op == "call" and \
                        unparen(m.args[0]).args[0].op == "path" and len(unparen(m.args[0]).args[0].args) == 2 and \
                        unparen(m.args[0]).args[0].args[1] == "all" and l.op == "field":
                    fl = unparen(m.args[0]).args[0].args[0]
                    if fl not in w.flags:
                        ctx.fail(f"unknown flag set {fl}")
                    allm = 0
                    for _, v in w.flags[fl][1]:
                        allm |= v
                    return f".flagsOutside {lean_str(render(l))} {lean_str(fl)} {allm}"
        # R.FIELD & F::X.bits() == 0
        if op == "==" and is_int(b, 0) and a.op == "bin" and a.args[0] == "&":
            l, r = unparen(a.args[1]), unparen(a.args[2])
            fb = ctx.flag_bit(r)
            if fb and l.op == "field" and is_path(l.args[0], ctx.recv):
                if l.args[1] == "acked_virtio_features" and fb[0] == "VhostUserVirtioFeatures":
                    return f".virtioMissing {fb[1]} true"
                if l.args[1] == "virtio_features" and fb[0] == "VhostUserVirtioFeatures":
                    return f".virtioMissing {fb[1]} false"
                if l.args[1] == "acked_protocol_features" and fb[0] == "VhostUserProtocolFeatures":
                    return f".protoMissing {fb[1]}"
        # X.len() > N
        if op == ">" and a.op == "mcall" and a.args[1] == "len" and len(a.args) == 2 and unparen(a.args[0]).op == "path" and \
                len(unparen(a.args[0]).args) == 1:
            v = unparen(a.args[0]).args[0]
            if v == ctx.lets.get("__fd_arr__"):
                return f".fdCountAbove {ctx.const(b)}"
            return f".lenAbove {lean_str(v)} {ctx.const(b)}"
        # size_of::<T>() > N
        if op == ">" and size_of_ty(a) is not None:
            return f".bodySizeAbove {ctx.const(b)}"
        # len > N with `let len = size_of::<T>() + payload.len()`
        if op == ">" and a.op == "path" and len(a.args) == 1 and ctx.lets.get(a.args[0]) == "size_of+payload":
            return f".msgSizeAbove {ctx.const(b)}"
        # X == 0 / X < 0 (argument or field of an argument)
        if op in ("==", "<") and is_int(b, 0) and (a.op == "path" and len(a.args) == 1 or
                                                   a.op == "field" and unparen(a.args[0]).op == "path"):
            if a.op == "field" and ctx.loop and is_path(unparen(a.args[0]), ctx.loop[0]):
                k = ".anyZero" if op == "==" else ".anyNegative"
                return f"{k} {lean_str(ctx.loop[1])} {lean_str(a.args[1])}"
            root = a.args[0] if a.op == "path" else unparen(a.args[0]).args[0]
            if root in (ctx.recv, "self", "node"):
                ctx.fail(f"unrecognised condition `{render(c)}`")
            return f"{'.zero' if op == '==' else '.negative'} {lean_str(render(a))}"
        # recv helpers
        if op == "<=" and a.op == "cast" and render(unparen(a.args[0])) == "hdr.get_size()" and size_of_ty(b) is not None:
            return ".hdrSizeLeBody"
        if op == ">" and a.op == "cast" and render(unparen(a.args[0])) == "hdr.get_size()":
            return f".hdrSizeAbove {ctx.const(b)}"
        if op == ">" and is_path(a, "payload_size") and is_path(b, "expected") and \
                ctx.lets.get("expected") == "hdr.size-size_of" and ctx.lets.get("payload_size") == "reply.size-size_of":
            return ".payloadExceeds"
        if op == "!=" and is_path(a, "bytes") and is_path(b, "payload_size") and ctx.lets.get("bytes") == "recv_data":
            return ".payloadShort"
        if op == "!=" and is_field(a, "body", "value") and is_int(b, 0) and ctx.lets.get("body") == "recv_body":
            return ".ackNonZero"
    if c.op == "mcall" and len(c.args) == 2 and unparen(c.args[0]).op == "path" and len(unparen(c.args[0]).args) == 1:
        v, m = unparen(c.args[0]).args[0], c.args[1]
        if m == "is_empty":
            return f".empty {lean_str(v)}"
        if m == "is_reply" and v == "hdr":
            return ".hdrIsReply"
        if m == "is_some" and ctx.lets.get(v) == "recv_files":
            return ".filesPresent"
        if m == "is_none" and ctx.lets.get(v) == "recv_files":
            return ".filesAbsent"
    if c.op == "not":
        x = unparen(c.args[0])
        if x.op == "mcall" and x.args[1] == "is_valid" and len(x.args) == 2 and unparen(x.args[0]).op == "path" and \
                len(unparen(x.args[0]).args) == 1:
            v = unparen(x.args[0]).args[0]
            if ctx.lets.get(v) == "recv_body":
                return ".replyInvalid"
            ty = ctx.types.get(v)
            if ty is None:
                ctx.fail(f"type of `{v}` in `{render(c)}` is not known")
            return f".invalid {lean_str(base_type(ty))}"
        if x.op == "mcall" and x.args[1] == "is_reply_for" and is_path(unparen(x.args[0]), "reply") and \
                len(x.args) == 3 and is_path(strip(x.args[2]), "hdr") and ctx.lets.get("reply") == "recv_hdr":
            return ".notReplyFor"
        if x.op == "mcall" and x.args[1] == "is_need_reply" and is_path(unparen(x.args[0]), "hdr") and len(x.args) == 2:
            return ".noNeedReply"
    ctx.fail(f"unrecognised condition `{render(c)}`")


def refusal_if(e, ctx):
    """`if C1 { return error(E1); } else if C2 { return error(E2); }` -> [(FeCond, E)] or None"""
    out = []
    while e is not None:
        if e.op != "if":
            return None
        cond, th, el = e.args
        if cond.op == "iflet":
            return None
        en = only_return_err(th)
        if en is None:
            return None
        for d in disjuncts(cond):
            out.append((cond_one(d, ctx), en))
        e = el
    return out


# ------------------------------------------------------------------------------------------
# helper methods of FrontendInternal


def self_call(n, name=None):
    """`self.NAME(..)` (under `?`) -> the mcall node"""
    n = strip(n)
    if n is not None and n.op == "mcall" and is_path(n.args[0], "self") and (name is None or n.args[1] == name):
        return n
    return None


def sock_call(n):
    """`self.main_sock.METHOD(..)` (under `?`) -> the mcall node"""
    n = strip(n)
    if n is not None and n.op == "mcall" and is_field(n.args[0], "self", "main_sock"):
        return n
    return None


def is_ok_unit(n):
    n = unparen(n)
    return n is not None and n.op == "call" and is_path(n.args[0], "Ok") and len(n.args) == 2 and unparen(n.args[1]).op == "unit"


def ok_value(n):
    n = unparen(n)
    if n is not None and n.op == "call" and is_path(n.args[0], "Ok") and len(n.args) == 2:
        return n.args[1]
    return None


def analyse_helper(world, name, params, body, where):
    """-> dict(steps=[Lean FeStep terms], checks=[(cond, err, guard)], size=.., sock=.., fds=.., body_ty=..)"""
    ps = split_params(params, where)
    types = dict(ps)
    ctx = Ctx(world, where, "self", types)
    stmts = FParser(body, where).block()
    steps = []
    info = dict(params=[p for p, _ in ps], checks=[], size=None, sock=None, fds=None, body_ty=None)

    def check(c, e, guard=None):
        info["checks"].append((c, e, guard))
        steps.append(f".check ({c}) {lean_str(e)}" if guard is None else f".checkIfFds ({c}) {lean_str(e)}")

    def size_expr(n):
        """header size argument -> "0" | "T" | "T+payload" | concrete type name"""
        n = unparen(n)
        if n.op == "int" and n.args[0] == 0:
            return "0"
        if n.op == "cast" and n.args[1] == "u32":
            x = unparen(n.args[0])
            t = size_of_ty(x)
            if t is not None:
                return t
            if x.op == "path" and len(x.args) == 1 and ctx.lets.get(x.args[0]) == "size_of+payload":
                return "T+payload"
        raise Untranslatable(f"{where}: unrecognised header size `{render(n)}`")

    for idx, s in enumerate(stmts):
        last = idx == len(stmts) - 1
        e = s.args[1] if s.op == "let" else s.args[0]
        what = f"statement `{short(s)}`"
        # early `if COND { return Ok(()) }` of wait_for_ack
        if s.op in ("stmt", "tail") and e.op == "if" and e.args[2] is None and e.args[0].op != "iflet" and \
                len(e.args[1].args) == 1 and e.args[1].args[0].op == "return" and is_ok_unit(e.args[1].args[0].args[0]):
            for d in disjuncts(e.args[0]):
                steps.append(f".skipIf ({cond_one(d, ctx)})")
            continue
        if s.op in ("stmt", "tail") and e.op == "if":
            # `if let Some(fd_arr) = fds { if fd_arr.len() > N { return Err(E) } }`
            if e.args[0].op == "iflet" and e.args[2] is None:
                pat, scrut = e.args[0].args
                inner = e.args[1].args
                if pat.replace(" ", "").startswith("Some(") and is_path(unparen(scrut), "fds") and len(inner) == 1 and \
                        inner[0].op in ("stmt", "tail"):
                    ctx.lets["__fd_arr__"] = pat.replace(" ", "")[5:-1]
                    r = refusal_if(inner[0].args[0], ctx)
                    del ctx.lets["__fd_arr__"]
                    if r:
                        for c, en in r:
                            check(c, en, "fds")
                        continue
                raise Untranslatable(f"{where}: unrecognised {what}")
            # check_feature / check_proto_feature: `if self.F & feat.bits() != 0 { Ok(()) } else { Err(E(feat)) }`
            if last and e.args[2] is not None and e.args[2].op == "block" and len(e.args[1].args) == 1 and \
                    len(e.args[2].args) == 1 and is_ok_unit(e.args[1].args[0].args[0]):
                c = unparen(e.args[0])
                en = err_of(e.args[2].args[0].args[0])
                if en and c.op == "bin" and c.args[0] == "!=" and is_int(c.args[2], 0):
                    a = unparen(c.args[1])
                    if a.op == "bin" and a.args[0] == "&" and unparen(a.args[1]).op == "field" and \
                            is_path(unparen(a.args[1]).args[0], "self") and render(unparen(a.args[2])) == "feat.bits()":
                        fld = unparen(a.args[1]).args[1]
                        info["feat_field"] = fld
                        info["feat_err"] = en
                        info["feat_ty"] = base_type(types.get("feat", ""))
                        steps.append(f".check (.paramBitClear {lean_str(fld)}) {lean_str(en)}")
                        continue
                raise Untranslatable(f"{where}: unrecognised {what}")
            r = refusal_if(e, ctx)
            if r is None:
                raise Untranslatable(f"{where}: unrecognised {what}")
            for c, en in r:
                check(c, en)
            continue
        # check_state: `match self.error { Some(e) => Err(E(..)), None => Ok(()) }`
        if s.op == "tail" and e.op == "match" and is_field(unparen(e.args[0]), "self", "error"):
            arms = e.args[1]
            pats = sorted(p.replace(" ", "") for p, _, _ in arms)
            en = None
            for p, g, b in arms:
                if p.replace(" ", "").startswith("Some("):
                    en = err_of(b)
                elif p.replace(" ", "") == "None" and not is_ok_unit(b):
                    en = None
                    break
            if len(arms) == 2 and pats[0] == "None" and pats[1].startswith("Some(") and en and \
                    all(g is None for _, g, _ in arms):
                steps.append(f".check .errorSet {lean_str(en)}")
                continue
            raise Untranslatable(f"{where}: unrecognised {what}")
        if s.op == "stmt" and self_call(e, "check_state") and e.op == "try":
            check(".broken", "SocketBroken")
            continue
        # let len = size_of::<T>() + payload.len();
        if s.op == "let" and unparen(e).op == "bin" and unparen(e).args[0] == "+" and size_of_ty(unparen(e).args[1]) == "T" and \
                render(unparen(unparen(e).args[2])) == "payload.len()":
            ctx.lets[s.args[0]] = "size_of+payload"
            continue
        # let hdr = self.new_request_header(code, SIZE);
        if s.op == "let" and self_call(e, "new_request_header") and e.op == "mcall":
            a = e.args[2:]
            if len(a) != 2 or not is_path(unparen(a[0]), "code"):
                raise Untranslatable(f"{where}: unrecognised {what}")
            info["size"] = size_expr(a[1])
            ctx.lets[s.args[0]] = "request_header"
            steps.append(f".header {lean_str(info['size'])}")
            continue
        # let msg = VhostUserU64::new(queue_index as u64);
        if s.op == "let" and unparen(e).op == "call" and unparen(e).args[0].op == "path" and \
                len(unparen(e).args[0].args) == 2 and unparen(e).args[0].args[1] == "new" and \
                unparen(e).args[0].args[0] in world.structs:
            ty = unparen(e).args[0].args[0]
            ctx.types[s.args[0]] = ty
            steps.append(f".build {lean_str(ty)} {lean_str(', '.join(render(x) for x in unparen(e).args[1:]))}")
            continue
        sc = sock_call(e)
        if sc is not None and e.op == "try":
            m = sc.args[1]
            a = sc.args[2:]
            tf = sc.kw.get("turbofish") or ""
            if m in ("send_header", "send_message", "send_message_with_payload") and s.op == "stmt":
                if not a or ctx.lets.get(render(strip(a[0]))) != "request_header":
                    raise Untranslatable(f"{where}: {what}: the first argument is not the header built before")
                rest = [render(x) for x in a[1:]]
                fdarg = unparen(a[-1])
                if is_path(fdarg, "fds"):
                    info["fds"] = "param"
                elif render(fdarg).startswith("Some("):
                    info["fds"] = "always"
                else:
                    raise Untranslatable(f"{where}: {what}: unrecognised descriptor argument")
                expect = {"send_header": 1, "send_message": 2, "send_message_with_payload": 3}[m]
                if len(rest) != expect:
                    raise Untranslatable(f"{where}: {what}: {len(rest)} arguments after the header")
                if m != "send_header":
                    marg = strip(a[1])
                    if marg.op != "path" or len(marg.args) != 1:
                        raise Untranslatable(f"{where}: {what}: unrecognised body argument")
                    bt = base_type(ctx.types.get(marg.args[0], ""))
                    info["body_ty"] = bt
                    if (info["size"] in ("T", "T+payload")) != (bt == "T") or (info["size"] not in ("T", "T+payload", bt)):
                        raise Untranslatable(f"{where}: {what}: header size `{info['size']}` does not match body type `{bt}`")
                    if (m == "send_message_with_payload") != (info["size"] == "T+payload") or \
                            (m == "send_message_with_payload" and rest[1] != "payload"):
                        raise Untranslatable(f"{where}: {what}: payload does not match header size")
                elif info["size"] != "0":
                    raise Untranslatable(f"{where}: {what}: header-only send with size `{info['size']}`")
                info["sock"] = m
                steps.append(f".sock {lean_str(m)} {lean_str(', '.join(rest))}")
                continue
            if m == "recv_body" and s.op == "let" and len(a) == 0:
                names = s.args[0].replace("(", "").replace(")", "").replace(" ", "").split(",")
                if len(names) != 3:
                    raise Untranslatable(f"{where}: unrecognised {what}")
                ctx.lets[names[0]] = "recv_hdr"
                ctx.lets[names[1]] = "recv_body"
                ctx.lets[names[2]] = "recv_files"
                info["recv_names"] = names
                steps.append(f".sock \"recv_body\" {lean_str(tf)}")
                continue
            if m == "recv_data" and s.op == "let" and len(a) == 1 and is_path(unparen(a[0]), "payload_size") and \
                    ctx.lets.get("payload_size") == "reply.size-size_of":
                names = s.args[0].replace("(", "").replace(")", "").replace(" ", "").split(",")
                if len(names) != 2:
                    raise Untranslatable(f"{where}: unrecognised {what}")
                ctx.lets[names[0]] = "recv_data"
                ctx.lets[names[1]] = "recv_buf"
                steps.append(".sock \"recv_data\" \"payload_size\"")
                continue
            raise Untranslatable(f"{where}: unrecognised {what}")
        # let (body, files) = self.recv_reply_with_optional_files(hdr)?;
        d = self_call(e)
        if s.op == "let" and d is not None and e.op == "try" and d.args[1] in RECV_HELPERS and len(d.args) == 3 and \
                is_path(unparen(d.args[2]), "hdr"):
            names = s.args[0].replace("(", "").replace(")", "").replace(" ", "").split(",")
            if len(names) != 2:
                raise Untranslatable(f"{where}: unrecognised {what}")
            ctx.lets[names[0]] = "recv_body"
            ctx.lets[names[1]] = "recv_files"
            info["recv_names"] = ["reply"] + names
            steps.append(f".delegate {lean_str(d.args[1])}")
            continue
        # let expected = hdr.get_size() as usize - mem::size_of::<T>();
        if s.op == "let" and unparen(e).op == "bin" and unparen(e).args[0] == "-" and \
                render(unparen(e).args[1]) == "hdr.get_size() as usize" and size_of_ty(unparen(e).args[2]) == "T":
            ctx.lets[s.args[0]] = "hdr.size-size_of"
            continue
        # let payload_size = (reply.get_size() as usize).checked_sub(mem::size_of::<T>()).ok_or(E)?;
        if s.op == "let" and e.op == "try" and unparen(e.args[0]).op == "mcall" and unparen(e.args[0]).args[1] == "ok_or":
            oo = unparen(e.args[0])
            cs = unparen(oo.args[0])
            en = unparen(oo.args[2])
            if cs.op == "mcall" and cs.args[1] == "checked_sub" and render(unparen(cs.args[0])) == "reply.get_size() as usize" and \
                    size_of_ty(cs.args[2]) == "T" and ctx.lets.get("reply") == "recv_hdr" and en.op == "path" and \
                    len(en.args) == 2 and en.args[0] == "VhostUserError":
                ctx.lets[s.args[0]] = "reply.size-size_of"
                steps.append(f".check .replySizeBelowBody {lean_str(en.args[1])}")
                continue
            raise Untranslatable(f"{where}: unrecognised {what}")
        # new_request_header: `VhostUserMsgHeader::new(request, flags, size)` as the result
        if s.op == "tail" and len(stmts) == 1 and unparen(e).op == "call" and unparen(e).args[0].op == "path" and \
                unparen(e).args[0].args == ["VhostUserMsgHeader", "new"]:
            steps.append(f".build \"VhostUserMsgHeader\" {lean_str(', '.join(render(x) for x in unparen(e).args[1:]))}")
            continue
        # Ok(..) tail
        if s.op == "tail" and ok_value(e) is not None:
            steps.append(f".ok {lean_str(render(ok_value(e)))}")
            continue
        raise Untranslatable(f"{where}: unrecognised {what}")
    info["steps"] = steps
    return info


# ------------------------------------------------------------------------------------------
# API methods


def node_call(n, name=None):
    """`node.NAME(..)` (possibly under `?`) -> the mcall node"""
    n = strip(n)
    if n is not None and n.op == "mcall" and is_path(n.args[0], "node") and (name is None or n.args[1] == name):
        return n
    return None


def feature_arg(n, world, where):
    n = unparen(n)
    if n.op == "path" and len(n.args) == 2:
        return n.args[0], bit_of(world, n.args[0], n.args[1], where)
    raise Untranslatable(f"{where}: feature argument `{render(n)}` is not `Flags::NAME`")


class Method:
    def __init__(self, world, helpers, ret_types, name, params, body, where):
        self.world, self.helpers, self.ret_types, self.name, self.where = world, helpers, ret_types, name, where
        self.params = split_params(params, where)
        self.types = dict(self.params)
        self.rows = []
        self.stmts = normalize_tail_if(FParser(body, where).block())

    def fail(self, msg):
        raise Untranslatable(f"{self.where}: {msg}")

    def new_row(self):
        return dict(name=self.name, sel=[], checks=[], code=None, code_name=None, body=None, fds=None, wait=None,
                    upd=[], post=[], locked=False, env=dict(self.types), hdr=None, reply=[], sent=False, awaited=False,
                    done=False)

    def run(self):
        row = self.new_row()
        self.walk(self.stmts, row)
        return self.rows

    def finish(self, row):
        if not row["sent"]:
            self.fail("no request is sent on this path")
        if not row["done"]:
            self.fail("path does not end in a recognised result")
        self.rows.append(row)

    # ---- statements

    def walk(self, stmts, row):
        for idx, s in enumerate(stmts):
            if row["done"]:
                self.fail(f"statement after the result: `{short(s)}`")
            last = idx == len(stmts) - 1
            if not row["sent"]:
                branched = self.pre(s, row, last)
                if branched:
                    return
            elif not row["awaited"]:
                self.mid(s, row)
            else:
                self.post(s, row)
        self.finish(row)

    def value_type(self, e, row):
        """type of a constructed message value, or None"""
        e = unparen(e)
        w = self.world
        if e.op == "struct":
            return e.args[0]
        if e.op == "call" and e.args[0].op == "path" and len(e.args[0].args) == 2 and e.args[0].args[0][0].isupper():
            ty, fn = e.args[0].args
            if fn == "new":
                return ty
            if ty in w.impls and fn in w.impls[ty]:
                ret = "".join(t.text for t in w.impls[ty][fn][1])
                if ret in ("->Self", "->" + ty):
                    return ty
            return None
        if e.op == "mcall" and len(e.args) == 2 and unparen(e.args[0]).op == "path" and len(unparen(e.args[0]).args) == 1:
            v = unparen(e.args[0]).args[0]
            vt = base_type(row["env"].get(v, ""))
            r = self.ret_types.get((vt, e.args[1]))
            if r:
                return r
        return None

    def pre(self, s, row, last):
        e = s.args[1] if s.op == "let" else s.args[0]
        what = f"statement `{short(s)}`"
        w = self.world
        ctx = Ctx(w, self.where, "node", row["env"])
        # let mut node = self.node();
        if s.op == "let" and s.args[0] == "node" and unparen(e).op == "mcall" and is_path(unparen(e).args[0], "self") and \
                unparen(e).args[1] == "node" and len(unparen(e).args) == 2:
            if row["locked"]:
                self.fail(f"{what}: the node is locked twice")
            row["locked"] = True
            return False
        if s.op in ("stmt", "tail") and e.op == "if":
            r = refusal_if(e, ctx)
            if r is not None:
                if any(".queueIdxOob" == c or c.startswith(".virtioMissing") for c, _ in r) and not row["locked"]:
                    self.fail(f"{what}: node state is read before the lock is taken")
                row["checks"] += r
                return False
            # tail `if SEL { .. } else { .. }` with a send on both sides
            if last and e.args[2] is not None and e.args[2].op == "block" and e.args[0].op != "iflet":
                sels = []
                for c in conjuncts(e.args[0]):
                    c = unparen(c)
                    ok = False
                    if c.op == "bin" and c.args[0] == "!=" and is_int(c.args[2], 0):
                        a = unparen(c.args[1])
                        if a.op == "bin" and a.args[0] == "&" and is_field(unparen(a.args[1]), "node", "acked_protocol_features"):
                            fb = ctx.flag_bit(a.args[2])
                            if fb and fb[0] == "VhostUserProtocolFeatures":
                                sels.append((f".proto {fb[1]}", None))
                                ok = True
                    if c.op == "mcall" and c.args[1] == "is_some" and len(c.args) == 2 and unparen(c.args[0]).op == "path" and \
                            len(unparen(c.args[0]).args) == 1:
                        sels.append((f".isSome {lean_str(unparen(c.args[0]).args[0])}", unparen(c.args[0]).args[0]))
                        ok = True
                    if not ok:
                        self.fail(f"{what}: unrecognised branch condition `{render(c)}`")
                if row["sel"]:
                    self.fail(f"{what}: nested branching")
                r1 = self.clone(row)
                r1["sel"] = [x for x, _ in sels]
                r1["some"] = [v for _, v in sels if v]
                self.walk(e.args[1].args, r1)
                r2 = self.clone(row)
                r2["sel"] = [".otherwise"]
                self.walk(e.args[2].args, r2)
                return True
            self.fail(f"unrecognised {what}")
        # for X in COLL.iter() { if COND { return error } ; ctx.append(..) }
        if s.op == "stmt" and e.op == "for":
            pat, it, body = e.args
            it = unparen(it)
            if it.op == "mcall" and it.args[1] == "iter" and len(it.args) == 2 and unparen(it.args[0]).op == "path" and \
                    len(unparen(it.args[0]).args) == 1 and " " not in pat:
                coll = unparen(it.args[0]).args[0]
                lctx = Ctx(w, self.where, "node", row["env"], loop=(pat, coll))
                for b in body.args:
                    be = b.args[1] if b.op == "let" else b.args[0]
                    if b.op in ("stmt", "tail") and be.op == "if":
                        r = refusal_if(be, lctx)
                        if r is None:
                            self.fail(f"unrecognised statement in loop: `{short(b)}`")
                        row["checks"] += r
                    elif b.op == "stmt" and be.op == "mcall" and be.args[1] == "append" and unparen(be.args[0]).op == "path" and \
                            row["env"].get(unparen(be.args[0]).args[0]) == "VhostUserMemoryContext":
                        row["env"]["__collected__"] = coll
                    else:
                        self.fail(f"unrecognised statement in loop: `{short(b)}`")
                return False
            self.fail(f"unrecognised {what}")
        nc = node_call(e)
        if nc is not None and s.op == "stmt" and e.op == "try" and nc.args[1] in ("check_feature", "check_proto_feature") and \
                len(nc.args) == 3:
            h = self.helpers[nc.args[1]]
            fl, bit = feature_arg(nc.args[2], w, self.where)
            if fl != h["feat_ty"]:
                self.fail(f"{what}: flag set {fl} given to {nc.args[1]}({h['feat_ty']})")
            fld = h["feat_field"]
            if fld == "virtio_features":
                c = f".virtioMissing {bit} false"
            elif fld == "acked_virtio_features":
                c = f".virtioMissing {bit} true"
            elif fld == "acked_protocol_features":
                c = f".protoMissing {bit}"
            elif fld == "protocol_features":
                c = f".protoNotOffered {bit}"
            else:
                self.fail(f"{nc.args[1]} tests unknown field {fld}")
            if (fl == "VhostUserVirtioFeatures") != ("virtio" in fld):
                self.fail(f"{nc.args[1]} tests {fl} against field {fld}")
            row["checks"].append((c, h["feat_err"]))
            return False
        # sends
        if nc is not None and nc.args[1] in SEND_HELPERS:
            if s.op not in ("let", "stmt") or e.op != "try":
                self.fail(f"{what}: the result of the send is not propagated with `?`")
            self.send(nc, s.args[0] if s.op == "let" else "_", row, what)
            return False
        if s.op == "let":
            ee = unparen(e)
            vt = self.value_type(ee, row)
            if vt is not None:
                row["env"][s.args[0]] = vt
                return False
            if ee.op == "array":
                row["env"][s.args[0]] = "[fd]"
                return False
            # let flag = enable.into();
            if ee.op == "mcall" and ee.args[1] == "into" and len(ee.args) == 2 and unparen(ee.args[0]).op == "path" and \
                    len(unparen(ee.args[0]).args) == 1 and unparen(ee.args[0]).args[0] in self.types:
                row["env"][s.args[0]] = "into:" + self.types[unparen(ee.args[0]).args[0]]
                return False
            # let region = region.unwrap();   (after `region.is_some()` selected this branch)
            if ee.op == "mcall" and ee.args[1] == "unwrap" and len(ee.args) == 2 and is_path(unparen(ee.args[0]), s.args[0]) and \
                    s.args[0] in row.get("some", []):
                t = base_type(row["env"].get(s.args[0], ""))
                if t.startswith("Option<") and t.endswith(">"):
                    row["env"][s.args[0]] = t[7:-1]
                return False
            # let (_, payload, _) = unsafe { ctx.regions.align_to::<u8>() };
            if ee.op == "block" and len(ee.args) == 1 and ee.args[0].op == "tail":
                x = unparen(ee.args[0].args[0])
                names = s.args[0].replace("(", "").replace(")", "").replace(" ", "").split(",")
                if x.op == "mcall" and x.args[1] == "align_to" and x.kw.get("turbofish") == "u8" and len(names) == 3 and \
                        unparen(x.args[0]).op == "field" and unparen(unparen(x.args[0]).args[0]).op == "path" and \
                        row["env"].get(unparen(unparen(x.args[0]).args[0]).args[0]) == "VhostUserMemoryContext":
                    row["env"][names[1]] = "bytes-of:" + row["env"].get("__collected__", "?")
                    return False
        self.fail(f"unrecognised {what}")

    def clone(self, row):
        r = dict(row)
        for k in ("sel", "checks", "upd", "post", "reply"):
            r[k] = list(row[k])
        r["env"] = dict(row["env"])
        return r

    def send(self, nc, bound, row, what):
        w = self.world
        if not row["locked"]:
            self.fail(f"{what}: send without the lock")
        h = self.helpers[nc.args[1]]
        args = dict(zip(h["params"], nc.args[2:]))
        if len(nc.args) - 2 != len(h["params"]):
            self.fail(f"{what}: {len(nc.args) - 2} arguments for {nc.args[1]}({', '.join(h['params'])})")
        code = unparen(args["code"])
        if code.op != "path" or len(code.args) != 2 or code.args[0] != "FrontendReq":
            self.fail(f"{what}: request code `{render(code)}` is not `FrontendReq::X`")
        codes = dict(w.enums["FrontendReq"][1])
        if code.args[1] not in codes:
            self.fail(f"{what}: unknown request FrontendReq::{code.args[1]}")
        row["code"], row["code_name"] = codes[code.args[1]], code.args[1]
        # descriptors
        if h["fds"] == "always":
            fds_some = True
        else:
            f = unparen(args["fds"])
            if is_path(f, "None"):
                fds_some = False
            elif f.op == "call" and is_path(f.args[0], "Some") and len(f.args) == 2:
                fds_some = True
            else:
                self.fail(f"{what}: descriptor argument `{render(f)}` is neither `None` nor `Some(..)`")
        row["fds"] = fds_some
        # body
        if h["sock"] == "send_header":
            row["body"] = ".none"
        else:
            if h["body_ty"] == "T":
                m = strip(args["msg"])
                if m.op != "path" or len(m.args) != 1 or m.args[0] not in row["env"]:
                    self.fail(f"{what}: type of the body argument `{render(m)}` is not known")
                bt = base_type(row["env"][m.args[0]])
            else:
                bt = h["body_ty"]
            if bt not in w.structs:
                self.fail(f"{what}: body type `{bt}` is not a message struct of message.rs")
            row["body"] = (".withPayload " if h["sock"] == "send_message_with_payload" else ".fixed ") + lean_str(bt)
        # helper's own checks, in order
        for c, en, guard in h["checks"]:
            if guard == "fds" and not fds_some:
                continue
            row["checks"].append((c, en))
        row["hdr"] = bound
        row["sent"] = True

    def mid(self, s, row):
        """between the send and the reply"""
        e = s.args[1] if s.op == "let" else s.args[0]
        what = f"statement `{short(s)}`"
        if self.assignment(s, row, False):
            return
        # node.wait_for_ack(&hdr).map_err(|e| e.into())
        if s.op == "tail" and e.op == "mcall" and e.args[1] == "map_err" and len(e.args) == 3:
            nc = node_call(e.args[0], "wait_for_ack")
            cl = e.args[2]
            if nc is not None and e.args[0].op == "mcall" and len(nc.args) == 3 and is_path(strip(nc.args[2]), row["hdr"]) and \
                    row["hdr"] != "_" and cl.op == "closure" and len(cl.args[0]) == 1 and \
                    render(cl.args[1]) == f"{cl.args[0][0]}.into()":
                row["wait"] = ".ack"
                row["awaited"] = row["done"] = True
                return
            self.fail(f"unrecognised {what}")
        nc = node_call(e)
        if s.op == "let" and nc is not None and e.op == "try" and nc.args[1] in RECV_HELPERS and len(nc.args) == 3 and \
                is_path(strip(nc.args[2]), row["hdr"]) and row["hdr"] != "_":
            ty = nc.kw.get("turbofish")
            if not ty:
                self.fail(f"{what}: reply type not given")
            kind = {"recv_reply": ".reply", "recv_reply_with_optional_files": ".replyOptFiles",
                    "recv_reply_with_files": ".replyFiles", "recv_reply_with_payload": ".replyPayload"}[nc.args[1]]
            row["wait"] = f"{kind} {lean_str(ty)}"
            row["reply"] = [x for x in s.args[0].replace("(", "").replace(")", "").replace(" ", "").split(",")]
            row["awaited"] = True
            return
        # nothing awaited: `Ok(())` directly after the send
        if s.op == "tail" and is_ok_unit(e):
            row["wait"] = ".none"
            row["awaited"] = row["done"] = True
            row["post"].append('.ok "()"')
            return
        self.fail(f"unrecognised {what}")

    def assignment(self, s, row, after):
        e = s.args[0]
        if s.op != "stmt" or e.op != "assign":
            return False
        op, lhs, rhs = e.args
        what = f"statement `{short_assign(e)}`"
        if op != "=" or not (lhs.op == "field" and is_path(lhs.args[0], "node")):
            self.fail(f"unrecognised {what}")
        fld = lhs.args[1]
        if fld not in NODE_FIELDS:
            self.fail(f"{what}: unknown field of the node")
        r = unparen(rhs)
        src = None
        if r.op == "path" and r.args in (["true"], ["false"]):
            src = f"(.const {r.args[0]})"
        elif r.op == "path" and len(r.args) == 1 and r.args[0] in self.types:
            src = f"(.arg {lean_str(r.args[0])})"
        elif r.op == "mcall" and r.args[1] == "bits" and len(r.args) == 2 and unparen(r.args[0]).op == "path" and \
                len(unparen(r.args[0]).args) == 1 and unparen(r.args[0]).args[0] in self.types:
            src = f"(.arg {lean_str(unparen(r.args[0]).args[0])})"
        elif r.op == "bin" and r.args[0] == "&" and unparen(r.args[1]).op == "path" and len(unparen(r.args[1]).args) == 1 and \
                unparen(r.args[1]).args[0] in self.types and unparen(r.args[2]).op == "field" and \
                is_path(unparen(r.args[2]).args[0], "node"):
            src = f"(.argAndField {lean_str(unparen(r.args[1]).args[0])} {lean_str(unparen(r.args[2]).args[1])})"
        elif after and r.op == "field" and unparen(r.args[0]).op == "path" and len(unparen(r.args[0]).args) == 1 and \
                row["reply"] and unparen(r.args[0]).args[0] == row["reply"][0]:
            src = f"(.replyField {lean_str(r.args[1])})"
        if src is None:
            self.fail(f"{what}: unrecognised right-hand side")
        row["upd"].append(f".assign {lean_str(fld)} {src} {'true' if after else 'false'}")
        return True

    # ---- after the reply

    def action(self, e, row):
        """a result expression -> ("err", E) | ("ok", text) | ("takeSingle", E) | None"""
        e = unparen(e)
        en = err_of(e)
        if en:
            return ("err", en)
        v = ok_value(e)
        if v is not None:
            return ("ok", render(v))
        if e.op == "match":
            sc = unparen(e.args[0])
            if sc.op == "call" and is_path(sc.args[0], "take_single_file") and len(sc.args) == 2 and \
                    row["reply"] and is_path(unparen(sc.args[1]), row["reply"][-1]) and len(row["reply"]) >= 2:
                arms = e.args[1]
                pats = sorted(p.replace(" ", "") for p, _, _ in arms)
                if len(arms) == 2 and pats[0] == "None" and pats[1].startswith("Some(") and all(g is None for _, g, _ in arms):
                    en = okv = None
                    for p, _, b in arms:
                        if p.replace(" ", "") == "None":
                            en = err_of(b)
                        else:
                            okv = ok_value(b)
                    if en and okv is not None:
                        return ("takeSingle", en)
        return None

    def post(self, s, row):
        e = s.args[1] if s.op == "let" else s.args[0]
        what = f"statement `{short(s)}`"
        if self.assignment(s, row, True):
            return
        if s.op == "let" and unparen(e).op == "field" and unparen(unparen(e).args[0]).op == "path" and row["reply"] and \
                unparen(unparen(e).args[0]).args[0] == row["reply"][0]:
            row["post"].append(f".bind {lean_str(s.args[0])} {lean_str(render(unparen(e)))}")
            return
        if s.op in ("stmt", "tail") and e.op == "if":
            x = e
            items = []
            while x is not None:
                if x.op != "if" or x.args[0].op == "iflet" or len(x.args[1].args) != 1 or x.args[1].args[0].op != "return":
                    self.fail(f"unrecognised {what}")
                a = self.action(x.args[1].args[0].args[0], row)
                if a is None:
                    self.fail(f"unrecognised result in {what}")
                k = {"err": ".errIf", "ok": ".okIf", "takeSingle": ".takeSingleIf"}[a[0]]
                items.append(f"{k} {lean_str(render(x.args[0]))} {lean_str(a[1])}")
                x = x.args[2]
            row["post"] += items
            return
        if s.op == "tail":
            a = self.action(e, row)
            if a is not None:
                k = {"err": ".err", "ok": ".ok", "takeSingle": ".takeSingle"}[a[0]]
                row["post"].append(f"{k} {lean_str(a[1])}")
                row["done"] = True
                return
        self.fail(f"unrecognised {what}")


def short_assign(e):
    try:
        return f"{render(e.args[1])} {e.args[0]} {render(e.args[2])}"
    except Untranslatable:
        return repr(e)[:200]


# ------------------------------------------------------------------------------------------


def backend_ret_types(repo):
    """(type, method) -> returned message struct, for the inherent impls of vhost/src/backend.rs"""
    out = {}
    path = os.path.join(repo, BACKEND_REL)
    for it in scan_items(tokenize(open(path).read()), FEATURES):
        if it.kind == "impl":
            trait, ty = impl_header(it)
            if trait is None:
                for name, attrs, params, ret, b in impl_fns(it, FEATURES):
                    r = "".join(t.text for t in ret)
                    if r.startswith("->"):
                        out[(ty, name)] = r[2:]
    return out


def error_field_writes(items):
    """token-level: assignments `.error =` anywhere in the impls of the file (the field every `check_state` reads)"""
    n = 0
    for it in items:
        if it.kind != "impl":
            continue
        t = it.toks
        for i in range(len(t) - 2):
            if t[i].text == "." and t[i + 1].text == "error" and t[i + 2].kind == "punct" and \
                    t[i + 2].text in ("=", "|=", "&=", "+=", "-=", "^="):
                n += 1
    return n


def gen_frontend(world):
    repo = gen_frontend.repo
    path = os.path.join(repo, REL)
    items = scan_items(tokenize(open(path).read()), FEATURES)
    # helpers first
    hbodies = {}
    api = []
    for it in items:
        if it.kind != "impl":
            continue
        trait, ty = impl_header(it)
        if trait is None and ty == "FrontendInternal":
            for name, attrs, params, ret, b in impl_fns(it, FEATURES):
                hbodies[name] = (params, b)
        elif ty == "Frontend" and trait in TRAITS:
            for name, attrs, params, ret, b in impl_fns(it, FEATURES):
                if b is None:
                    raise Untranslatable(f"{REL}: impl {trait} for Frontend: fn {name} has no body")
                api.append((trait, name, params, b))
    seen = [t for t, _, _, _ in api]
    for t in TRAITS:
        if t not in seen:
            raise Untranslatable(f"{REL}: impl {t} for Frontend not found")
    helpers = {}
    for h in ("check_state", "check_feature", "check_proto_feature", "new_request_header") + SEND_HELPERS + RECV_HELPERS + \
            ("wait_for_ack",):
        if h not in hbodies:
            raise Untranslatable(f"{REL}: FrontendInternal::{h} not found")
        helpers[h] = analyse_helper(world, h, hbodies[h][0], hbodies[h][1], f"{REL}: FrontendInternal::{h}")
    for h in ("check_feature", "check_proto_feature"):
        if "feat_field" not in helpers[h]:
            raise Untranslatable(f"{REL}: FrontendInternal::{h}: feature test not recognised")
    for h in SEND_HELPERS:
        if helpers[h]["sock"] is None:
            raise Untranslatable(f"{REL}: FrontendInternal::{h}: nothing is sent")
    unknown = [h for h in hbodies if h not in HELPERS]
    if unknown:
        raise Untranslatable(f"{REL}: FrontendInternal has methods the translator does not know: {', '.join(unknown)}")
    ret_types = backend_ret_types(repo)
    rows = []
    for trait, name, params, b in api:
        rows += [(trait, r) for r in Method(world, helpers, ret_types, name, params, b, f"{REL}: {trait}::{name}").run()]

    def lst(xs):
        return "[" + ", ".join(xs) + "]"

    out = [LEAN_HEADER, "import VhostModel.Base.FeSig", "", "namespace Gen.FrontendOps", "open Base", "",
           f"/-- one row per public operation (and send path) of `impl VhostBackend for Frontend` and",
           f"`impl VhostUserFrontend for Frontend` ({REL}), in source order -/",
           "def rows : List FeRow := ["]
    rr = []
    for trait, r in rows:
        rr.append("  /- %s::%s -> %s -/\n  { name := %s, sel := %s,\n    checks := %s,\n    code := %d, body := %s, fds := %s, await := %s,\n"
                  "    updates := %s,\n    post := %s }" % (
                      trait, r["name"], r["code_name"], lean_str(r["name"]), lst(r["sel"]),
                      lst("(%s, %s)" % (c, lean_str(en)) for c, en in r["checks"]),
                      r["code"], r["body"], "true" if r["fds"] else "false", r["wait"], lst(r["upd"]), lst(r["post"])))
    out.append(",\n".join(rr))
    out.append("]")
    out.append("")
    out.append("/-- the helper methods of `FrontendInternal`, statement by statement -/")
    out.append("def helpers : List (String × List FeStep) := [")
    out.append(",\n".join("  (%s, %s)" % (lean_str(h), lst(helpers[h]["steps"])) for h in
                          SEND_HELPERS + RECV_HELPERS + OTHER_HELPERS))
    out.append("]")
    out.append("")
    out.append("/-- number of assignments to the `error` field (read by `check_state`) in the impls of the file -/")
    out.append(f"def errorFieldWrites : Nat := {error_field_writes(items)}")
    out.append("")
    out.append("end Gen.FrontendOps")
    return "\n".join(out) + "\n"


def generators(repo):
    gen_frontend.repo = repo
    return [("FrontendOps", gen_frontend)]
