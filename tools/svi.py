#!/usr/bin/env python3
"""dev helper: spec-vs-implementation for one family generator.  usage: tools/svi.py <module.Class> [tier]"""
import sys, os, importlib, collections
sys.path.insert(0, os.path.dirname(os.path.dirname(os.path.abspath(__file__))))
from checks import common as C
modname, cls = sys.argv[1].rsplit(".", 1)
fam = getattr(importlib.import_module("checks." + modname), cls)()
tier = sys.argv[2] if len(sys.argv) > 2 else "quick"
lines = fam.generate(tier, C.Rng(int(os.environ.get("VERIF_SEED", "1"))))
impl, errs = C.run_lines_parallel(C.HARNESS_BIN, [fam.harness_cmd], lines, jobs=16, env=fam.env())
sin = {fam.spec_input(l, impl[l]): l for l in lines if l in impl}
spec, _ = C.run_lines_parallel(C.SPECDRIVER, [], list(sin.keys()), jobs=16)
bad = 0
kinds = collections.Counter()
for si, l in sin.items():
    so = spec.get(si)
    if so is None or not fam.spec_ok(so, impl[l]):
        bad += 1
        kinds[(so or "none").split(" step=")[0]] += 1
        if bad <= int(os.environ.get("SHOW", "5")):
            print("SCEN ", l[:1800]); print("IMPL ", impl[l][:1800]); print("SPEC ", so); print()
print(f"{len(lines)} scenarios, {bad} spec failures, kinds={dict(kinds)} missing={len(lines)-len(impl)}")
