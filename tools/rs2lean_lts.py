"""Translator extension: the step structure of the two transition systems `Model.Worker` (C12) and `Model.Shutdown` (C16)
-> lean/VhostModel/Gen/LtsSteps.lean.

The atomic steps of those models are, by construction, the code segments between the hold points of feature
`verif-hooks` (`vhost::vhost_user::verif_hooks::hold("<name>", ctx)`).  Unlike every other extension of the translator,
this one *keeps* the statements under `#[cfg(feature = "verif-hooks")]`: a hold point is a first-class event `hold name`.

Extracted (vocabulary: `VhostModel/Base/HandlerSig.lean` for what it covers, `VhostModel/Base/LtsSig.lean` for the rest):

  worker     `vhost-user-backend/src/event_loop.rs`  `VringEpollHandler::run` with `handle_event` carried along as a helper
             call, and in it `VringT::read_kick` (the wrappers of `VringRwLock` / `VringMutex` must both be
             `self.get_ref().read_kick()`) with the body of `VringState::read_kick` of `vring.rs`
  control    `vhost-user-backend/src/handler.rs`  `set_vring_enable`, `reset_device`, `get_vring_base`, `set_vring_kick`
             with the private helpers `update_vring_registration`, `unregister_vring_kick`, `initialize_vring`,
             `vring_needs_init`, `check_feature` (through `rs2lean_handler.Body`, i.e. the very events of `Gen.HandlerOps`,
             plus the hold points and the `drop(vring_state)` in front of `ctl.epoll`)
  shutdown   `vhost-user-backend/src/lib.rs`  the closure spawned by `start_daemon` (row `daemon_thread`), `start_daemon`,
             `ShutdownHandle::shutdown`, `wait`, `serve` (with `start` / `accept` / `start_daemon` / `wait` carried along),
             `Drop for VhostUserDaemon`; `handler.rs` `Drop for VhostUserHandler` and `send_exit_event` (handler and worker)

per function: `rows` — the body as an event list; `segments` — for function entry and for every hold point of the row
(`name`, `name#1` for a second occurrence in the same row, …) the *residual program*: what runs from there up to the next
hold points, following the branches; enclosing constructs the point lies in are kept as frames (`helperCall` with the rest
of the helper's body, `loopFrom` / `forFrom` / `forVringFrom` with the rest of the iteration and the loop's body); list
tails that cannot be reached before a hold point / return / break are cut.  A closure handed to `spawn` is another thread:
its body is a row of its own and is not entered from the spawning function.

Every statement must be of a shape recognised below; anything else raises `Untranslatable` naming file, function and
statement.  An expression kept as text (a condition, a bound value, a scrutinee) may only contain calls of the query /
constructor allow-lists: an effect cannot hide in a text.

Picked up by tools/rs2lean.py through `generators(repo)`.
"""
import os
import re

from rsparse import (Untranslatable, tokenize, scan_items, impl_header, impl_fns, Node, OPEN, match_close, cfg_excluded,
                     BODY_FEATURES)
from rs2lean import FEATURES, LEAN_HEADER
from rs2lean_frontend import split_params, unparen
import rs2lean_handler as RH
from rs2lean_handler import HParser, rend, lstr, peel, path_text

HOOK_ATTR = '#[cfg(feature="verif-hooks")]'
HOLD_PATH = "vhost::vhost_user::verif_hooks::hold"

EVENT_LOOP = "vhost-user-backend/src/event_loop.rs"
VRING = "vhost-user-backend/src/vring.rs"
HANDLER = "vhost-user-backend/src/handler.rs"
LIB = "vhost-user-backend/src/lib.rs"


# ------------------------------------------------------------------------------------------------------------------
# parser: HParser plus kept hook statements, `loop` / labels / `continue` / `break 'l` / `break VALUE`, closures in any
# position (with `move`, with a block body), `const` items in a body, `..`

class LtsParser(HParser):
    def sub(self, toks):
        return LtsParser(toks, self.where)

    def hook_attrs(self):
        """consume attributes; returns (hooked, dropped)"""
        out = []
        while self.at("#"):
            k = match_close(self.t, self.i + 1)
            out.append("".join(x.text for x in self.t[self.i:k + 1]))
            self.i = k + 1
        if HOOK_ATTR in out:
            if len(out) != 1:
                self.err("a hook statement with further attributes")
            return True, False
        return False, cfg_excluded(out, BODY_FEATURES)

    def block(self):
        stmts = []
        hooked = False
        while self.peek().kind != "eof":
            if self.at("#"):
                hk, dropped = self.hook_attrs()
                if dropped:
                    sub = self.sub(self.t[self.i:])
                    sub.one_stmt()
                    self.i += sub.i
                    continue
                hooked = hk
                if self.peek().kind == "eof":
                    self.err("attribute without a statement")
            n0 = len(stmts)
            if self.at("let"):
                l_ = self.let_()
                e_ = l_.args[1] if len(l_.args) > 1 else None
                if not (l_.args[0] == "_" and e_ is not None and e_.op == "ref" and e_.args and e_.args[0] is not None and e_.args[0].op == "path"):
                    stmts.append(l_)   # (`let _ = &x;` does nothing)
            elif self.at("const") and self.peek(1).kind == "ident" and self.peek(2).text == ":":
                self.eat()
                name = self.eat().text
                self.eat(":")
                ty = self.type_()
                self.eat("=")
                e = self.expr()
                self.eat(";")
                stmts.append(Node("let", name, e, ty=ty, mut=False, els=None, const=True))
            elif self.at("return"):
                self.eat()
                e = None if self.at(";") else self.expr()
                if self.at(";"):
                    self.eat()
                stmts.append(Node("return", e))
            elif self.at("continue"):
                self.eat()
                lab = ""
                if self.peek().kind == "lifetime":
                    lab = self.eat().text
                if self.at(";"):
                    self.eat()
                stmts.append(Node("continue", lab))
            elif self.at("break"):
                self.eat()
                lab, val = "", None
                if self.peek().kind == "lifetime":
                    lab = self.eat().text
                if not self.at(";") and self.peek().kind != "eof":
                    val = self.expr()
                if self.at(";"):
                    self.eat()
                stmts.append(Node("break", lab, val))
            else:
                e = self.expr()
                if self.peek().kind == "punct" and self.peek().text in ("=", "+=", "-=", "|=", "&=", "^=", "*=", "/=",
                                                                        "<<=", ">>="):
                    op = self.eat().text
                    rhs = self.expr()
                    e = Node("assign", op, e, rhs)
                if self.at(";"):
                    self.eat()
                    if e.op == "macro" and e.args and e.args[0] in ("debug_assert", "debug_assert_eq", "debug_assert_ne"):
                        continue   # no release semantics; a failing one panics in the correspondence runs (debug assertions on)
                    stmts.append(Node("stmt", e))
                elif e.op in ("if", "match", "block", "for", "loop") and self.peek().kind != "eof":
                    stmts.append(Node("stmt", e))
                else:
                    stmts.append(Node("tail", e))
            if hooked:
                for s in stmts[n0:]:
                    s.kw["hooked"] = True
                hooked = False
        return stmts

    def closure(self):
        if self.at("move"):
            self.eat()
        if self.at("||"):
            self.eat()
            params = []
        else:
            self.eat("|")
            params = []
            while not self.at("|"):
                params.append(self.eat().text)
            self.eat("|")
        body = self.expr()
        return Node("closure", params, body)

    def closure_or_expr(self):
        if self.at("|") or self.at("||") or (self.at("move") and self.peek(1).text in ("|", "||")):
            return self.closure()
        return self.expr()

    def primary(self):
        t = self.peek()
        if t.kind == "lifetime" and self.peek(1).text == ":" and self.peek(2).text == "loop":
            lab = self.eat().text
            self.eat(":")
            self.eat("loop")
            return Node("loop", lab, self.block_expr())
        if t.kind == "ident" and t.text == "loop":
            self.eat()
            return Node("loop", "", self.block_expr())
        if t.kind == "ident" and t.text in ("while", "break", "continue"):
            self.err(f"`{t.text}` in expression position is outside the translated subset")
        if (t.kind == "punct" and t.text in ("|", "||")) or (t.text == "move" and self.peek(1).text in ("|", "||")):
            return self.closure()
        if t.kind == "punct" and t.text == "..":
            self.eat()
            return Node("path", "..")
        return super().primary()

    def match_(self):
        self.eat("match")
        self.no_struct += 1
        scrut = self.expr()
        self.no_struct -= 1
        if not self.at("{"):
            self.err("expected match body")
        k = match_close(self.t, self.i)
        p = self.sub(self.t[self.i + 1:k])
        self.i = k + 1
        arms = []
        while p.peek().kind != "eof":
            if p.at("#"):
                p.err("attribute on a match arm")
            pat = p.pattern()
            guard = None
            if p.at("if"):
                p.eat()
                guard = p.expr()
            p.eat("=>")
            if p.at("return"):
                p.eat()
                body = Node("block", Node("return", None if p.at(",") else p.expr()))
            elif p.at("continue"):
                p.eat()
                lab = p.eat().text if p.peek().kind == "lifetime" else ""
                body = Node("block", Node("continue", lab))
            elif p.at("break"):
                p.err("`break` as an arm without a block")
            else:
                body = p.expr()
            if p.at(","):
                p.eat()
            arms.append((pat, guard, body))
        return Node("match", scrut, arms)


def norm_pat(p):
    s = re.sub(r"\s+", " ", p).strip()
    s = s.replace(" :: ", "::").replace("( ", "(").replace(" )", ")").replace(" (", "(").replace(" ,", ",")
    return s


# ------------------------------------------------------------------------------------------------------------------
# texts: expressions kept as identifiers must be free of effects

QUERY_METHODS = {"is_some", "is_none", "is_ok", "is_err", "as_ref", "kind", "clone", "iter", "data", "get_ref", "get_queue",
                 "ready", "num_queues", "len", "is_empty", "lock", "unwrap", "enumerate", "bits", "count_ones", "as_raw_fd",
                 "get_kick", "is_enabled"}
PURE_CALLS = {"Some", "Ok", "Err", "Arc::new", "AtomicBool::new", "EpollEvent::new", "EventSet::empty", "EventSet::from_bits",
              "u64::from", "u32::from", "Error::HandleRequest", "Error::WaitDaemon", "Error::StartDaemon"}
PURE_MACROS = {"vec"}


def pure_text(n, where, allow=()):
    """the canonical text of an expression all of whose calls are queries / constructors"""
    def chk(x):
        if x is None or not isinstance(x, Node):
            return
        op, a = x.op, x.args
        if op in ("int", "str", "unit", "path"):
            return
        if op == "macro":
            if a[0] not in PURE_MACROS:
                raise Untranslatable(f"{where}: macro `{a[0]}!` inside an expression kept as text")
            return
        if op == "mcall":
            if a[1] == "take" and len(a) == 3:
                pass
            elif a[1] not in QUERY_METHODS and a[1] not in allow:
                raise Untranslatable(f"{where}: call of `.{a[1]}(..)` inside an expression kept as text "
                                     f"(`{rend_l(x)}`): not a known query")
            chk(a[0])
            for y in a[2:]:
                chk(y)
            return
        if op == "call":
            f = path_text(a[0])
            if f not in PURE_CALLS and f not in allow:
                raise Untranslatable(f"{where}: call of `{f}` inside an expression kept as text: not a known constructor")
            for y in a[1:]:
                chk(y)
            return
        if op in ("field", "paren", "ref", "deref", "not", "neg", "cast", "try"):
            if op == "try":
                raise Untranslatable(f"{where}: `?` inside an expression kept as text (`{rend_l(x)}`)")
            chk(a[0])
            return
        if op == "bin":
            chk(a[1])
            chk(a[2])
            return
        if op == "index":
            chk(a[0])
            chk(a[1])
            return
        if op == "tuple":
            for y in a:
                chk(y)
            return
        if op == "struct":
            for _, v in a[1]:
                chk(v)
            return
        raise Untranslatable(f"{where}: expression of kind `{op}` inside an expression kept as text")
    chk(n)
    return rend_l(n)


def rend_l(n):
    """`rs2lean_handler.rend` plus macros, `..`, closures with several statements rendered as `{ .. }`"""
    if n is None:
        return ""
    if n.op == "macro":
        inner = n.args[1].replace(" :: ", "::").replace(" ( ", "(").replace(" )", ")").replace("( )", "()").replace(" ,", ",")
        return f"{n.args[0]}!({inner})"
    try:
        return rend(n)
    except Untranslatable:
        pass
    op, a = n.op, n.args
    if op == "field":
        return f"{rend_l(a[0])}.{a[1]}"
    if op == "mcall":
        return f"{rend_l(a[0])}.{a[1]}({', '.join(rend_l(x) for x in a[2:])})"
    if op == "call":
        return f"{rend_l(a[0])}({', '.join(rend_l(x) for x in a[1:])})"
    if op == "bin":
        return f"{rend_l(a[1])} {a[0]} {rend_l(a[2])}"
    if op in ("not", "neg", "ref", "deref"):
        return {"not": "!", "neg": "-", "ref": "&", "deref": "*"}[op] + rend_l(a[0])
    if op == "paren":
        return "(" + rend_l(a[0]) + ")"
    if op == "try":
        return rend_l(a[0]) + "?"
    if op == "index":
        return f"{rend_l(a[0])}[{rend_l(a[1])}]"
    if op == "cast":
        return f"{rend_l(a[0])} as {a[1]}"
    if op == "tuple":
        return "(" + ", ".join(rend_l(x) for x in a) + ")"
    if op == "struct":
        return a[0] + " { " + ", ".join(f"{k}: {rend_l(v)}" for k, v in a[1]) + " }"
    if op == "closure":
        return "|" + ", ".join(a[0]) + "| " + rend_l(a[1])
    if op == "block":
        return "{ .. }"
    raise Untranslatable(f"cannot render expression {n!r}"[:300])


def short(s):
    try:
        if s.op == "let":
            return f"let {s.args[0]} = {rend_l(s.args[1])}"
        if s.op in ("stmt", "tail", "return"):
            e = s.args[0] if s.args else None
            if e is not None and e.op in ("for", "loop", "if", "match"):
                return f"{e.op} .."
            return rend_l(e) if e is not None else s.op
        if s.op in ("break", "continue"):
            return s.op + " " + str(s.args[0])
        return repr(s)[:160]
    except Exception:
        return repr(s)[:160]


def is_hold(e):
    e = unparen(e)
    return e is not None and e.op == "call" and path_text(e.args[0]) == HOLD_PATH


def hold_name(e, where):
    e = unparen(e)
    if len(e.args) != 3 or e.args[1].op != "str":
        raise Untranslatable(f"{where}: hold point without a literal name")
    return e.args[1].args[0].strip('"')


# ------------------------------------------------------------------------------------------------------------------
# control paths: the events of rs2lean_handler, with the hook statements kept

class CtlBody(RH.Body):
    def run(self, stmts, top=True):
        evs = []
        for k, s in enumerate(stmts):
            self.cur = s
            if s.kw.get("hooked"):
                evs += self.hook(s)
                continue
            last = k == len(stmts) - 1
            if s.op == "let":
                evs += self.let(s)
            elif s.op == "return":
                evs += self.ret_value(s.args[0], explicit=True)
            elif s.op == "break":
                if s.args[0] or s.args[1] is not None:
                    self.fail("`break` with a label or a value")
                evs.append(("brk",))
            elif s.op == "stmt":
                if is_hold(s.args[0]):
                    self.fail("hold point outside `#[cfg(feature = \"verif-hooks\")]`")
                evs += self.stmt(s.args[0])
            elif s.op == "tail":
                if not last:
                    self.fail("value expression in the middle of a block")
                evs += self.tail(s.args[0], top)
            else:
                self.fail(f"unsupported statement ({s.op})")
        self.cur = None
        return evs

    def hook(self, s):
        """a statement under the hook feature: a hold point, or a block of `drop(guard);` and hold points"""
        if s.op not in ("stmt", "tail"):
            self.fail("hook statement of an unrecognised shape")
        e = s.args[0]
        if is_hold(e):
            return [("hold", hold_name(e, self.where))]
        if e.op == "block":
            out = []
            for t in e.args:
                if t.op != "stmt":
                    self.fail("hook block: unrecognised statement")
                x = t.args[0]
                if is_hold(x):
                    out.append(("hold", hold_name(x, self.where)))
                elif x.op == "call" and path_text(x.args[0]) == "drop" and len(x.args) == 2 and \
                        RH.local_name(x.args[1]) and self.locals.get(RH.local_name(x.args[1])) == "vring_state":
                    out.append(("dropGuard", RH.local_name(x.args[1])))
                else:
                    self.fail("hook block: neither a hold point nor `drop(<ring guard>)`")
            return out
        self.fail("hook statement of an unrecognised shape")


class CtlExtract(RH.Extract):
    """`rs2lean_handler.Extract` over the parser / body walker of this file"""

    def need_helper(self, name, where):
        if name not in self.helper_fns:
            raise Untranslatable(f"{where}: helper `{name}` not found in the inherent impls of {RH.TYPE}")
        if name in self.helpers:
            return self.helpers[name]
        if name in self.stack:
            raise Untranslatable(f"{where}: helper `{name}` is recursive")
        self.stack.append(name)
        try:
            params, ret, b = self.helper_fns[name]
            w = f"{HANDLER}: fn {name}"
            body = CtlBody(self, name, params, ret, w)
            evs = body.finish(body.run(LtsParser(b, w).block()))
            self.helpers[name] = evs
        finally:
            self.stack.pop()
        return evs

    def inline_value(self, name, args, tr):
        self.need_helper(name, tr.b.where)
        params, ret, b = self.helper_fns[name]
        w = f"{HANDLER}: fn {name}"
        stmts = LtsParser(b, w).block()
        body = CtlBody(self, name, params, ret, w)
        for s in stmts[:-1]:
            body.cur = s
            if s.kw.get("hooked"):
                tr.fail(f"helper `{name}` used as a value contains a hold point")
            body.let(s)
        if not stmts or stmts[-1].op != "tail":
            tr.fail(f"helper `{name}` used as a value has no result expression")
        return RH.HTr(body).tr(stmts[-1].args[0])

    def rows_of(self, names):
        rows = []
        api = {n: (p, r, b) for n, p, r, b in self.api}
        for name in names:
            if name not in api:
                raise Untranslatable(f"{HANDLER}: impl {RH.TRAIT} for {RH.TYPE}: fn {name} not found")
            params, ret, b = api[name]
            w = f"{HANDLER}: {RH.TRAIT}::{name}"
            body = CtlBody(self, name, params, ret, w)
            rows.append((name, body.finish(body.run(LtsParser(b, w).block()))))
        return rows


CONTROL_FNS = ("set_vring_enable", "reset_device", "get_vring_base", "set_vring_kick")


# ------------------------------------------------------------------------------------------------------------------
# worker loop, shutdown paths: a walker of its own

def find_fns(repo, rel):
    """{(type, trait or None, fn): (params, ret, body)}; a name defined twice for the same (type, trait) is an error"""
    path = os.path.join(repo, rel)
    items = scan_items(tokenize(open(path).read()), FEATURES)
    out = {}
    for it in items:
        if it.kind != "impl":
            continue
        trait, ty = impl_header(it)
        for name, attrs, params, ret, b in impl_fns(it, FEATURES):
            if b is None:
                continue
            key = (ty, trait, name)
            if key in out:
                raise Untranslatable(f"{rel}: fn {name} of impl {trait or ''} {ty} is defined twice")
            out[key] = (params, ret, b)
    return out


class Walk:
    """one function body of event_loop.rs / vring.rs / lib.rs / the teardown part of handler.rs"""

    def __init__(self, X, rel, fname, closures=None):
        self.X, self.rel, self.fname = X, rel, fname
        self.cur = None
        self.closures = dict(closures or {})    # local closure name -> events of its body
        self.loops = []

    @property
    def where(self):
        s = f"{self.rel}: fn {self.fname}"
        if self.cur is not None:
            s += ": statement `" + re.sub(r"\s+", " ", short(self.cur))[:160] + "`"
        return s

    def fail(self, msg):
        raise Untranslatable(f"{self.where}: {msg}")

    def text(self, n, allow=()):
        return pure_text(n, self.where, allow)

    # ---- blocks
    def block(self, stmts, arm=False):
        evs = []
        for k, s in enumerate(stmts):
            self.cur = s
            last = k == len(stmts) - 1
            if s.kw.get("hooked"):
                e = s.args[0] if s.op in ("stmt", "tail") else None
                if e is None or not is_hold(e):
                    self.fail("hook statement that is not a hold point")
                evs.append(("hold", hold_name(e, self.where)))
                continue
            if s.op == "let":
                evs += self.let(s)
            elif s.op == "return":
                r = self.result(s.args[0])
                if r is None:
                    self.fail("`return` of a value that is neither `Ok(..)` nor `Err(..)`")
                evs += r
            elif s.op == "continue":
                evs.append(("cont", s.args[0]))
            elif s.op == "break":
                lab, val = s.args
                if val is not None:
                    if lab:
                        self.fail("`break` with a label and a value")
                    evs.append(("brkVal", self.text(val)))
                elif lab:
                    evs.append(("brkTo", lab))
                else:
                    evs.append(("brk",))
            elif s.op == "stmt":
                if is_hold(s.args[0]):
                    self.fail("hold point outside `#[cfg(feature = \"verif-hooks\")]`")
                evs += self.stmt(s.args[0])
            elif s.op == "tail":
                if not last:
                    self.fail("value expression in the middle of a block")
                evs += self.tail(s.args[0], arm)
            else:
                self.fail(f"unsupported statement ({s.op})")
        self.cur = None
        return evs

    def sub(self, blk, arm=False):
        saved = self.cur
        try:
            return self.block(blk.args, arm)
        finally:
            self.cur = saved

    # ---- effects inside an expression: returns (events, text of the value)
    def effect(self, e, bind=""):
        """`e` is one of the recognised effectful expressions; else None"""
        pe = unparen(e)
        tried = pe.op == "try"
        x = unparen(pe.args[0]) if tried else pe
        err = ""
        if x.op == "mcall" and x.args[1] == "map_err" and len(x.args) == 3:
            err = self.err_variant(x.args[2])
            x = unparen(x.args[0])
        txt = rend_l(x)
        full = rend_l(pe)
        if txt == "self.epoll.wait(-1, &events[..])" and not tried and not err:
            return [("epollWait",)], full
        if txt == "kick.consume()" and not err:
            return [("consume", tried)], full
        if txt == "handle.join()" and tried and err:
            return [("threadJoin", "handle", err)], full
        if txt == "thread.join()" and not tried and not err:
            return [("threadJoin", "thread", "")], full
        if txt == "vring.read_kick()" and tried and err:
            return [("readKick", err, bind, self.X.read_kick_body(self.where))], full
        if txt == "handler.handle_request()" and not tried and err:
            return [("handleRequest", err)], full
        if txt == "handler.try_clone_connection()" and tried and err:
            return [("libTry", "handler.try_clone_connection", err)], full
        if txt in ("Listener::new(socket, true)", "BackendListener::new(listener, self.handler.clone())") and tried and err:
            return [("libTry", txt.split("(")[0], err)], full
        if txt == "backend_listener.accept()" and not tried and not err:
            return [("libCall", "backend_listener.accept")], full
        if re.match(r"\w+\.shutdown_requested\.load\(Ordering::(\w+)\)$", txt) and not tried and not err:
            return [("atomicLoad", txt.split(".load(")[0], txt.split("Ordering::")[1][:-1])], full
        if txt == "self.backend.handle_event(device_event, evset, &self.vrings, self.thread_id)" and tried and err:
            return [("backendHandleEvent", err)], full
        # helper calls
        if x.op == "mcall" and RH.is_self(x.args[0]) and x.args[1] in self.X.self_helpers(self.rel) and not err:
            if self.rel == HANDLER and x.args[1] == "send_exit_event" and len(x.args) == 2 and not tried:
                return [self.X.exit_call("handler", "self", self.where)], full
            return [self.X.helper_call(self, x.args[1], x.args[2:], tried)], full
        # the closure handed to `spawn`
        if x.op == "mcall" and x.args[1] == "spawn" and tried and err and len(x.args) == 3 and \
                unparen(x.args[2]).op == "closure" and rend_l(x.args[0]) == "thread::Builder::new().name(self.name.clone())":
            cl = unparen(x.args[2])
            if cl.args[0]:
                self.fail("spawned closure with parameters")
            body = cl.args[1]
            if body.op != "block":
                self.fail("spawned closure without a block body")
            row = self.X.thread_row(self, body)
            return [("spawn", bind, err, row)], full
        return None

    def err_variant(self, n):
        n = unparen(n)
        if n.op == "path" and len(n.args) == 2 and n.args[0] in ("Error", "VringEpollError", "VhostUserError"):
            return n.args[1]
        if n.op == "closure":
            return self.err_variant(n.args[1])
        if n.op == "call":
            return self.err_variant(n.args[0])
        self.fail(f"unrecognised error value `{rend_l(n)}`")

    # ---- statements
    def let(self, s):
        name, e, els = s.args[0], s.args[1], s.kw.get("els")
        name = norm_pat(name)
        pe = unparen(e)
        if els is not None:
            # let Some(x) = SCRUT else { .. };
            scr = self.scrut(pe)
            return scr[0] + [("letElse", name, scr[1], self.sub(els))]
        if pe.op == "match":
            return self.match(pe, name)
        if pe.op == "loop":
            return self.loop(pe, name)
        if pe.op == "closure":
            if pe.args[0]:
                self.fail("local closure with parameters")
            body = pe.args[1]
            evs = self.sub(body, arm=True) if body.op == "block" else self.value_events(body)
            self.closures[name] = evs
            return [("closure", name, evs)]
        if name == "_":
            txt = rend_l(pe)
            m = re.match(r"([\w.]+\.conn)\.shutdown\(Shutdown::Both\)$", txt)
            if m:
                return [("sockShutdown", m.group(1))]
            if txt == "eventfd.notify()":
                return [("exitEventSend",)]
            self.fail("unrecognised discarded value")
        eff = self.effect(pe, name)
        if eff is not None:
            evs, txt = eff
            if evs[-1][0] in ("readKick", "spawn"):     # these events carry the binding themselves
                return evs
            return evs + [("bind", name, txt)]
        # struct literal with an effect in a field (start_daemon's `state`)
        inner = pe
        if inner.op == "call" and path_text(inner.args[0]) == "Arc::new" and len(inner.args) == 2 and \
                unparen(inner.args[1]).op == "struct":
            st = unparen(inner.args[1])
            evs, fields = [], []
            for fname, fv in st.args[1]:
                eff = self.effect(fv, fname)
                if eff is not None:
                    evs += eff[0]
                    fields.append(f"{fname}: {eff[1]}")
                else:
                    fields.append(f"{fname}: {self.text(fv)}")
            return evs + [("bind", name, f"Arc::new({st.args[0]} {{ {', '.join(fields)} }})")]
        return [("bind", name, self.text(pe))]

    def value_events(self, e):
        """an expression in value position (closure body, arm): its effects, then `value text`"""
        pe = unparen(e)
        # X.is_some_and(|s| EFFECT)
        if pe.op == "mcall" and pe.args[1] == "is_some_and" and len(pe.args) == 3 and unparen(pe.args[2]).op == "closure":
            cl = unparen(pe.args[2])
            if len(cl.args[0]) != 1:
                self.fail("`is_some_and` closure")
            inner = self.value_events(cl.args[1])
            return [("ifSome", self.text(pe.args[0]), inner, [("value", "false")])]
        eff = self.effect(pe)
        if eff is not None:
            return eff[0] + [("value", eff[1])]
        if pe.op == "try":
            return [("propagate", self.text(pe.args[0]))]
        return [("value", self.text(pe))]

    def scrut(self, e):
        """scrutinee of `if let` / `let else` / `match`: (events evaluating it, text)"""
        pe = unparen(e)
        eff = self.effect(pe)
        if eff is not None:
            return eff
        return [], self.text(pe, allow=("take",))

    def stmt(self, e):
        pe = unparen(e)
        if pe.op == "if":
            return self.if_(pe, False)
        if pe.op == "for":
            return self.for_(pe)
        if pe.op == "loop":
            return self.loop(pe, "")
        if pe.op == "match":
            return self.match(pe, "")
        if pe.op == "macro":
            if pe.args[0] in ("println", "error"):
                return [("libCall", pe.args[0] + "!")]
            self.fail(f"macro `{pe.args[0]}!`")
        if pe.op == "assign":
            op, lhs, rhs = pe.args
            if op == "=" and RH.self_field(lhs) and lhs.args[1] in ("conn_state", "main_thread"):
                return [("setField", lhs.args[1], self.text(rhs))]
            self.fail("unrecognised assignment")
        txt = rend_l(pe)
        m = re.match(r"([\w.]+)\.store\((\w+), Ordering::(\w+)\)$", txt)
        if m:
            return [("atomicStore", m.group(1), m.group(2), m.group(3))]
        if txt == "self.handler.lock().unwrap().send_exit_event()":
            return [self.X.exit_call("handler", "self.handler.lock().unwrap()", self.where)]
        if txt == "handler.send_exit_event()":
            return [self.X.exit_call("worker", "handler", self.where)]
        eff = self.effect(pe)
        if eff is not None:
            return eff[0]
        self.fail("unrecognised statement")

    def cond_events(self, c):
        """a condition: events of a helper call inside it (at most one, the whole condition being `self.f(..)?`), text"""
        pc = unparen(c)
        inner = unparen(pc.args[0]) if pc.op == "try" else pc
        if inner.op == "mcall" and RH.is_self(inner.args[0]) and inner.args[1] in self.X.self_helpers(self.rel):
            return [self.X.helper_call(self, inner.args[1], inner.args[2:], pc.op == "try")], rend_l(pc)
        return [], self.text(pc)

    def if_(self, e, tailpos):
        cond, th, el = e.args
        if cond.op == "iflet":
            pat, scrut = norm_pat(cond.args[0]), cond.args[1]
            evs, txt = self.scrut(scrut)
            t = self.sub(th, arm=tailpos)
            f = self.else_(el, tailpos)
            if re.match(r"Some\(\w+\)$", pat):
                return evs + [("ifSome", txt, t, f)]
            return evs + [("ifLet", pat, txt, t, f)]
        evs, txt = self.cond_events(cond)
        t = self.sub(th, arm=tailpos)
        f = self.else_(el, tailpos)
        return evs + [("ifCond", txt, t, f)]

    def else_(self, el, tailpos):
        if el is None:
            return []
        if el.op == "if":
            return self.if_(el, tailpos)
        return self.sub(el, arm=tailpos)

    def for_(self, e):
        pat, it, body = e.args
        txt = self.text(it, allow=("drain", "take"))
        return [("forEach", txt, self.sub(body))]

    def loop(self, e, bind):
        lab, body = e.args
        return [("loop", lab, "" if bind == "" else bind, self.sub(body))]

    def match(self, e, bind):
        scrut, arms = e.args
        evs, txt = self.scrut(scrut)
        out = []
        for pat, guard, body in arms:
            gtxt, gevs = "", []
            if guard is not None:
                g = unparen(guard)
                if g.op == "call" and len(g.args) == 1 and path_text(g.args[0]) in self.closures:
                    gtxt = rend_l(g)
                    gevs = self.closures[path_text(g.args[0])]
                else:
                    gtxt = self.text(g)
            pb = unparen(body)
            if pb.op == "block":
                bevs = self.sub(pb, arm=True)
            elif pb.op == "match":
                bevs = self.match(pb, "")
            else:
                bevs = self.value_events(pb)
            out.append(("arm", norm_pat(pat), gtxt, gevs, bevs))
        return evs + [("matchOn", bind, txt, out)]

    def result(self, e):
        """`return E` / the function's result"""
        if e is None:
            self.fail("`return` without a value")
        pe = unparen(e)
        if RH.is_err(pe):
            return [("err", self.err_variant(pe.args[1]))]
        v = RH.ok_arg(pe)
        if v is not None:
            if unparen(v).op == "unit":
                return [("ok",)]
            return [("okValue", self.text(v))]
        return None

    def tail(self, e, arm):
        pe = unparen(e)
        if pe.op == "if":
            return self.if_(pe, arm)
        if pe.op == "for":
            return self.for_(pe)
        if pe.op == "loop":
            return self.loop(pe, "")
        if pe.op == "match":
            return self.match(pe, "")
        if arm:
            return self.value_events(pe)
        r = self.result(pe)
        if r is not None:
            return r
        # the function's value
        eff = self.effect(pe)
        if eff is not None:
            return eff[0] + [("value", eff[1])]
        return [("value", self.text(pe))]


def count_params(toks):
    """number of parameters other than the receiver"""
    groups, depth, cur = [], 0, []
    for t in toks:
        if t.text in ("(", "[", "{", "<"):
            depth += 1
        elif t.text in (")", "]", "}", ">"):
            depth -= 1
        elif t.text == ">>":
            depth -= 2
        if t.text == "," and depth == 0:
            groups.append(cur)
            cur = []
        else:
            cur.append(t)
    if cur:
        groups.append(cur)
    return len([g for g in groups if "self" not in [x.text for x in g][:3]])


class Extract:
    def __init__(self, repo):
        self.repo = repo
        self.fns = {rel: find_fns(repo, rel) for rel in (EVENT_LOOP, VRING, LIB, HANDLER)}
        self.helper_rows = {}     # name -> events (generic bodies), in the order first needed
        self.thread_rows = {}
        self.stack = []

    # which `self.x(..)` calls are helper calls, per file: name -> (type, trait)
    SELF = {
        EVENT_LOOP: {"handle_event": ("VringEpollHandler", None)},
        LIB: {"reset_connection_state": ("VhostUserDaemon", None), "start": ("VhostUserDaemon", None),
              "accept": ("VhostUserDaemon", None), "start_daemon": ("VhostUserDaemon", None),
              "wait": ("VhostUserDaemon", None)},
        HANDLER: {"send_exit_event": ("VhostUserHandler", None)},
        VRING: {},
    }

    def self_helpers(self, rel):
        return self.SELF[rel]

    def fn(self, rel, ty, trait, name):
        key = (ty, trait, name)
        if key not in self.fns[rel]:
            raise Untranslatable(f"{rel}: fn {name} of impl {(trait + ' for ') if trait else ''}{ty} not found")
        return self.fns[rel][key]

    def body_events(self, rel, ty, trait, name, label=None):
        key = (rel, ty, trait, name)
        if not hasattr(self, "cache"):
            self.cache = {}
        if key not in self.cache:
            self.cache[key] = self._body_events(rel, ty, trait, name, label)
        return self.cache[key]

    def _body_events(self, rel, ty, trait, name, label=None):
        label = label or name
        if label in self.stack:
            raise Untranslatable(f"{rel}: fn {name} is recursive")
        self.stack.append(label)
        try:
            params, ret, b = self.fn(rel, ty, trait, name)
            w = f"{rel}: fn {name}"
            wk = Walk(self, rel, name)
            evs = wk.block(LtsParser(b, w).block())
            rt = "".join(t.text for t in ret)
            if not rt:
                if evs and evs[-1][0] in ("ok", "okValue", "err", "value"):
                    raise Untranslatable(f"{w}: function without a return type ends in a result")
                evs = evs + [("done",)]
            return evs
        finally:
            self.stack.pop()

    def helper_call(self, caller, name, args, tried):
        ty, trait = self.SELF[caller.rel][name]
        if name not in self.helper_rows:
            self.helper_rows[name] = None
            self.helper_rows[name] = self.body_events(caller.rel, ty, trait, name)
        body = self.helper_rows[name]
        if body is None:
            raise Untranslatable(f"{caller.where}: helper `{name}` is recursive")
        nparams = count_params(self.fn(caller.rel, ty, trait, name)[0])
        if nparams != len(args):
            caller.fail(f"`self.{name}` called with {len(args)} arguments")
        rt = "".join(t.text for t in self.fn(caller.rel, ty, trait, name)[1])
        if tried != ("Result" in rt):
            if tried:
                caller.fail(f"`self.{name}(..)?` on a helper that does not return a `Result`")
        return ("helperCall", name, [caller.text(a) for a in args], tried, body)

    def exit_call(self, which, recv, where):
        if which == "handler":
            name, key = "VhostUserHandler::send_exit_event", (HANDLER, "VhostUserHandler", None, "send_exit_event")
        else:
            name, key = "VringEpollHandler::send_exit_event", (EVENT_LOOP, "VringEpollHandler", None, "send_exit_event")
        if name not in self.helper_rows:
            self.helper_rows[name] = self.body_events(*key, label=name)
        return ("helperCall", name, [recv], False, self.helper_rows[name])

    def read_kick_body(self, where):
        """`vring.read_kick()` on `T::Vring`: both wrappers are `self.get_ref().read_kick()`; then `VringState::read_kick`"""
        if "read_kick" in self.helper_rows:
            return self.helper_rows["read_kick"]
        for ty in ("VringRwLock", "VringMutex"):
            params, ret, b = self.fn(VRING, ty, "VringT", "read_kick")
            st = LtsParser(b, f"{VRING}: {ty}::read_kick").block()
            if len(st) != 1 or st[0].op != "tail" or rend_l(st[0].args[0]) != "self.get_ref().read_kick()":
                raise Untranslatable(f"{VRING}: VringT::read_kick of {ty} is not `self.get_ref().read_kick()`")
        evs = [("vringGet", "get_ref", "")] + self.body_events(VRING, "VringState", None, "read_kick")
        self.helper_rows["read_kick"] = evs
        return evs

    def thread_row(self, caller, body):
        name = "daemon_thread"
        if name in self.thread_rows:
            caller.fail("a second spawned closure")
        wk = Walk(self, caller.rel, caller.fname + " (spawned closure)")
        self.thread_rows[name] = wk.block(body.args)
        return name


# ------------------------------------------------------------------------------------------------------------------
# segments: residual programs from function entry and from every hold point

NODE2 = {"ifCond": (2, 3), "ifSome": (2, 3), "ifLet": (3, 4)}     # kinds with two bodies (spliced when resumed inside)


def bodies(ev):
    """indexes of the event-list fields of an event"""
    k = ev[0]
    if k == "helperCall":
        return [4]
    if k in ("forEachVring", "closure_"):
        return [1]
    if k in ("forEach",):
        return [2]
    if k in NODE2:
        return list(NODE2[k])
    if k == "letElse":
        return [3]
    if k == "loop":
        return [3]
    if k == "matchOn":
        return [3]
    if k == "arm":
        return [3, 4]
    if k == "readKick":
        return [3]
    if k == "closure":
        return []        # a closure's body runs where it is called (its events are carried by the arm's guard)
    if k == "loopFrom":
        return [3, 4]
    if k == "forFrom":
        return [2, 3]
    if k == "forVringFrom":
        return [1, 2]
    return []


def holds_in(evs):
    out = []
    for e in evs:
        if e[0] == "hold":
            out.append(e[1])
        for i in bodies(e):
            out += holds_in(e[i])
    return out


class Found(Exception):
    pass


def resid(evs, name, cnt):
    """(residual or None, remaining count): the program left after the `cnt`-th (0-based) hold `name` in `evs`"""
    for j, e in enumerate(evs):
        r, cnt = resid_ev(e, name, cnt)
        if r is not None:
            return r + evs[j + 1:], cnt
    return None, cnt


def resid_ev(e, name, cnt):
    k = e[0]
    if k == "hold":
        if e[1] == name:
            if cnt == 0:
                return [], 0
            return None, cnt - 1
        return None, cnt
    if k == "helperCall":
        r, cnt = resid(e[4], name, cnt)
        return ([("helperCall", e[1], e[2], e[3], r)] if r is not None else None), cnt
    if k == "readKick":
        r, cnt = resid(e[3], name, cnt)
        return ([("readKick", e[1], e[2], r)] if r is not None else None), cnt
    if k in NODE2:
        for i in NODE2[k]:
            r, cnt = resid(e[i], name, cnt)
            if r is not None:
                return r, cnt
        return None, cnt
    if k == "letElse":
        r, cnt = resid(e[3], name, cnt)
        return r, cnt
    if k == "matchOn":
        for a in e[3]:
            for i in (3, 4):
                r, cnt = resid(a[i], name, cnt)
                if r is not None:
                    return r, cnt
        return None, cnt
    if k == "loop":
        r, cnt = resid(e[3], name, cnt)
        return ([("loopFrom", e[1], e[2], r, e[3])] if r is not None else None), cnt
    if k == "forEach":
        r, cnt = resid(e[2], name, cnt)
        return ([("forFrom", e[1], r, e[2])] if r is not None else None), cnt
    if k == "forEachVring":
        r, cnt = resid(e[1], name, cnt)
        return ([("forVringFrom", r, e[1])] if r is not None else None), cnt
    return None, cnt


RET_ACTS = ("ok", "okValue", "okBackend", "retBackend", "err", "done")


def outcomes(evs):
    """how control can leave an event list: subset of {"fall", "hold", "ret", "brk", "again", "to:<label>"}"""
    cur = {"fall"}
    for e in evs:
        if "fall" not in cur:
            break
        cur = (cur - {"fall"}) | outcomes_ev(e)
    return cur


def loop_out(label, b):
    res = b & {"hold", "ret"}
    res |= {x for x in b if x.startswith("to:") and x != "to:" + label}
    if "brk" in b or ("to:" + label) in b:
        res.add("fall")
    return res


def outcomes_ev(e):
    k = e[0]
    if k == "hold":
        return {"hold"}
    if k in RET_ACTS:
        return {"ret"}
    if k in ("brk", "brkVal"):
        return {"brk"}
    if k == "cont":
        return {"again"} if e[1] == "" else {"to:" + e[1]}
    if k == "brkTo":
        return {"to:" + e[1]}
    if k == "propagate":
        return {"fall", "ret"}
    if k in NODE2:
        i, j = NODE2[k]
        return outcomes(e[i]) | outcomes(e[j])
    if k == "letElse":
        return outcomes(e[3]) | {"fall"}
    if k in ("helperCall", "readKick"):
        b = outcomes(e[4] if k == "helperCall" else e[3])
        res = b & {"hold"}
        if "ret" in b or "fall" in b:
            res.add("fall")
        return res
    if k == "matchOn":
        if not e[3]:
            return {"fall"}
        res = set()
        for a in e[3]:
            res |= outcomes(a[4])
        return res
    if k == "loop":
        return loop_out(e[1], outcomes(e[3]))
    if k == "loopFrom":
        c = outcomes(e[3])
        res = loop_out(e[1], c - {"fall"})
        if "fall" in c or "again" in c:
            res |= loop_out(e[1], outcomes(e[4]))
        return res
    if k in ("forEach", "forEachVring", "forFrom", "forVringFrom"):
        res = {"fall"}
        for i in bodies(e):
            b = outcomes(e[i])
            res |= b & {"hold", "ret"}
            res |= {x for x in b if x.startswith("to:")}
        return res
    return {"fall"}


def stops(e):
    return "fall" not in outcomes_ev(e)


def prune(evs):
    out = []
    for e in evs:
        e2 = prune_ev(e)
        out.append(e2)
        if stops(e2):
            break
    return out


def prune_ev(e):
    idx = bodies(e)
    if not idx:
        return e
    e = list(e)
    if e[0] == "matchOn":
        e[3] = [tuple(list(a[:3]) + [prune(a[3]), prune(a[4])]) for a in e[3]]
        return tuple(e)
    # the loop body kept by a resumed frame is pruned like any other body
    for i in idx:
        e[i] = prune(e[i])
    return tuple(e)


def segments_of(evs):
    segs = [("entry", prune(evs))]
    seen = {}
    for h in holds_in(evs):
        c = seen.get(h, 0)
        seen[h] = c + 1
        r, _ = resid(evs, h, c)
        if r is None:
            raise Untranslatable(f"internal: hold point {h}#{c} not found again")
        segs.append((h if c == 0 else f"{h}#{c}", prune(r)))
    return segs


# ------------------------------------------------------------------------------------------------------------------
# emission

SCHEMA = {
    # new acts
    "hold": "s", "cont": "s", "brkTo": "s", "brkVal": "s", "propagate": "s", "epollWait": "", "consume": "b",
    "backendHandleEvent": "s", "atomicStore": "sss", "atomicLoad": "ss", "sockShutdown": "s", "threadJoin": "ss",
    "handleRequest": "s", "exitEventSend": "", "spawn": "sss", "dropGuard": "s",
    # acts of Base.HandlerSig
    "brk": "", "ok": "", "done": "", "epollUnregister": "", "featureAcked": "ns", "indexBound": "s", "err": "s",
    "okValue": "s", "value": "s", "libCall": "s", "valueCheck": "ss", "libTry": "ss", "setField": "ss", "vringGet": "ss",
    "bind": "ss", "epollRegister": "ss", "vringCall": "sL", "backendCall": "sL", "vringTry": "sLss",
    # nodes
    "helperCall": "sLbE", "forEachVring": "E", "forEach": "sE", "ifCond": "sEE", "ifSome": "sEE", "ifLet": "ssEE",
    "letElse": "ssE", "loop": "ssE", "matchOn": "ssE", "arm": "ssEE", "closure": "sE", "readKick": "ssE",
    "loopFrom": "ssEE", "forFrom": "sEE", "forVringFrom": "EE",
}


def lean_ev(ev, ind):
    k = ev[0]
    if k not in SCHEMA:
        raise Untranslatable(f"internal: event kind {k} has no rendering")
    sch = SCHEMA[k]
    if len(sch) != len(ev) - 1:
        raise Untranslatable(f"internal: event {k} with {len(ev) - 1} fields")
    pad = " " * ind

    def body(es):
        if not es:
            return "[]"
        return "[\n" + ",\n".join(pad + "  " + lean_ev(x, ind + 2) for x in es) + "]"
    parts = ["." + k]
    for t, v in zip(sch, ev[1:]):
        if t == "s":
            parts.append(lstr(v))
        elif t == "n":
            parts.append(str(v))
        elif t == "b":
            parts.append("true" if v else "false")
        elif t == "L":
            parts.append("[" + ", ".join(lstr(a) for a in v) + "]")
        else:
            parts.append(body(v))
    return " ".join(parts)


def lean_rows(name, doc, rows):
    out = [f"/-- {doc} -/", f"def {name} : List LRow := ["]
    out.append(",\n".join("  (%s, [\n%s])" % (lstr(n), ",\n".join("    " + lean_ev(e, 4) for e in evs)) for n, evs in rows))
    out.append("]")
    return out


def lean_segs(name, doc, rows):
    out = [f"/-- {doc} -/", f"def {name} : List (String × List LRow) := ["]
    items = []
    for n, evs in rows:
        segs = segments_of(evs)
        items.append("  (%s, [\n%s])" % (lstr(n), ",\n".join(
            "    (%s, [\n%s])" % (lstr(h), ",\n".join("      " + lean_ev(e, 6) for e in sevs)) if sevs else
            "    (%s, [])" % lstr(h) for h, sevs in segs)))
    out.append(",\n".join(items))
    out.append("]")
    return out


def gen_lts(world):
    try:
        return _gen_lts(world)
    except Untranslatable:
        raise
    except Exception as e:   # an unexpected shape must not surface as a Python error (or be skipped)
        raise Untranslatable(f"LtsSteps: unexpected shape ({type(e).__name__}: {e})")


def _gen_lts(world):
    repo = gen_lts.repo
    # worker
    X = Extract(repo)
    worker = [("run", X.body_events(EVENT_LOOP, "VringEpollHandler", None, "run"))]
    worker_helpers = [(n, X.helper_rows[n]) for n in ("handle_event", "read_kick") if n in X.helper_rows]
    if [n for n, _ in worker_helpers] != ["handle_event", "read_kick"]:
        raise Untranslatable(f"{EVENT_LOOP}: `run` does not reach `handle_event` and `read_kick`")
    # control
    C = CtlExtract(world, repo)
    control = C.rows_of(CONTROL_FNS)
    control_helpers = list(C.helpers.items())
    # shutdown
    S = Extract(repo)
    shutdown = [
        ("start_daemon", S.body_events(LIB, "VhostUserDaemon", None, "start_daemon")),
    ]
    if "daemon_thread" not in S.thread_rows:
        raise Untranslatable(f"{LIB}: `start_daemon` spawns no thread")
    shutdown = [("daemon_thread", S.thread_rows["daemon_thread"])] + shutdown
    shutdown.append(("shutdown", S.body_events(LIB, "ShutdownHandle", None, "shutdown")))
    shutdown.append(("wait", S.body_events(LIB, "VhostUserDaemon", None, "wait")))
    shutdown.append(("serve", S.body_events(LIB, "VhostUserDaemon", None, "serve")))
    shutdown.append(("daemon_drop", S.body_events(LIB, "VhostUserDaemon", "Drop", "drop")))
    shutdown.append(("handler_drop", S.body_events(HANDLER, "VhostUserHandler", "Drop", "drop")))
    shutdown_helpers = [(n, b) for n, b in S.helper_rows.items()]
    out = [LEAN_HEADER, "import VhostModel.Base.LtsSig", "", "set_option linter.unusedVariables false", "",
           "/-! The functions the steps of `Model.Worker` (C12) and `Model.Shutdown` (C16) stand for, as event lists with the",
           "hold points of feature `verif-hooks` kept (`hold name`), and the segments between the hold points derived from",
           "them (tools/rs2lean_lts.py); vocabulary: `VhostModel/Base/HandlerSig.lean`, `VhostModel/Base/LtsSig.lean`. -/",
           "namespace Gen.LtsSteps", "open Base", "open Base.LEvent", ""]
    out += lean_rows("workerRows", f"`VringEpollHandler::run` ({EVENT_LOOP}), `handle_event` and `read_kick` ({VRING}) carried along",
                     worker) + [""]
    out += lean_rows("workerHelpers", "the helpers reached from `run`, bodies as written", worker_helpers) + [""]
    out += lean_rows("controlRows", f"the control paths of {HANDLER}", control) + [""]
    out += lean_rows("controlHelpers", "the private helpers reached from the control paths, in the order first needed",
                     control_helpers) + [""]
    out += lean_rows("shutdownRows", f"daemon thread, `start_daemon`, `shutdown`, `wait`, `serve`, the two `Drop`s ({LIB}, {HANDLER})",
                     shutdown) + [""]
    out += lean_rows("shutdownHelpers", "the helpers reached from the shutdown paths, in the order first needed",
                     shutdown_helpers) + [""]
    out += lean_segs("workerSegments", "per row: the residual program from function entry and from every hold point", worker) + [""]
    out += lean_segs("controlSegments", "per row: the residual program from function entry and from every hold point", control) + [""]
    out += lean_segs("shutdownSegments", "per row: the residual program from function entry and from every hold point", shutdown) + [""]
    out += ["end Gen.LtsSteps"]
    return "\n".join(out) + "\n"


def generators(repo):
    gen_lts.repo = repo
    return [("LtsSteps", gen_lts)]
