"""Translator extension: the lock shape of every public method of the three shared endpoints
(`Frontend`, `Backend` proxy, `GpuBackend`) -> lean/VhostModel/Gen/LockShapes.lean   (property C10).

For every method (a `fn` with a `self` receiver) of every `impl` of the handle type in

    vhost/src/vhost_user/frontend.rs          Frontend    (inherent, VhostBackend, VhostUserFrontend, AsRawFd)
    vhost/src/vhost_user/backend_req.rs       Backend     (inherent, VhostUserFrontendReqHandler)
    vhost/src/vhost_user/gpu_backend_req.rs   GpuBackend  (inherent)

the body is walked in evaluation order and turned into an *event list* over `Base.LockSig.Event`:

    acquire b        `let [mut] b = self.node()` / `let [mut] b = self.<mutex field>.lock().unwrap()`; the same expression
                     used as the receiver of a call / field access is a temporary guard `<tempN>` that is released at
                     the end of the statement
    localCheck       one or more adjacent early exits (`if .. { return .. }`, `<pure expr>?`) before the first send
    send b h         call of helper `h` of the `…Internal` struct on guard `b`, where `h` writes to the socket
    recv b h s       call of helper `h` on guard `b`, where `h` reads from the socket; `s` = the helper can return `Ok`
                     before reading (`wait_for_ack`)
    release b        `drop(b)`, end of the block that binds `b`, end of the statement for a temporary, end of the method
    stateWrite b f   assignment to field `f` of the guard

Helpers of the `…Internal` struct are summarised from their own bodies (which socket operations they perform on
`self.<endpoint field>`, following `self.other_helper(..)` calls); a helper that both sends and receives
(`BackendInternal::send_message` → `wait_for_ack`) contributes `send` then `recv` under the caller's guard.

An `if`/`match` whose branches perform different events splits the method into several rows (`branch` 0, 1, ..).
Everything the walker does not understand raises `Untranslatable` naming file, method and statement: a guard that is
passed to a function, aliased, shadowed, captured by a closure or created in an unsupported position; socket I/O in a
loop; an early exit between the first and the last socket operation of a method; a call of another method of the
handle (`self.x()`); any other use of `self`; an unknown method on the guard or on the socket.
Statements under `#[cfg(feature = "verif-hooks")]` (the harness's hold points) and other compiled-out statements are
dropped by the parser, as in the other translator modules.
Associated functions without a `self` receiver (constructors) are listed separately; their bodies must not mention
`.lock(` / `.node(`.

Picked up by tools/rs2lean.py through `generators(repo)`.
"""
import os

import rsparse
from rsparse import Untranslatable, Node, Parser, match_close

try:
    from rs2lean import FEATURES
except Exception:  # stand-alone use
    FEATURES = ("vhost-user", "vhost-user-frontend", "vhost-user-backend", "vhost-kern", "vhost-vdpa",
                "vhost-net", "vhost-vsock", "postcopy")

# (lean endpoint constructor, file, handle type, impls that must be present (trait or None))
SOURCES = [
    ("frontend", "vhost/src/vhost_user/frontend.rs", "Frontend", [None, "VhostBackend", "VhostUserFrontend", "AsRawFd"]),
    ("backend", "vhost/src/vhost_user/backend_req.rs", "Backend", [None, "VhostUserFrontendReqHandler"]),
    ("gpu", "vhost/src/vhost_user/gpu_backend_req.rs", "GpuBackend", [None]),
]
DROP_PATHS = (["drop"], ["mem", "drop"], ["std", "mem", "drop"], ["core", "mem", "drop"])
IO = ("send", "recv")


# ------------------------------------------------------------------------------------------
# parser: rsparse.Parser plus loops (`for`, `while`, `loop`, `break`, `continue`)


class LParser(Parser):
    def sub(self, toks):
        return LParser(toks, self.where)

    def primary(self):
        t = self.peek()
        if t.kind == "lifetime":
            self.err("labelled block / loop")
        if t.text == "{":
            k = match_close(self.t, self.i)
            inner = self.sub(self.t[self.i + 1:k]).block()
            self.i = k + 1
            return Node("block", *inner)
        if t.kind == "ident" and t.text == "for":
            self.eat()
            pat = []
            while not (self.peek().kind == "ident" and self.peek().text == "in"):
                if self.peek().kind == "eof":
                    self.err("`for` without `in`")
                pat.append(self.eat().text)
            self.eat("in")
            self.no_struct += 1
            it = self.expr()
            self.no_struct -= 1
            return Node("for", " ".join(pat), it, self.block_expr())
        if t.kind == "ident" and t.text == "while":
            self.eat()
            c = self.cond()
            return Node("while", c, self.block_expr())
        if t.kind == "ident" and t.text == "loop":
            self.eat()
            return Node("loop", self.block_expr())
        if t.kind == "ident" and t.text == "continue":
            self.eat()
            return Node("continue")
        if t.kind == "ident" and t.text == "break":
            self.eat()
            if self.peek().text in (";", "}", ",") or self.peek().kind == "eof":
                return Node("break", None)
            return Node("break", self.expr())
        if t.kind == "ident" and t.text in ("async", "await", "move", "let"):
            self.err(f"unsupported `{t.text}` in expression position")
        return Parser.primary(self)

    def block_expr(self):
        if not self.at("{"):
            self.err("expected block")
        k = match_close(self.t, self.i)
        inner = self.sub(self.t[self.i + 1:k]).block()
        self.i = k + 1
        return Node("block", *inner)

    def match_(self):
        self.eat("match")
        self.no_struct += 1
        scrut = self.expr()
        self.no_struct -= 1
        if not self.at("{"):
            self.err("expected match body")
        k = match_close(self.t, self.i)
        p = self.sub(self.t[self.i + 1:k])
        self.i = k + 1
        arms = []
        while p.peek().kind != "eof":
            skip = p.attrs() if p.at("#") else False
            pat = p.pattern()
            guard = None
            if p.at("if"):
                p.eat()
                guard = p.expr()
            p.eat("=>")
            if p.at("return"):
                p.eat()
                body = Node("return", None if p.at(",") else p.expr())
            else:
                body = p.expr()
            if p.at(","):
                p.eat()
            if not skip:
                arms.append((pat, guard, body))
        return Node("match", scrut, arms)


# ------------------------------------------------------------------------------------------
# source scanning


def split_commas(toks):
    out, cur, depth = [], [], 0
    for t in toks:
        if t.text in ("(", "[", "{", "<"):
            depth += 1
        elif t.text in (")", "]", "}", ">"):
            depth -= 1
        elif t.text == ">>":
            depth -= 2
        if t.text == "," and depth == 0:
            out.append(cur)
            cur = []
        else:
            cur.append(t)
    if cur:
        out.append(cur)
    return out


def struct_fields(item, where):
    """[(field name, type text)] of a braced struct item"""
    out = []
    toks = [t for t in item.toks]
    # drop attributes and visibility
    clean, i = [], 0
    while i < len(toks):
        if toks[i].text == "#":
            i = match_close(toks, i + 1) + 1
            continue
        if toks[i].text == "pub":
            i += 1
            if i < len(toks) and toks[i].text == "(":
                i = match_close(toks, i) + 1
            continue
        clean.append(toks[i])
        i += 1
    for f in split_commas(clean):
        if len(f) < 3 or f[0].kind != "ident" or f[1].text != ":":
            raise Untranslatable(f"{where}: field `{' '.join(t.text for t in f)}` is not `name: Type`")
        out.append((f[0].text, "".join(t.text for t in f[2:])))
    return out


def fn_visibility(item):
    """{fn name: 'pub' | 'pub(..)' | ''} for the fns at the top level of an impl body"""
    toks = item.toks
    out = {}
    i, n = 0, len(toks)
    while i < n:
        t = toks[i]
        if t.text in ("{", "(", "["):
            i = match_close(toks, i) + 1
            continue
        if t.kind == "ident" and t.text == "fn":
            vis = ""
            j = i - 1
            while j >= 0 and toks[j].kind == "ident" and toks[j].text in ("const", "unsafe", "async", "extern"):
                j -= 1
            if j >= 0 and toks[j].text == ")":
                # pub(crate)
                k = j
                while k >= 0 and toks[k].text != "(":
                    k -= 1
                if k >= 1 and toks[k - 1].text == "pub":
                    vis = "pub(" + "".join(x.text for x in toks[k + 1:j]) + ")"
            elif j >= 0 and toks[j].text == "pub":
                vis = "pub"
            out[toks[i + 1].text] = vis
        i += 1
    return out


def has_self_receiver(params):
    first = split_commas(params)
    if not first:
        return False
    return any(t.kind == "ident" and t.text == "self" for t in first[0])


def self_is_typed_receiver(params):
    """`self: Arc<Self>` style receivers are not understood"""
    first = split_commas(params)
    return bool(first) and any(t.text == ":" for t in first[0])


class Endpoint:
    """what was read from one source file"""

    def __init__(self, repo, ep, rel, ty, need):
        self.ep, self.rel, self.ty = ep, rel, ty
        path = os.path.join(repo, rel)
        with open(path) as f:
            toks = rsparse.tokenize(f.read())
        items = rsparse.scan_items(toks, FEATURES)
        structs = {it.name: it for it in items if it.kind == "struct"}
        if ty not in structs:
            raise Untranslatable(f"{rel}: struct {ty} not found")
        # the handle: every field must be `Arc<Mutex<Internal>>`
        self.mutex_fields = {}
        for fname, fty in struct_fields(structs[ty], f"{rel}: struct {ty}"):
            if fty.startswith("Arc<Mutex<") and fty.endswith(">>"):
                self.mutex_fields[fname] = fty[len("Arc<Mutex<"):-2]
            else:
                raise Untranslatable(f"{rel}: struct {ty}: field `{fname}: {fty}` is not `Arc<Mutex<..>>` "
                                     f"(state outside the lock is not modelled)")
        if len(self.mutex_fields) != 1:
            raise Untranslatable(f"{rel}: struct {ty}: expected exactly one `Arc<Mutex<..>>` field, found "
                                 f"{sorted(self.mutex_fields)}")
        (self.mutex_field, self.internal), = self.mutex_fields.items()
        if self.internal not in structs:
            raise Untranslatable(f"{rel}: struct {self.internal} (behind the mutex of {ty}) not found")
        self.sock_fields = [n for n, t in struct_fields(structs[self.internal], f"{rel}: struct {self.internal}")
                            if t.startswith("Endpoint<")]
        if len(self.sock_fields) != 1:
            raise Untranslatable(f"{rel}: struct {self.internal}: expected exactly one `Endpoint<..>` field, found "
                                 f"{self.sock_fields}")
        self.sock = self.sock_fields[0]
        self.internal_fields = [n for n, _ in struct_fields(structs[self.internal], f"{rel}: struct {self.internal}")]
        # impls
        self.helper_bodies = {}     # helpers of the Internal struct: name -> body tokens
        self.methods = []           # (impl label, name, vis, body tokens)
        self.assoc = []             # (impl label, name, vis) — no self receiver
        self.accessors = {}         # accessor method name -> mutex field
        found = []
        for it in items:
            if it.kind != "impl":
                continue
            trait, t = rsparse.impl_header(it)
            if t == self.internal:
                if trait is not None:
                    raise Untranslatable(f"{rel}: impl {trait} for {self.internal}: trait impls of the internal "
                                         f"struct are not understood")
                for name, _a, params, _r, body in rsparse.impl_fns(it, FEATURES):
                    if body is None:
                        raise Untranslatable(f"{rel}: {self.internal}::{name}: no body")
                    if name in self.helper_bodies:
                        raise Untranslatable(f"{rel}: {self.internal}::{name} defined twice")
                    self.helper_bodies[name] = (body, has_self_receiver(params))
                continue
            if t != ty:
                continue
            found.append(trait)
            label = f"{trait} for {ty}" if trait else ty
            vis = fn_visibility(it)
            for name, _a, params, _r, body in rsparse.impl_fns(it, FEATURES):
                where = f"{rel}: {label}::{name}"
                if body is None:
                    raise Untranslatable(f"{where}: no body")
                v = "pub" if trait else vis.get(name, "")
                if not has_self_receiver(params):
                    self.assoc.append((label, name, v, body))
                    continue
                if self_is_typed_receiver(params):
                    raise Untranslatable(f"{where}: typed `self` receiver")
                acc = self.accessor_field(body)
                if acc is not None:
                    if v:
                        raise Untranslatable(f"{where}: the guard accessor is public (callers could hold the guard "
                                             f"across calls)")
                    self.accessors[name] = acc
                    continue
                self.methods.append((label, name, v, body))
        for tr in need:
            if tr not in found:
                raise Untranslatable(f"{rel}: expected impl `{(tr + ' for ') if tr else ''}{ty}` not found")
        names = [n for _, n, _, _ in self.methods]
        dup = sorted({n for n in names if names.count(n) > 1})
        if dup:
            raise Untranslatable(f"{rel}: {ty}: method name(s) {dup} occur in more than one impl")
        # constructors: must not touch an existing lock
        for label, name, v, body in self.assoc:
            tx = [t.text for t in body]
            for k in range(len(tx) - 2):
                if tx[k] == "." and tx[k + 1] in ("lock", "try_lock", "node") + tuple(self.accessors) and tx[k + 2] == "(":
                    raise Untranslatable(f"{rel}: {label}::{name}: associated function takes a lock")
        self.summaries = {}
        self._in_progress = []

    def accessor_field(self, body):
        tx = [t.text for t in body]
        if len(tx) == 11 and tx[0:2] == ["self", "."] and tx[3:] == [".", "lock", "(", ")", ".", "unwrap", "(", ")"] \
                and tx[2] in self.mutex_fields:
            return tx[2]
        return None

    # -- helper summaries ------------------------------------------------------------------

    def summary(self, name, where):
        """events a helper of the Internal struct performs on `self`, attributed to helper names"""
        if name in self.summaries:
            return self.summaries[name]
        if name not in self.helper_bodies:
            raise Untranslatable(f"{where}: `{name}` is not a method of {self.internal}")
        if name in self._in_progress:
            raise Untranslatable(f"{where}: recursive helper {self.internal}::{name}")
        body, has_self = self.helper_bodies[name]
        if not has_self:
            raise Untranslatable(f"{where}: {self.internal}::{name} has no self receiver")
        self._in_progress.append(name)
        hw = f"{self.rel}: {self.internal}::{name}"
        stmts = LParser(body, hw).block()
        w = Walker(self, hw, helper=name)
        paths = w.run(stmts)
        self._in_progress.pop()
        proj = []
        for evs_, _t in paths:
            q = [e for e in evs_ if e[0] != "exit"]
            if q not in proj:
                proj.append(q)
        if len(proj) > 1:
            raise Untranslatable(f"{hw}: lock / socket events differ between the control-flow paths of the helper")
        evs = paths[0][0] if paths else []
        if any(e[0] == "write" for e in evs):
            raise Untranslatable(f"{hw}: helper assigns to a field of the guarded state (not modelled)")
        if any(e[0] in ("acquire", "release") for e in evs):
            raise Untranslatable(f"{hw}: helper of the guarded state takes or drops a guard")
        self.summaries[name] = evs
        return evs

    def call_events(self, name, on, where):
        """events the call `on.name(..)` contributes to its caller"""
        evs = self.summary(name, where)
        io = [e for e in evs if e[0] in IO]
        if not io:
            return []
        kinds = {e[0] for e in io}
        if kinds == {"send"}:
            return [("send", on, name)]
        if kinds == {"recv"}:
            first = next(k for k, e in enumerate(evs) if e[0] in IO)
            skippable = any(e == ("exit", True) for e in evs[:first]) or all(e[3] for e in io)
            return [("recv", on, name, skippable)]
        out = []
        for e in io:
            e2 = (e[0], on) + tuple(e[2:])
            if not out or out[-1] != e2:
                out.append(e2)
        return out


# ------------------------------------------------------------------------------------------
# the walker


class State:
    def __init__(self):
        self.events = []
        self.scopes = [[]]       # named guards per block scope (innermost last)
        self.temps = [[]]        # temporary guards per temporary scope
        self.terminated = False
        self.ret_mark = None
        self.ntemp = 0

    def clone(self):
        s = State()
        s.events = list(self.events)
        s.scopes = [list(x) for x in self.scopes]
        s.temps = [list(x) for x in self.temps]
        s.terminated, s.ret_mark, s.ntemp = self.terminated, self.ret_mark, self.ntemp
        return s

    def key(self):
        return (tuple(self.events), tuple(map(tuple, self.scopes)), tuple(map(tuple, self.temps)), self.terminated,
                self.ret_mark)

    def live(self):
        return [g for sc in self.scopes for g in sc]


def dedupe(sts):
    seen, out = set(), []
    for s in sts:
        k = s.key()
        if k not in seen:
            seen.add(k)
            out.append(s)
    return out


def strip(n):
    while n is not None and n.op in ("paren",):
        n = n.args[0]
    return n


def is_path(n, *names):
    return n is not None and n.op == "path" and n.args == list(names) and not n.kw.get("generics")


class Walker:
    """symbolic execution of a method body over the set of control-flow paths that differ in their events"""

    def __init__(self, ep, where, helper=None):
        self.ep, self.where, self.helper = ep, where, helper
        self.stmt_txt = "?"

    # -- diagnostics -----------------------------------------------------------------------

    def fail(self, msg):
        raise Untranslatable(f"{self.where}: {msg} — in statement `{self.stmt_txt}`")

    # -- guards ----------------------------------------------------------------------------

    def roots(self, st):
        """names that denote the guarded state at this point"""
        return (["self"] if self.helper else []) + st.live()

    def is_acq(self, e):
        """`self.node()` / `self.<mutex field>.lock().unwrap()`"""
        if self.helper:
            return False
        e = strip(e)
        if e is None or e.op != "mcall":
            return False
        recv, name, args = e.args[0], e.args[1], e.args[2:]
        if is_path(strip(recv), "self") and name in self.ep.accessors and not args:
            return True
        if name == "unwrap" and not args:
            r = strip(recv)
            if r.op == "mcall" and r.args[1] == "lock" and len(r.args) == 2:
                f = strip(r.args[0])
                if f.op == "field" and is_path(strip(f.args[0]), "self") and f.args[1] in self.ep.mutex_fields:
                    return True
        return False

    def emit(self, sts, ev):
        for s in sts:
            if not s.terminated:
                s.events.append(ev)
        return sts

    def acquire_temp(self, sts):
        for s in sts:
            if s.terminated:
                continue
            s.ntemp += 1
            b = f"<temp{s.ntemp}>"
            s.events.append(("acquire", b))
            s.temps[-1].append(b)
        return sts

    def cur_temp(self, s):
        return f"<temp{s.ntemp}>"

    def push_temps(self, sts):
        for s in sts:
            s.temps.append([])

    def pop_temps(self, sts):
        for s in sts:
            ts = s.temps.pop()
            if not s.terminated:
                for b in reversed(ts):
                    s.events.append(("release", b))

    def opaque(self, text, sts, what):
        """an unparsed token string (pattern, array literal, macro arguments) must not mention a guard or `self`"""
        toks = text.replace("(", " ").replace(")", " ").replace(",", " ").replace("&", " ").split()
        names = set()
        for s in sts:
            names.update(s.live())
        if not self.helper:
            names.add("self")
        bad = [t for t in toks if t in names]
        if bad:
            self.fail(f"{what} mentions {bad[0]!r}")
        if self.helper and "self" in toks and what != "pattern":
            self.fail(f"{what} mentions `self`")

    # -- statements ------------------------------------------------------------------------

    def run(self, stmts):
        """-> list of distinct (events, terminated-by-return) of the control-flow paths"""
        sts = self.block(stmts, [State()], outer=True)
        uniq = []
        for s in dedupe(sts):
            p = (s.events, s.terminated)
            if p not in uniq:
                uniq.append(p)
        return uniq

    def block(self, stmts, sts, outer=False):
        if not outer:
            for s in sts:
                s.scopes.append([])
        for st_ in stmts:
            if all(s.terminated for s in sts):
                break       # unreachable code after `return`
            self.stmt_txt = short(st_)
            self.push_temps(sts)
            sts = self.stmt(st_, sts)
            self.pop_temps(sts)
            sts = dedupe(sts)
        for s in sts:
            sc = s.scopes.pop() if not outer else s.scopes[0]
            if not s.terminated:
                for b in reversed(sc):
                    s.events.append(("release", b))
            if outer:
                s.scopes[0] = []
        return sts

    def stmt(self, s, sts):
        if s.op == "let":
            name, init = s.args
            if "(" in name or " " in name:
                self.opaque(name, sts, "pattern")
            for x in sts:
                if name in x.live() or (self.helper and name == "self"):
                    self.fail(f"`let {name}` shadows a live guard")
            if self.is_acq(init):
                if name == "_":
                    # `let _ = guard` drops at once
                    return self.acquire_temp(sts)
                if "(" in name or " " in name:
                    self.fail("guard bound by a pattern")
                for x in sts:
                    if not x.terminated:
                        x.events.append(("acquire", name))
                        x.scopes[-1].append(name)
                return sts
            return self.ev(init, sts)
        if s.op == "return":
            return self.ret(s, sts)
        if s.op in ("stmt", "tail"):
            return self.ev(s.args[0], sts)
        self.fail(f"statement kind {s.op}")

    def ret(self, s, sts):
        e = s.args[0]
        if e is not None:
            sts = self.ev(e, sts)
        ok = False
        x = strip(e)
        if x is not None and x.op == "call" and is_path(x.args[0], "Ok"):
            ok = True
        for st in sts:
            if st.terminated:
                continue
            st.ret_mark = len(st.events)
            st.events.append(("exit", ok))
            for ts in reversed(st.temps):
                for b in reversed(ts):
                    st.events.append(("release", b))
            for sc in reversed(st.scopes):
                for b in reversed(sc):
                    st.events.append(("release", b))
            st.terminated = True
        return sts

    # -- joins -----------------------------------------------------------------------------

    def join(self, base, results):
        """`results`: states produced by the branches started from clones of `base`.  Branches that only exit
        become an `exit` marker on the paths that continue."""
        n0 = len(base.events)
        pure, others = [], []
        for r in results:
            # a branch that does nothing but leave the function (only exit markers in front of its `return`)
            if r.terminated and r.ret_mark is not None and r.ret_mark >= n0 and \
                    all(e[0] == "exit" for e in r.events[n0:r.ret_mark]):
                pure.append(r)
            else:
                others.append(r)
        if not pure:
            return dedupe(others)
        ok = all(any(e == ("exit", True) for e in r.events[n0:]) for r in pure)
        mark = ("exit", ok)
        if not others:
            # every branch exits
            r = pure[0]
            r.events = base.events + [mark] + [e for e in r.events[n0:] if e[0] == "release"]
            return [r]
        for r in others:
            r.events = r.events[:n0] + [mark] + r.events[n0:]
            if r.ret_mark is not None:
                r.ret_mark += 1
        return dedupe(others)

    def branches(self, sts, bodies):
        """bodies: list of callables state-list -> state-list (one per branch)"""
        out = []
        for s in sts:
            if s.terminated:
                out.append(s)
                continue
            res = []
            for b in bodies:
                res.extend(b([s.clone()]))
            out.extend(self.join(s, res))
        return dedupe(out)

    def pure_only(self, e, sts, what):
        before = [len(s.events) for s in sts]
        sts2 = self.ev(e, sts)
        if len(sts2) != len(before) or any(len(s.events) != n for s, n in zip(sts2, before)):
            self.fail(f"{what} performs lock or socket events")
        return sts2

    def loop_body(self, body, sts, what):
        def run_body(ss):
            base_n = len(ss[0].events)
            r = self.ev(body, ss)
            for x in r:
                if any(e[0] != "exit" for e in x.events[base_n:(x.ret_mark if x.terminated else None)]):
                    self.fail(f"lock or socket events inside a {what}")
            return r
        return self.branches(sts, [run_body, lambda ss: ss])

    # -- expressions -----------------------------------------------------------------------

    def ev_all(self, es, sts):
        for e in es:
            sts = self.ev(e, sts)
        return sts

    def ev(self, e, sts):
        if e is None:
            return sts
        op = e.op
        if op in ("int", "str", "unit", "continue"):
            return sts
        if op in ("paren", "not", "neg", "deref", "cast", "ref"):
            inner = e.args[0]
            if self.is_acq(inner):
                self.fail("guard expression under an operator (borrowed / dereferenced temporary guard)")
            return self.ev(inner, sts)
        if op == "tuple":
            return self.ev_all(e.args, sts)
        if op == "array":
            self.opaque(e.args[0], sts, "array literal")
            return sts
        if op == "macro":
            self.opaque(e.args[1], sts, f"macro {e.args[0]}!")
            return sts
        if op == "path":
            if len(e.args) == 1:
                nm = e.args[0]
                if nm == "self":
                    self.fail("`self` used as a value" if not self.helper else "`self` (the guarded state) passed on")
                for s in sts:
                    if nm in s.live():
                        self.fail(f"guard `{nm}` used as a value (moved, borrowed or passed to a function)")
            return sts
        if op == "struct":
            for _n, x in e.args[1]:
                if self.is_acq(x):
                    self.fail("guard stored in a struct")
                sts = self.ev(x, sts)
            return sts
        if op == "closure":
            params, body = e.args
            self.opaque(" ".join(params), sts, "pattern")
            return self.pure_only(body, sts, "closure body")
        if op == "block":
            return self.block(e.args, sts)
        if op == "if":
            return self.if_(e, sts)
        if op == "match":
            return self.match_(e, sts)
        if op == "for":
            pat, it, body = e.args
            self.opaque(pat, sts, "pattern")
            sts = self.ev(it, sts)
            return self.loop_body(body, sts, "`for` loop")
        if op == "while":
            c, body = e.args
            sts = self.pure_only(c.args[1] if c.op == "iflet" else c, sts, "`while` condition")
            return self.loop_body(body, sts, "`while` loop")
        if op == "loop":
            return self.loop_body(e.args[0], sts, "`loop`")
        if op == "break":
            return self.ev(e.args[0], sts)
        if op == "return":
            return self.ret(e, sts)
        if op == "try":
            before = [len(s.events) for s in sts]
            inner = e.args[0]
            if self.is_acq(inner):
                self.fail("`?` on a guard expression")
            sts2 = self.ev(inner, sts)
            if len(sts2) == len(before):
                for s, n in zip(sts2, before):
                    if not s.terminated and not any(x[0] in IO for x in s.events[n:]):
                        s.events.append(("exit", False))
            else:
                self.fail("`?` on a branching expression that performs events")
            return sts2
        if op == "bin":
            bop, l, r = e.args
            sts = self.ev(l, sts)
            if bop in ("&&", "||"):
                return self.pure_only(r, sts, f"right operand of `{bop}`")
            return self.ev(r, sts)
        if op == "index":
            return self.ev_all(e.args, sts)
        if op == "assign":
            return self.assign(e, sts)
        if op == "field":
            return self.field(e, sts)
        if op == "call":
            return self.call(e, sts)
        if op == "mcall":
            return self.mcall(e, sts)
        if op == "iflet":
            self.opaque(e.args[0], sts, "pattern")
            return self.ev(e.args[1], sts)
        self.fail(f"expression kind `{op}`")

    def if_(self, e, sts):
        c, th, el = e.args
        if c.op == "iflet":
            # the scrutinee's temporaries live through the whole `if let`
            sts = self.ev(c, sts)
        else:
            self.push_temps(sts)
            sts = self.ev(c, sts)
            self.pop_temps(sts)
        bodies = [lambda ss: self.ev(th, ss)]
        if el is not None:
            bodies.append(lambda ss: self.ev(el, ss))
        else:
            bodies.append(lambda ss: ss)
        return self.branches(sts, bodies)

    def match_(self, e, sts):
        scrut, arms = e.args
        if self.is_acq(scrut):
            self.fail("guard expression as `match` scrutinee")
        sts = self.ev(scrut, sts)
        bodies = []
        for pat, guard, body in arms:
            self.opaque(pat, sts, "pattern")

            def mk(guard=guard, body=body):
                def f(ss):
                    if guard is not None:
                        ss = self.pure_only(guard, ss, "match guard")
                    return self.ev(body, ss)
                return f
            bodies.append(mk())
        if not bodies:
            self.fail("empty match")
        return self.branches(sts, bodies)

    def guard_root(self, e, sts):
        """if `e` denotes a guard (named, `self` in a helper, or a temporary acquired right here) return
        (states, binder-getter) else None"""
        x = strip(e)
        if x is None:
            return None
        if x.op == "path" and len(x.args) == 1:
            nm = x.args[0]
            if self.helper and nm == "self":
                return sts, (lambda s: "self")
            lives = [nm in s.live() for s in sts if not s.terminated]
            if lives and all(lives):
                return sts, (lambda s: nm)
            if any(lives):
                self.fail(f"`{nm}` is a guard on some paths only")
            return None
        if self.is_acq(x):
            sts = self.acquire_temp(sts)
            return sts, self.cur_temp
        return None

    def field(self, e, sts):
        base, f = e.args
        g = self.guard_root(base, sts)
        if g is not None:
            sts, _b = g
            if f == self.ep.sock:
                self.fail(f"the socket `{f}` of the guarded state used as a value")
            if f not in self.ep.internal_fields:
                self.fail(f"`{f}` is not a field of {self.ep.internal}")
            return sts
        if not self.helper and is_path(strip(base), "self"):
            self.fail(f"`self.{f}` used outside `self.{f}.lock().unwrap()`")
        return self.ev(base, sts)

    def assign(self, e, sts):
        _op, lhs, rhs = e.args
        sts = self.ev(rhs, sts)
        l = strip(lhs)
        if l.op == "field":
            g = self.guard_root(l.args[0], sts)
            if g is not None:
                sts, binder = g
                f = l.args[1]
                if f == self.ep.sock:
                    self.fail("the socket of the guarded state is replaced")
                if f not in self.ep.internal_fields:
                    self.fail(f"`{f}` is not a field of {self.ep.internal}")
                for s in sts:
                    if not s.terminated:
                        s.events.append(("write", binder(s), f))
                return sts
        if l.op == "path" and len(l.args) == 1:
            for s in sts:
                if l.args[0] in s.live():
                    self.fail(f"guard `{l.args[0]}` is reassigned")
            return sts
        return self.ev(lhs, sts)

    def call(self, e, sts):
        fn, args = e.args[0], e.args[1:]
        f = strip(fn)
        if f.op == "path" and f.args in [list(p) for p in DROP_PATHS] and len(args) == 1:
            a = strip(args[0])
            if a.op == "path" and len(a.args) == 1:
                nm = a.args[0]
                lives = [nm in s.live() for s in sts if not s.terminated]
                if lives and all(lives):
                    for s in sts:
                        if s.terminated:
                            continue
                        for sc in s.scopes:
                            if nm in sc:
                                sc.remove(nm)
                        s.events.append(("release", nm))
                    return sts
                if any(lives):
                    self.fail(f"`{nm}` is a guard on some paths only")
        for a in args:
            if self.is_acq(a):
                self.fail("guard expression passed to a function")
        if f.op != "path":
            sts = self.ev(f, sts)
        elif len(f.args) == 1:
            for s in sts:
                if f.args[0] in s.live():
                    self.fail("guard called as a function")
        return self.ev_all(args, sts)

    def mcall(self, e, sts):
        recv, name, args = e.args[0], e.args[1], e.args[2:]
        if self.is_acq(e):
            self.fail("guard expression in an unsupported position (neither `let` initialiser nor receiver)")
        for a in args:
            if self.is_acq(a):
                self.fail("guard expression passed as an argument")
        r = strip(recv)
        # 1. call on a guard: a helper of the Internal struct
        g = self.guard_root(r, sts)
        if g is not None:
            sts, binder = g
            sts = self.ev_all(args, sts)
            if name not in self.ep.helper_bodies:
                self.fail(f"method `{name}` called on the guard is not a method of {self.ep.internal}")
            for s in sts:
                if s.terminated:
                    continue
                for ev in self.ep.call_events(name, binder(s), self.where):
                    s.events.append(ev)
            return sts
        # 2. call on the socket of a guard
        if r.op == "field":
            g = self.guard_root(r.args[0], sts)
            if g is not None:
                sts, binder = g
                f = r.args[1]
                sts = self.ev_all(args, sts)
                if f != self.ep.sock:
                    if f not in self.ep.internal_fields:
                        self.fail(f"`{f}` is not a field of {self.ep.internal}")
                    return sts
                if name.startswith("send_"):
                    kind = "send"
                elif name.startswith("recv_"):
                    kind = "recv"
                elif name in ("as_raw_fd",):
                    return sts
                else:
                    self.fail(f"unknown socket method `{f}.{name}`")
                label = self.helper if self.helper else f"{f}.{name}"
                for s in sts:
                    if not s.terminated:
                        s.events.append((kind, binder(s), label) + ((False,) if kind == "recv" else ()))
                return sts
        # 3. anything else on `self`
        if not self.helper and is_path(r, "self"):
            self.fail(f"call of `self.{name}(..)`: a method of the handle called from a method of the handle")
        if self.helper and is_path(r, "self"):
            self.fail("unreachable")
        sts = self.ev(recv, sts)
        return self.ev_all(args, sts)


def short(node, n=160):
    s = render(node)
    return s if len(s) <= n else s[:n] + " …"


def render(n):
    """compact, stable rendering of a statement for diagnostics"""
    if n is None:
        return ""
    if not isinstance(n, Node):
        return str(n)
    a = n.args
    if n.op == "let":
        return f"let {a[0]} = {render(a[1])};"
    if n.op in ("stmt", "tail"):
        return render(a[0]) + (";" if n.op == "stmt" else "")
    if n.op == "return":
        return "return " + render(a[0])
    if n.op == "path":
        return "::".join(a)
    if n.op == "mcall":
        return f"{render(a[0])}.{a[1]}({', '.join(render(x) for x in a[2:])})"
    if n.op == "call":
        return f"{render(a[0])}({', '.join(render(x) for x in a[1:])})"
    if n.op == "field":
        return f"{render(a[0])}.{a[1]}"
    if n.op == "try":
        return render(a[0]) + "?"
    if n.op == "ref":
        return "&" + render(a[0])
    if n.op == "assign":
        return f"{render(a[1])} {a[0]} {render(a[2])}"
    if n.op == "block":
        return "{ " + " ".join(render(x) for x in a) + " }"
    if n.op == "if":
        return f"if {render(a[0])} {render(a[1])}" + (f" else {render(a[2])}" if a[2] is not None else "")
    if n.op == "int":
        return str(a[0])
    if n.op == "bin":
        return f"{render(a[1])} {a[0]} {render(a[2])}"
    return f"<{n.op}>"


# ------------------------------------------------------------------------------------------
# rows


def finish(path, where):
    """exit markers -> localCheck (before the first socket operation) / dropped (after the last one)"""
    io_idx = [k for k, e in enumerate(path) if e[0] in IO]
    first = io_idx[0] if io_idx else len(path)
    last = io_idx[-1] if io_idx else -1
    out = []
    for k, e in enumerate(path):
        if e[0] == "exit":
            if k < first:
                if not out or out[-1] != ("localCheck",):
                    out.append(("localCheck",))
            elif k < last:
                raise Untranslatable(f"{where}: early exit between the first and the last socket operation of the "
                                     f"method (a path that sends without reading the reply)")
            continue
        out.append(e)
    return out


def extract(repo):
    rows, assoc, info = [], [], []
    for ep, rel, ty, need in SOURCES:
        E = Endpoint(repo, ep, rel, ty, need)
        info.append((ep, rel, ty, E.internal, E.mutex_field, E.sock, dict(E.accessors)))
        for label, name, vis, _b in E.assoc:
            assoc.append((ep, label, name, vis))
        for label, name, vis, body in E.methods:
            where = f"{rel}: {label}::{name}"
            stmts = LParser(body, where).block()
            paths = []
            for p, _t in Walker(E, where).run(stmts):
                f = finish(p, where)
                if f not in paths:
                    paths.append(f)
            for k, f in enumerate(paths):
                rows.append((ep, label, name, vis, k, f))
    return rows, assoc, info


def lean_str(s):
    return '"' + s.replace("\\", "\\\\").replace('"', '\\"') + '"'


def lean_event(e):
    k = e[0]
    if k == "acquire":
        return f".acquire {lean_str(e[1])}"
    if k == "release":
        return f".release {lean_str(e[1])}"
    if k == "localCheck":
        return ".localCheck"
    if k == "send":
        return f".send {lean_str(e[1])} {lean_str(e[2])}"
    if k == "recv":
        return f".recv {lean_str(e[1])} {lean_str(e[2])} {'true' if e[3] else 'false'}"
    if k == "write":
        return f".stateWrite {lean_str(e[1])} {lean_str(e[2])}"
    raise Untranslatable(f"internal: event {e!r}")


def gen_lockshapes_for(repo):
    def gen(_world):
        rows, assoc, info = extract(repo)
        o = ["-- GENERATED by tools/rs2lean.py (tools/rs2lean_locks.py) from /repo — do not edit.",
             "import VhostModel.Base.LockSig", "", "namespace Gen.LockShapes", "open Base.LockSig", ""]
        for ep, rel, ty, internal, mf, sock, accs in info:
            acc = ", ".join(f"`{a}()` = `self.{f}.lock().unwrap()`" for a, f in accs.items()) or "none"
            o.append(f"-- {ep}: {rel}: `{ty} {{ {mf}: Arc<Mutex<{internal}>> }}`, socket `{internal}.{sock}`, "
                     f"guard accessor {acc}")
        o += ["", "/-- event list of every method (a `fn` with a `self` receiver) of the three handle types, in source order;",
              "one row per control-flow path that differs in its events -/", "def rows : List Row := ["]
        body = []
        for ep, label, name, vis, k, evs in rows:
            body.append(f"  /- {label}{' [' + vis + ']' if vis else ' [private]'} -/\n"
                        f"  ⟨.{ep}, {lean_str(name)}, {k}, [{', '.join(lean_event(e) for e in evs)}]⟩")
        o.append(",\n".join(body))
        o += ["]", "", "/-- associated functions without a `self` receiver (constructors); none of them takes a lock -/",
              "def constructors : List (Endpoint × String) := ["]
        o.append(",\n".join(f"  (.{ep}, {lean_str(name)})" for ep, _l, name, _v in assoc))
        o += ["]", "", "end Gen.LockShapes", ""]
        return "\n".join(o)
    return gen


def generators(repo):
    return [("LockShapes", gen_lockshapes_for(repo))]


if __name__ == "__main__":
    import sys
    rws, asc, inf = extract(sys.argv[1] if len(sys.argv) > 1 else "/repo")
    for r in rws:
        print(r[0], r[2], r[4], r[5])
    print(asc)
    print(inf)
