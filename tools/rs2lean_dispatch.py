"""Translator extension: the ordered guard calls of every arm of `BackendReqHandler::handle_request`
(vhost/src/vhost_user/backend_req_handler.rs) -> lean/VhostModel/Gen/Dispatch.lean.

For each `Ok(FrontendReq::X) => { ... }` arm the statements in front of the first handler invocation are
recognised (feature checks, size checks, body extraction, file extraction, vring-fd parsing, enable check, flag
conversion) and emitted, in source order, as a list of signature strings; the handler method (or the helper
function the arm delegates to) closes the list. Fails loudly on statement shapes it does not know.
"""
import os
import re
from rsparse import (Untranslatable, tokenize, scan_items, impl_header, impl_fns, parse_block, Node)
from rs2lean import FEATURES, LEAN_HEADER

REL = "vhost/src/vhost_user/backend_req_handler.rs"


def bit_of(world, flags_ty, const):
    rty, consts = world.flags[flags_ty]
    for n, v in consts:
        if n == const:
            if v == 0 or v & (v - 1):
                raise Untranslatable(f"{REL}: {flags_ty}::{const} is not a single bit")
            return v.bit_length() - 1
    raise Untranslatable(f"{REL}: unknown flag {flags_ty}::{const}")


def strip(n):
    """peel try / ref / paren"""
    while n is not None and n.op in ("try", "ref", "paren"):
        n = n.args[0]
    return n


def is_self_call(n, name):
    n = strip(n)
    return n is not None and n.op == "mcall" and n.args[1] == name and n.args[0].op == "path" and n.args[0].args == ["self"]


def backend_call(n):
    """self.backend.METHOD(..) anywhere directly in this expression (possibly under `?` or as match scrutinee)"""
    n = strip(n)
    if n is None:
        return None
    if n.op == "mcall":
        r = n.args[0]
        if r.op == "field" and r.args[1] == "backend" and r.args[0].op == "path" and r.args[0].args == ["self"]:
            return n.args[1]
        return backend_call(r)
    if n.op == "match":
        return backend_call(n.args[0])
    if n.op == "bin":
        return backend_call(n.args[1]) or backend_call(n.args[2])
    return None


def size_sig(world, e, where):
    e = strip(e)
    if e.op == "int" and e.args[0] == 0:
        return "size:zero"
    if e.op == "cast" and strip(e.args[0]).op == "mcall" and strip(e.args[0]).args[1] == "get_size":
        return "size:any"
    if e.op == "call" and e.args[0].op == "path" and e.args[0].args[-1] == "size_of":
        g = e.args[0].kw.get("generics") or []
        if len(g) == 1:
            return f"size:{g[0]}"
    raise Untranslatable(f"{where}: unrecognised expected-size expression")


def err_name(e):
    e = strip(e)
    if e.op == "path" and len(e.args) == 2 and e.args[0] == "Error":
        return e.args[1]
    if e.op == "call" and e.args[0].op == "path" and e.args[0].args[-1] == "Err":
        return err_name(e.args[1])
    return None


def arm_sig(world, code, stmts, where):
    sig = []
    i = 0
    while i < len(stmts):
        s = stmts[i]
        e = s.args[1] if s.op == "let" else s.args[0]
        se = strip(e)
        # handler invocation closes the guard list
        m = backend_call(e) if s.op in ("let", "stmt", "tail") else None
        if m:
            sig.append(f"call:{m}")
            return sig
        if is_self_call(e, "check_proto_feature"):
            a = strip(se.args[2])
            sig.append(f"proto:{bit_of(world, a.args[0], a.args[1])}")
        elif is_self_call(e, "check_feature"):
            a = strip(se.args[2])
            sig.append(f"virtio:{bit_of(world, a.args[0], a.args[1])}")
        elif is_self_call(e, "check_request_size"):
            sig.append(size_sig(world, se.args[4], where))
        elif is_self_call(e, "extract_request_body"):
            sig.append(f"body:{se.kw.get('turbofish')}")
        elif is_self_call(e, "handle_vring_fd_request"):
            sig.append("vringfd")
        elif is_self_call(e, "new_reply_header"):
            pass  # cannot fail for the fixed-size reply types (checked by Props.C04); no observable effect
        elif se is not None and se.op == "mcall" and se.args[1] == "ok_or" and strip(se.args[0]).op == "call" and \
                strip(se.args[0]).args[0].op == "path" and strip(se.args[0]).args[0].args == ["take_single_file"]:
            sig.append(f"file:{err_name(se.args[2])}")
        elif se is not None and se.op == "mcall" and se.args[1] == "ok_or" and strip(se.args[0]).op == "path" and \
                strip(se.args[0]).args == ["files"]:
            # ADD_MEM_REG idiom: files.ok_or(E)? ; if files.len() != 1 { return Err(E) }
            en = err_name(se.args[2])
            nxt = stmts[i + 1] if i + 1 < len(stmts) else None
            ok = False
            if nxt is not None and nxt.op in ("stmt", "tail") and nxt.args[0].op == "if":
                c = nxt.args[0].args[0]
                body = nxt.args[0].args[1]
                if c.op == "bin" and c.args[0] == "!=" and strip(c.args[2]).op == "int" and strip(c.args[2]).args[0] == 1 and \
                        body.args and body.args[-1].op == "return" and err_name(body.args[-1].args[0]) == en:
                    ok = True
            if not ok:
                raise Untranslatable(f"{where}: unrecognised file-count check")
            sig.append(f"file:{en}")
            i += 1
        elif s.op == "let" and se is not None and se.op == "match":
            scrut = strip(se.args[0])
            arms = se.args[1]
            rets = [b for (_, _, b) in arms if b.op == "return"]
            if scrut.op == "field" and scrut.args[1] == "num" and any(err_name(r.args[0]) == "InvalidParam" for r in rets):
                pats = sorted(p for (p, _, _) in arms)
                if pats != ["0", "1", "_"]:
                    raise Untranslatable(f"{where}: enable check with patterns {pats}")
                sig.append("enable01")
            elif scrut.op == "call" and scrut.args[0].op == "path" and scrut.args[0].args[-1] == "from_bits":
                sig.append(f"frombits:{scrut.args[0].args[0]}")
            else:
                raise Untranslatable(f"{where}: unrecognised `let … = match` guard")
        elif s.op == "let" and se is not None and se.op == "mcall" and se.args[1] in ("map_err", "try_into") :
            # direction/phase conversion of the transfer-state request: cannot fail after the validator
            sig.append("convert")
        elif s.op == "let" and se is not None and se.op == "mcall" and se.args[1] == "ok_or" and \
                strip(se.args[0]).op == "call" and strip(se.args[0]).args[0].args[-1] == "from_bits":
            sig.append(f"frombits:{strip(se.args[0]).args[0].args[0]}")
        elif s.op == "let" and se is not None and se.op == "call" and se.args[0].op == "path" and se.args[0].args[-1] == "new":
            pass  # building a reply value
        else:
            # delegation to a helper of the same impl: self.helper(..)
            if se is not None and se.op == "mcall" and se.args[0].op == "path" and se.args[0].args == ["self"] and \
                    se.args[1] in ("set_mem_table", "get_config", "set_config", "set_backend_req_fd", "set_gpu_socket"):
                sig.append(f"helper:{se.args[1]}")
                return sig
            raise Untranslatable(f"{where}: unrecognised statement before the handler call: {s!r}"[:400])
        i += 1
    raise Untranslatable(f"{where}: arm never invokes the handler")


def gen_dispatch(world):
    path = os.path.join(gen_dispatch.repo, REL)
    items = scan_items(tokenize(open(path).read()), FEATURES)
    body = None
    for it in items:
        if it.kind == "impl":
            trait, ty = impl_header(it)
            if trait is None and ty == "BackendReqHandler":
                for name, attrs, params, ret, b in impl_fns(it, FEATURES):
                    if name == "handle_request":
                        body = b
    if body is None:
        raise Untranslatable(f"{REL}: fn handle_request not found")
    stmts = parse_block(body, f"{REL}: handle_request")
    mt = None
    pre = []
    for s in stmts:
        e = s.args[1] if s.op == "let" else s.args[0]
        if e is not None and e.op == "match" and strip(e.args[0]).op == "mcall" and strip(e.args[0]).args[1] == "get_code":
            mt = e
            break
        pre.append(s)
    if mt is None:
        raise Untranslatable(f"{REL}: dispatch match not found")
    rty, variants = world.enums["FrontendReq"]
    codes = dict(variants)
    rows = []
    for pat, guard, b in mt.args[1]:
        m = re.match(r"Ok \( FrontendReq :: (\w+) \)$", pat)
        if not m:
            if pat == "_":
                continue
            raise Untranslatable(f"{REL}: unrecognised arm pattern `{pat}`")
        name = m.group(1)
        if guard is not None:
            raise Untranslatable(f"{REL}: arm {name} has a guard")
        if b.op != "block":
            raise Untranslatable(f"{REL}: arm {name} is not a block")
        rows.append((codes[name], name, arm_sig(world, codes[name], b.args, f"{REL}: arm {name}")))
    # the statements in front of the dispatch: header read, file policy, body read — kept as a checksum of call names
    prelude = []
    for s in pre:
        e = strip(s.args[1] if s.op == "let" else s.args[0])
        txt = repr(e)
        for key in ("check_state", "recv_header", "check_attached_files", "recv_data"):
            if key in txt:
                prelude.append(key)
    def lean_sig(x):
        k, _, v = x.partition(":")
        return {"proto": f".proto {v}", "virtio": f".virtio {v}", "vringfd": ".vringfd", "enable01": ".enable01",
                "convert": ".convert", "body": f'.body "{v}"', "file": f'.file "{v}"', "frombits": f'.frombits "{v}"',
                "call": f'.call "{v}"', "helper": f'.helper "{v}"',
                "size": {"zero": ".sizeZero", "any": ".sizeAny"}.get(v, f'.sizeOf "{v}"')}[k]
    out = [LEAN_HEADER, "import VhostModel.Base", "", "namespace Gen.Dispatch", "open Base", "",
           f"/-- guard calls of every arm of `BackendReqHandler::handle_request` ({REL}), in source order -/",
           "def sigs : List (Nat × List Sig) := ["]
    out.append(",\n".join("  /- %s -/ (%d, [%s])" % (n, c, ", ".join(lean_sig(x) for x in sg)) for c, n, sg in rows))
    out.append("]")
    out.append("")
    out.append("/-- calls in front of the dispatch, in source order -/")
    out.append("def prelude : List String := [%s]" % ", ".join('"%s"' % x for x in prelude))
    out.append("")
    out.append("end Gen.Dispatch")
    return "\n".join(out) + "\n"


def generators(repo):
    gen_dispatch.repo = repo
    return [("Dispatch", gen_dispatch)]


# ------------------------------------------------------------------------------------------------------------------
# the frontend's request server: `FrontendReqHandler::handle_request` + `check_attached_files`
# (vhost/src/vhost_user/frontend_req_handler.rs) -> lean/VhostModel/Gen/DispatchFe.lean
REL_FE = "vhost/src/vhost_user/frontend_req_handler.rs"


def fe_arm_sig(stmts, where):
    sig = []
    for s in stmts:
        e = s.args[1] if s.op == "let" else s.args[0]
        se = strip(e)
        m = backend_call(e) if s.op in ("let", "stmt", "tail") else None
        if m:
            # the call must be the arm's value, mapped with `.map_err(Error::ReqHandlerError)`
            if se.op != "mcall" or se.args[1] != "map_err":
                raise Untranslatable(f"{where}: handler result is not mapped with map_err")
            sig.append(f"call:{m}")
            txt = repr(se)
            if "files" in txt:
                if "unwrap" not in txt or "'index'" not in txt and "index" not in txt:
                    raise Untranslatable(f"{where}: files used in an unknown way")
                sig.append("file:unwrap0")
            return sig
        if is_self_call(e, "check_msg_size"):
            a = strip(se.args[4])
            if a.op == "int" and a.args[0] == 0:
                sig.append("size:zero")
            else:
                raise Untranslatable(f"{where}: unrecognised expected size")
        elif is_self_call(e, "extract_msg_body"):
            sig.append(f"body:{se.kw.get('turbofish')}")
        else:
            raise Untranslatable(f"{where}: unrecognised statement before the handler call: {s!r}"[:400])
    raise Untranslatable(f"{where}: arm never invokes the handler")


def gen_dispatch_fe(world):
    path = os.path.join(gen_dispatch.repo, REL_FE)
    items = scan_items(tokenize(open(path).read()), FEATURES)
    bodies = {}
    for it in items:
        if it.kind == "impl":
            trait, ty = impl_header(it)
            if trait is None and ty == "FrontendReqHandler":
                for name, attrs, params, ret, b in impl_fns(it, FEATURES):
                    bodies[name] = b
    for need in ("handle_request", "check_attached_files"):
        if need not in bodies:
            raise Untranslatable(f"{REL_FE}: fn {need} not found")
    rty, variants = world.enums["BackendReq"]
    codes = dict(variants)
    # ---- dispatch arms
    stmts = parse_block(bodies["handle_request"], f"{REL_FE}: handle_request")
    mt = None
    pre = []
    post = []
    for s in stmts:
        e = s.args[1] if s.op == "let" else s.args[0]
        if mt is None and e is not None and e.op == "match" and strip(e.args[0]).op == "mcall" and strip(e.args[0]).args[1] == "get_code":
            mt = e
            continue
        (pre if mt is None else post).append(s)
    if mt is None:
        raise Untranslatable(f"{REL_FE}: dispatch match not found")
    rows = []
    default_err = None
    for pat, guard, b in mt.args[1]:
        m = re.match(r"Ok \( BackendReq :: (\w+) \)$", pat)
        if not m:
            if pat == "_" and guard is None:
                default_err = err_name(b)
                continue
            raise Untranslatable(f"{REL_FE}: unrecognised arm pattern `{pat}`")
        name = m.group(1)
        if guard is not None or b.op != "block":
            raise Untranslatable(f"{REL_FE}: arm {name} has a guard or is not a block")
        rows.append((codes[name], name, fe_arm_sig(b.args, f"{REL_FE}: arm {name}")))
    if default_err != "InvalidMessage":
        raise Untranslatable(f"{REL_FE}: the default arm is not Err(Error::InvalidMessage)")
    prelude = []
    for s in pre:
        txt = repr(strip(s.args[1] if s.op == "let" else s.args[0]))
        for key in ("check_state", "recv_header", "check_attached_files", "recv_data"):
            if key in txt:
                prelude.append(key)
    epilogue = []
    for s in post:
        e = strip(s.args[1] if s.op == "let" else s.args[0])
        txt = repr(e)
        if "send_ack_message" in txt:
            epilogue.append("send_ack_message")
        elif e is not None and e.op == "path" and e.args == ["res"]:
            epilogue.append("res")
        else:
            raise Untranslatable(f"{REL_FE}: unrecognised statement after the dispatch: {s!r}"[:300])
    # ---- attached-file policy
    cs = parse_block(bodies["check_attached_files"], f"{REL_FE}: check_attached_files")
    if len(cs) != 1 or strip(cs[0].args[0]).op != "match":
        raise Untranslatable(f"{REL_FE}: check_attached_files is not a single match")
    cm = strip(cs[0].args[0])
    arms = cm.args[1]
    if len(arms) != 3:
        raise Untranslatable(f"{REL_FE}: check_attached_files has {len(arms)} arms")
    (p0, g0, b0), (p1, g1, b1), (p2, g2, b2) = arms
    m = re.match(r"Ok \( (.*) \)$", p0)
    if not m or g0 is not None:
        raise Untranslatable(f"{REL_FE}: check_attached_files: first arm `{p0}`")
    file_codes = []
    for alt in m.group(1).split("|"):
        mm = re.match(r"\s*BackendReq :: (\w+)\s*$", alt)
        if not mm:
            raise Untranslatable(f"{REL_FE}: check_attached_files: alternative `{alt}`")
        file_codes.append(codes[mm.group(1)])
    inner = b0.args[-1].args[0] if b0.op == "block" else b0
    inner = strip(inner)
    if inner.op != "match" or len(inner.args[1]) != 2:
        raise Untranslatable(f"{REL_FE}: check_attached_files: inner match")
    (ip0, ig0, ib0), (ip1, ig1, ib1) = inner.args[1]
    ok_single = (ip0.replace(" ", "") == "Some(files)" and ig0 is not None and ig0.op == "bin" and ig0.args[0] == "==" and
                 strip(ig0.args[2]).op == "int" and strip(ig0.args[2]).args[0] == 1 and "len" in repr(ig0.args[1]) and
                 ip1 == "_" and ig1 is None and err_name(ib1) == "InvalidMessage")
    if not ok_single:
        raise Untranslatable(f"{REL_FE}: check_attached_files: the single-file rule changed")
    if not (p1 == "_" and g1 is not None and "is_some" in repr(g1) and err_name(b1) == "InvalidMessage" and p2 == "_" and g2 is None):
        raise Untranslatable(f"{REL_FE}: check_attached_files: the no-file rule changed")

    def lean_sig(x):
        k, _, v = x.partition(":")
        return {"body": f'.body "{v}"', "file": f'.file "{v}"', "call": f'.call "{v}"', "size": ".sizeZero"}[k]
    out = [LEAN_HEADER, "import VhostModel.Base", "", "namespace Gen.DispatchFe", "open Base", "",
           f"/-- guard calls of every arm of `FrontendReqHandler::handle_request` ({REL_FE}), in source order -/",
           "def sigs : List (Nat × List Sig) := ["]
    out.append(",\n".join("  /- %s -/ (%d, [%s])" % (n, c, ", ".join(lean_sig(x) for x in sg)) for c, n, sg in rows))
    out.append("]")
    out.append("")
    out.append("/-- request codes for which `check_attached_files` demands exactly one file (every other code: none) -/")
    out.append("def fileCodes : List Nat := [%s]" % ", ".join(str(c) for c in file_codes))
    out.append("")
    out.append("def prelude : List String := [%s]" % ", ".join('"%s"' % x for x in prelude))
    out.append("def epilogue : List String := [%s]" % ", ".join('"%s"' % x for x in epilogue))
    out.append("")
    out.append("end Gen.DispatchFe")
    return "\n".join(out) + "\n"


_generators_be = generators


def generators(repo):  # noqa: F811
    return _generators_be(repo) + [("DispatchFe", gen_dispatch_fe)]
