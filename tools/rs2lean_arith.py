"""Translator extension: the pure arithmetic / decision cores of the daemon crate `vhost-user-backend`
(src/bitmap.rs, src/handler.rs, src/event_loop.rs) -> lean/VhostModel/Gen/{BitmapOps,RoutingOps,MemOps}.lean.

Machine integers become naturals; every operator whose result depends on the width (`checked_add`, `saturating_add`,
`count_ones`, `<<`, `as uN`) is spelled with the vocabulary of lean/VhostModel/Base/ArithSig.lean and every operator that
panics / wraps where the mathematical result does not fit (`+`, `-`, `*`, `<<`, `>>`, `/`, `%`, indexing of the log) gets a
*definedness* condition.  Loops over atomics / epoll / locks are not translated; what is emitted for them is a descriptor
(range, break test, per-iteration arguments of the one effect) — see ArithSig.

Every statement of every function handled is classified: arithmetic (translated), a structural shape that is entered
(`if let`, `for`, `loop`, `match`), or a *known opaque kind* (tables `OPAQUE_*` below: locks, atomics, epoll calls, thread
creation, ...).  Anything else raises `Untranslatable` naming file, function and statement.

Picked up by tools/rs2lean.py through `generators(repo)`.
"""
import os
import re

from rsparse import (Untranslatable, Tok, tokenize, scan_items, impl_header, impl_fns, parse_block, parse_expr, Node,
                     match_close, OPEN)
import rs2lean
from rs2lean import FEATURES, LEAN_HEADER, INT_BITS

REL_BITMAP = "vhost-user-backend/src/bitmap.rs"
REL_HANDLER = "vhost-user-backend/src/handler.rs"
REL_EVLOOP = "vhost-user-backend/src/event_loop.rs"
REL_BACKEND = "vhost-user-backend/src/backend.rs"


class Untyped(Untranslatable):
    """an integer literal (or an expression of literals) whose type is fixed by its context only"""


# ------------------------------------------------------------------------------------------------------------------
# token-level rewrites of shapes the expression parser of rsparse.py does not know

def _mk(kind, text, line):
    return Tok(kind, text, line)


def _split_range(toks):
    """top-level `a..=b` / `a..b` in an iterator expression -> call tokens `__range_incl(a, b)` / `__range(a, b)`"""
    depth = 0
    for k, t in enumerate(toks):
        if t.text in OPEN:
            depth += 1
        elif t.text in (")", "]", "}"):
            depth -= 1
        elif depth == 0 and t.kind == "punct" and t.text in ("..=", ".."):
            ln = t.line
            name = "__range_incl" if t.text == "..=" else "__range"
            return [_mk("ident", name, ln), _mk("punct", "(", ln)] + toks[:k] + [_mk("punct", ",", ln)] + toks[k + 1:] + \
                [_mk("punct", ")", ln)]
    return toks


def prep(toks, where):
    """`as *const T` -> `as __ptr_T`;  `e[..]` -> `e[__full]`;  `e[a..]` -> `e[__from(a)]`;
    `for P in E { B }` -> `match __for(E) { P => { B } }` (ranges in E -> `__range[_incl](a, b)`);
    `['l:] loop { B }` -> `match __loop(l) { _ => { B } }`;  `break 'l` / `continue 'l` -> `__break_l` / `__continue_l`;
    a local `const N: T = V;` -> `let N: T = V;`"""
    out = []
    i, n = 0, len(toks)
    while i < n:
        t = toks[i]
        if t.kind == "ident" and t.text == "as" and i + 3 < n and toks[i + 1].text == "*" and \
                toks[i + 2].text in ("const", "mut") and toks[i + 3].kind == "ident":
            out += [t, _mk("ident", "__ptr_" + toks[i + 3].text, t.line)]
            i += 4
            continue
        if t.kind == "punct" and t.text == "[":
            k = match_close(toks, i)
            if k == i + 2 and toks[i + 1].text == "..":
                out += [t, _mk("ident", "__full", t.line), toks[k]]
                i = k + 1
                continue
            if k - 1 > i and toks[k - 1].text == "..":
                out += [t, _mk("ident", "__from", t.line), _mk("punct", "(", t.line)] + prep(toks[i + 1:k - 1], where) + \
                       [_mk("punct", ")", t.line), toks[k]]
                i = k + 1
                continue
        if t.kind == "ident" and t.text == "const" and i + 2 < n and toks[i + 1].kind == "ident" and toks[i + 2].text == ":" \
                and (not out or out[-1].text in (";", "{", "}")):
            out.append(_mk("ident", "let", t.line))
            i += 1
            continue
        if t.kind == "ident" and t.text in ("break", "continue") and i + 1 < n and toks[i + 1].kind == "lifetime":
            out.append(_mk("ident", "__" + t.text + "_" + toks[i + 1].text[1:], t.line))
            i += 2
            continue
        label = None
        j = i
        if t.kind == "lifetime" and i + 2 < n and toks[i + 1].text == ":" and toks[i + 2].text == "loop":
            label = t.text[1:]
            j = i + 2
        if toks[j].kind == "ident" and toks[j].text == "loop" and j + 1 < n and toks[j + 1].text == "{":
            e = match_close(toks, j + 1)
            ln = toks[j].line
            out += [_mk("ident", "match", ln), _mk("ident", "__loop", ln), _mk("punct", "(", ln)] + \
                   ([_mk("ident", label, ln)] if label else []) + \
                   [_mk("punct", ")", ln), _mk("punct", "{", ln), _mk("ident", "_", ln), _mk("punct", "=>", ln),
                    _mk("punct", "{", ln)] + prep(toks[j + 2:e], where) + [_mk("punct", "}", ln), _mk("punct", "}", ln)]
            i = e + 1
            continue
        if t.kind == "ident" and t.text == "for" and i + 1 < n and (toks[i + 1].kind == "ident" or toks[i + 1].text == "("):
            j = i + 1
            while j < n and not (toks[j].kind == "ident" and toks[j].text == "in"):
                if toks[j].text in OPEN:
                    j = match_close(toks, j)
                j += 1
            if j >= n:
                raise Untranslatable(f"{where}: line {t.line}: `for` without `in`")
            pat = toks[i + 1:j]
            b = j + 1
            while b < n and toks[b].text != "{":
                if toks[b].text in ("(", "["):
                    b = match_close(toks, b)
                b += 1
            if b >= n:
                raise Untranslatable(f"{where}: line {t.line}: `for` without body")
            e = match_close(toks, b)
            ln = t.line
            out += [_mk("ident", "match", ln), _mk("ident", "__for", ln), _mk("punct", "(", ln)] + \
                   prep(_split_range(toks[j + 1:b]), where) + [_mk("punct", ")", ln), _mk("punct", "{", ln)] + pat + \
                   [_mk("punct", "=>", ln), _mk("punct", "{", ln)] + prep(toks[b + 1:e], where) + \
                   [_mk("punct", "}", ln), _mk("punct", "}", ln)]
            i = e + 1
            continue
        out.append(t)
        i += 1
    return out


# ------------------------------------------------------------------------------------------------------------------
# source text of an expression (error messages, documentation strings, keys of the input / opaque tables)

def show(n):
    if n is None:
        return ""
    op = n.op
    a = n.args
    if op == "int":
        return str(a[0]) + (n.kw.get("sfx") or "")
    if op == "path":
        s = "::".join(a)
        g = n.kw.get("generics")
        return s + ("::<" + ",".join(g) + ">" if g else "")
    if op == "paren":
        return "(" + show(a[0]) + ")"
    if op == "not":
        return "!" + show(a[0])
    if op == "ref":
        return "&" + show(a[0])
    if op == "deref":
        return "*" + show(a[0])
    if op == "neg":
        return "-" + show(a[0])
    if op == "try":
        return show(a[0]) + "?"
    if op == "cast":
        ty = a[1]
        return show(a[0]) + " as " + (("*const " + ty[6:]) if ty.startswith("__ptr_") else ty)
    if op == "bin":
        return f"{show(a[1])} {a[0]} {show(a[2])}"
    if op == "assign":
        return f"{show(a[1])} {a[0]} {show(a[2])}"
    if op == "field":
        return show(a[0]) + "." + a[1]
    if op == "mcall":
        tf = n.kw.get("turbofish")
        return show(a[0]) + "." + a[1] + ("::<" + tf + ">" if tf else "") + "(" + ", ".join(show(x) for x in a[2:]) + ")"
    if op == "call":
        if a[0].op == "path" and a[0].args == ["__from"]:
            return show(a[1]) + ".."
        if a[0].op == "path" and a[0].args in (["__range_incl"], ["__range"]) and len(a) == 3:
            return show(a[1]) + ("..=" if a[0].args == ["__range_incl"] else "..") + show(a[2])
        return show(a[0]) + "(" + ", ".join(show(x) for x in a[1:]) + ")"
    if op == "index":
        return show(a[0]) + "[" + ("..") + "]" if (a[1].op == "path" and a[1].args == ["__full"]) else \
            show(a[0]) + "[" + show(a[1]) + "]"
    if op == "tuple":
        return "(" + ", ".join(show(x) for x in a) + ")"
    if op == "unit":
        return "()"
    if op == "closure":
        return "|" + ",".join(a[0]) + "| " + show(a[1])
    if op == "block":
        return "{ " + " ".join(show(x) for x in a) + " }"
    if op == "tail":
        return show(a[0])
    if op == "stmt":
        return show(a[0]) + ";"
    if op == "return":
        return "return" + (" " + show(a[0]) if a[0] is not None else "") + ";"
    if op == "let":
        return f"let {a[0]} = {show(a[1])};"
    if op == "if":
        c = a[0]
        cs = ("let " + _pat(c.args[0]) + " = " + show(c.args[1])) if c.op == "iflet" else show(c)
        return "if " + cs + " " + show(a[1]) + (" else " + show(a[2]) if a[2] is not None else "")
    if op == "match":
        sc = a[0]
        if sc.op == "call" and sc.args[0].op == "path" and sc.args[0].args == ["__for"] and len(a[1]) == 1:
            return "for " + _pat(a[1][0][0]) + " in " + show(sc.args[1]) + " " + show(a[1][0][2])
        if sc.op == "call" and sc.args[0].op == "path" and sc.args[0].args == ["__loop"] and len(a[1]) == 1:
            return ("'" + show(sc.args[1]) + ": " if len(sc.args) > 1 else "") + "loop " + show(a[1][0][2])
        return "match " + show(a[0]) + " { " + ", ".join(
            _pat(p) + (" if " + show(g) if g is not None else "") + " => " + show(b) for p, g, b in a[1]) + " }"
    if op == "struct":
        return a[0] + " { " + ", ".join(f if (e.op == "path" and e.args == [f]) else f + ": " + show(e) for f, e in a[1]) + " }"
    if op == "macro":
        return a[0] + "!(" + re.sub(r"\s+", " ", a[1]) + ")"
    if op == "array":
        return "[" + a[0] + "]"
    if op == "str":
        return a[0]
    return f"<{op}>"


def _pat(p):
    return re.sub(r"\s*([(),])\s*", r"\1", p).replace(",", ", ")


def lean_str(s):
    s = re.sub(r"\s+", " ", s).strip()
    return '"' + s.replace("\\", "\\\\").replace('"', '\\"') + '"'


def strip(n):
    while n is not None and n.op in ("paren", "ref", "deref"):
        n = n.args[0]
    return n


def unparen(n):
    while n is not None and n.op == "paren":
        n = n.args[0]
    return n


def is_call(n, *path):
    return n is not None and n.op == "call" and n.args[0].op == "path" and n.args[0].args == list(path)


def split_params(toks):
    """[(name, type text)] of a parameter list (self dropped)"""
    out, cur, depth = [], [], 0
    for t in list(toks) + [Tok("punct", ",", 0)]:
        if t.text in ("<", "(", "["):
            depth += 1
        elif t.text in (">", ")", "]"):
            depth -= 1
        elif t.text == ">>":
            depth -= 2
        if t.text == "," and depth == 0:
            if cur:
                txt = [x.text for x in cur]
                if "self" not in txt[:3]:
                    i = txt.index(":")
                    name = [x for x in txt[:i] if x != "mut"][-1]
                    out.append((name, "".join(txt[i + 1:])))
            cur = []
        else:
            cur.append(t)
    return out


# ------------------------------------------------------------------------------------------------------------------
# one source file: free functions, structs, impls

def struct_fields(toks):
    """[(field, type text)] of a braced struct body; fields compiled out by `#[cfg(..)]` are dropped"""
    from rsparse import cfg_excluded
    fields, attrs = [], []
    i, n = 0, len(toks)
    while i < n:
        if toks[i].text == "#":
            k = match_close(toks, i + 1)
            attrs.append("".join(t.text for t in toks[i:k + 1]))
            i = k + 1
            continue
        if toks[i].text == "pub":
            i += 1
            if toks[i].text == "(":
                i = match_close(toks, i) + 1
            continue
        name = toks[i].text
        if i + 1 >= n or toks[i + 1].text != ":":
            raise Untranslatable(f"struct field syntax at line {toks[i].line}")
        j, depth = i + 2, 0
        while j < n:
            x = toks[j].text
            if x in ("<", "[", "("):
                depth += 1
            elif x in (">", "]", ")"):
                depth -= 1
            elif x == ">>":
                depth -= 2
            elif x == "," and depth == 0:
                break
            j += 1
        if not cfg_excluded(attrs, FEATURES):
            fields.append((name, "".join(t.text for t in toks[i + 2:j])))
        attrs = []
        i = j + 1
    return fields


class Unit:
    def __init__(self, repo, rel):
        self.rel = rel
        path = os.path.join(repo, rel)
        with open(path) as f:
            self.toks = tokenize(f.read())
        self.items = scan_items(self.toks, FEATURES)
        self.fns = {}       # free fn -> (params, ret text, body tokens)
        self.impls = []     # (trait, type, {fn: (params, ret text, body tokens)}, {assoc type: type text})
        self.structs = {}   # name -> [(field, type text)]
        for it in self.items:
            if it.kind == "fn":
                t = it.toks
                i = next(k for k, x in enumerate(t) if x.text == "(")
                j = match_close(t, i)
                b = next(k for k in range(j, len(t)) if t[k].text == "{")
                self.fns[it.name] = (split_params(t[i + 1:j]), "".join(x.text for x in t[j + 1:b]).lstrip("->"),
                                     t[b + 1:match_close(t, b)])
            elif it.kind == "struct":
                self.structs[it.name] = struct_fields(it.toks)
            elif it.kind == "impl":
                trait, ty = impl_header(it)
                d = {}
                for name, attrs, params, ret, body in impl_fns(it, FEATURES):
                    if body is not None:
                        d[name] = (split_params(params), "".join(x.text for x in ret).lstrip("->"), body)
                assoc = {}
                tk = it.toks
                for k, x in enumerate(tk):
                    if x.kind == "ident" and x.text == "type" and k + 3 < len(tk) and tk[k + 2].text == "=":
                        e = k + 3
                        while tk[e].text != ";":
                            e += 1
                        assoc[tk[k + 1].text] = "".join(y.text for y in tk[k + 3:e])
                self.impls.append((trait, ty, d, assoc))

    def method(self, ty, name, trait="*"):
        hits = [(tr, d[name]) for tr, t, d, _ in self.impls if t == ty and name in d and (trait == "*" or tr == trait)]
        if len(hits) != 1:
            raise Untranslatable(f"{self.rel}: fn {ty}::{name}: {'not found' if not hits else 'defined more than once'}")
        return hits[0][1]

    def assoc(self, trait, ty, name):
        for tr, t, _, a in self.impls:
            if tr == trait and t == ty and name in a:
                return a[name]
        raise Untranslatable(f"{self.rel}: impl {trait} for {ty}: associated type {name} not found")

    def field_ty(self, struct, field):
        if struct not in self.structs:
            raise Untranslatable(f"{self.rel}: struct {struct} not found")
        for n, t in self.structs[struct]:
            if n == field:
                return t
        raise Untranslatable(f"{self.rel}: struct {struct} has no field `{field}`")


# ------------------------------------------------------------------------------------------------------------------
# symbolic values

class V:
    def __init__(self, kind, **kw):
        self.kind = kind
        self.__dict__.update(kw)

    def __repr__(self):
        return f"V({self.kind} {self.__dict__})"


def nat(e, bits, d=None, cval=None):
    return V("nat", e=e, bits=bits, d=d, cval=cval)


def boolean(e, d=None):
    return V("bool", e=e, d=d)


def opaque(what):
    return V("opaque", what=what)


def d_and(a, b):
    if a is None:
        return b
    if b is None:
        return a
    return f"({a} && {b})"


def d_all(*ds):
    r = None
    for d in ds:
        r = d_and(r, d)
    return r


def lit(v):
    return hex(v) if v > 9 else str(v)


# ------------------------------------------------------------------------------------------------------------------
# translation of one function

class Fn:
    """Symbolic execution of one Rust function into Lean definitions over an input record `In`.

    self.inputs_table : show(expr) -> (input field, bits | 'bool', doc)   expressions that are *inputs* of the arithmetic
    self.opaque_lets / self.opaque_stmts : [(kind, regex on show(expr))]  known opaque statement kinds
    """

    def __init__(self, unit, world, qual, params, body, self_ty=None, funs=None):
        self.u, self.w, self.qual, self.self_ty = unit, world, qual, self_ty
        self.params = params
        self.body = body
        self.funs = funs or {}          # free functions already translated: name -> (param bits list, ret bits, defd?)
        self.locals = {}
        self.fields = []                # [(name, 'Nat'|'Bool', doc)]
        self.defs = []                  # Lean text blocks
        self.names = set()
        self.binders = []               # loop variables in scope
        self.guards = []                # Lean `Guard In` terms
        self.inputs_table = {}
        self.opaque_lets = []
        self.opaque_stmts = []
        self.opaque_seen = []           # (kind, source text)
        self.cur = None
        self.used_consts = set()
        self.iter_defd = []             # definedness conditions of the current loop iteration
        for pn, pt in params:
            if pt in INT_BITS and INT_BITS[pt] <= 64:
                self.locals[pn] = self.input(pn, INT_BITS[pt], f"parameter `{pn}: {pt}`")

    # ---- errors
    def where(self):
        s = f"{self.u.rel}: fn {self.qual}"
        if self.cur is not None:
            s += ": statement `" + re.sub(r"\s+", " ", show(self.cur))[:220] + "`"
        return s

    def fail(self, msg, cls=Untranslatable):
        raise cls(self.where() + ": " + msg)

    # ---- inputs and definitions
    def input(self, name, bits, doc):
        ty = "Bool" if bits == "bool" else "Nat"
        for n, t, _ in self.fields:
            if n == name:
                break
        else:
            self.fields.append((name, ty, doc))
        return boolean(f"x.{name}") if bits == "bool" else nat(f"x.{name}", bits)

    base = (("x", "In"),)               # leading binders of every definition of the function

    def binder(self):
        return " ".join(f"({n} : {t})" for n, t in self.base) + "".join(f" ({b} : Nat)" for b in self.binders)

    def app(self, name):
        return "(" + " ".join([name] + [n for n, _ in self.base] + self.binders) + ")"

    def fresh(self, name):
        base = name if re.match(r"[A-Za-z_]\w*$", name) and name != "_" else "v"
        if base in ("end", "from", "at", "in", "do", "then", "else", "fun", "let", "def", "open", "In", "guards", "loop"):
            base += "_"
        cand, k = base, 0
        while cand in self.names or cand in self.binders or cand in self.funs or cand in self.w.consts or \
                cand in [n for n, _ in self.base]:
            k += 1
            cand = f"{base}_{k}"
        self.names.add(cand)
        return cand

    def define(self, name, v, src):
        """`let name = <arithmetic>`: a Lean def; returns the value that stands for the local from now on"""
        ln = self.fresh(name)
        ty = "Bool" if v.kind == "bool" else "Nat"
        self.defs.append(f"/-- `{src}` -/\ndef {ln} {self.binder()} : {ty} := {v.e}")
        r = boolean(self.app(ln), v.d) if v.kind == "bool" else nat(self.app(ln), v.bits, v.d)
        return r

    def emit_guard(self, src, fails, d, ret):
        if self.binders:
            self.fail("early exit inside a loop body is not a guard")
        self.guards.append(f"{{ src := {lean_str(src)}, fails := (fun x => {fails}), defd := (fun x => {d or 'true'}), "
                           f"ret := {lean_str(ret)} }}")

    def flush(self, v, src):
        """arithmetic that may be undefined is evaluated here: record the side condition once (outside loops)"""
        if v.kind in ("nat", "bool") and v.d is not None:
            if self.binders:
                self.iter_defd.append(v.d)
            else:
                self.emit_guard(src, "false", v.d, "(definedness)")
            v.d = None
        return v

    # ---- opaque kinds
    def opaque_kind(self, table, node):
        s = re.sub(r"\s+", " ", show(node)).strip().replace("};", "}")
        for kind, rx in table:
            if re.match(rx + r"$", s):
                self.opaque_seen.append((kind, s))
                return kind
        return None

    # ---- expressions
    def tr(self, n, expect=None):
        key = re.sub(r"\s+", " ", show(strip(n)))
        if key in self.inputs_table:
            name, bits, doc = self.inputs_table[key]
            return self.input(name, bits, doc)
        op, a = n.op, n.args
        if op in ("paren", "ref", "deref"):
            return self.tr(a[0], expect)
        if op == "int":
            sfx = n.kw.get("sfx")
            bits = INT_BITS[sfx] if sfx else expect
            if bits is not None and a[0] >= 2 ** bits:
                self.fail(f"literal {a[0]} does not fit {bits} bits")
            return nat(lit(a[0]), bits, cval=a[0])
        if op == "unit":
            return V("unit")
        if op == "path":
            return self.tr_path(n, expect)
        if op == "field":
            return self.tr_field(n)
        if op == "not":
            v = self.tr(a[0])
            if v.kind != "bool":
                self.fail(f"`!` on a non-boolean `{show(a[0])}`")
            return boolean(f"(!{v.e})", v.d)
        if op == "cast":
            v = self.tr(a[0])
            to = a[1]
            if v.kind != "nat" or to not in INT_BITS or INT_BITS[to] > 64:
                self.fail(f"unsupported cast `{show(n)}`")
            if v.bits is None:
                v = self.tr(a[0], INT_BITS[to])
            tb = INT_BITS[to]
            if tb >= v.bits:
                return nat(v.e, tb, v.d, v.cval)
            return nat(f"(trunc {tb} {v.e})", tb, v.d)
        if op == "bin":
            return self.tr_bin(n, expect)
        if op == "mcall":
            return self.tr_mcall(n, expect)
        if op == "call":
            return self.tr_call(n, expect)
        if op == "closure":
            return V("closure", params=a[0], body=a[1])
        if op == "block" and len(a) == 1 and a[0].op == "tail":
            return self.tr(a[0].args[0], expect)
        self.fail(f"unsupported expression `{show(n)}` ({op})")

    def tr_path(self, n, expect):
        p = n.args
        if len(p) == 1:
            nm = p[0]
            if nm in self.locals:
                return self.locals[nm]
            if nm in ("true", "false"):
                return boolean(nm)
            if nm == "self":
                return V("self")
            if nm in self.w.consts and self.w.files.get(nm) == self.u.rel:
                ty, v = self.w.consts[nm]
                self.used_consts.add(nm)
                return nat(nm, INT_BITS[ty], cval=v)
            self.fail(f"unknown name `{nm}`")
        if len(p) == 2 and p[0] in INT_BITS and p[1] == "MAX":
            return nat(lit(2 ** INT_BITS[p[0]] - 1), INT_BITS[p[0]], cval=2 ** INT_BITS[p[0]] - 1)
        if len(p) == 2 and p[0] in INT_BITS and p[1] == "BITS":
            return nat(str(INT_BITS[p[0]]), 32, cval=INT_BITS[p[0]])
        self.fail(f"unknown path `{show(n)}`")

    def tr_field(self, n):
        b = self.tr(n.args[0])
        f = n.args[1]
        if b.kind == "self":
            if self.self_ty is None:
                self.fail("`self` outside an impl")
            ft = self.u.field_ty(self.self_ty, f)
            if ft in INT_BITS and INT_BITS[ft] <= 64:
                return self.input(f, INT_BITS[ft], f"`self.{f}: {ft}`")
            return V("selffield", name=f, ty=ft)
        if b.kind == "structvar":
            ft = self.u.field_ty(b.ty, f)
            if ft in INT_BITS and INT_BITS[ft] <= 64:
                b.used.append(f) if f not in b.used else None
                return nat(f"{b.var}.{f}", INT_BITS[ft])
            self.fail(f"field {b.ty}.{f} of unsupported type {ft}")
        self.fail(f"field access `{show(n)}` on {b.kind}")

    def typed_pair(self, l, r, expect):
        """translate both operands of an operator whose operands have the same type; literals adopt the other side's type"""
        x = y = None
        try:
            x = self.tr(l, expect)
        except Untyped:
            pass
        y = self.tr(r, expect if x is None or x.kind != "nat" or x.bits is None else x.bits)
        if x is None or (x.kind == "nat" and x.bits is None and y.kind == "nat" and y.bits is not None):
            x = self.tr(l, y.bits if y.kind == "nat" else expect)
        return x, y

    def tr_bin(self, n, expect):
        o, l, r = n.args
        if o in ("||", "&&"):
            x, y = self.tr(l), self.tr(r)
            if x.kind != "bool" or y.kind != "bool":
                self.fail(f"`{o}` on non-booleans in `{show(n)}`")
            if o == "||":
                dy = None if y.d is None else f"({x.e} || {y.d})"
            else:
                dy = None if y.d is None else f"((!{x.e}) || {y.d})"
            return boolean(f"({x.e} {o} {y.e})", d_and(x.d, dy))
        if o in ("<<", ">>"):
            x = self.tr(l, expect)
            if x.kind != "nat":
                self.fail(f"shift of a non-number in `{show(n)}`")
            if x.bits is None:
                self.fail(f"the type of `{show(l)}` in `{show(n)}` is fixed by its context only", Untyped)
            y = self.tr(r, 32)
            if y.kind != "nat":
                self.fail(f"shift by a non-number in `{show(n)}`")
            d = d_all(x.d, y.d, f"(decide ({y.e} < {x.bits}))")
            if o == ">>":
                return nat(f"({x.e} >>> {y.e})", x.bits, d)
            return nat(f"(shl {x.bits} {x.e} {y.e})", x.bits, d)
        cmp = o in ("==", "!=", "<", ">", "<=", ">=")
        x, y = self.typed_pair(l, r, None if cmp else expect)
        if x.kind == "bool" and y.kind == "bool" and o in ("==", "!="):
            return boolean(f"({x.e} {o} {y.e})", d_and(x.d, y.d))
        if x.kind != "nat" or y.kind != "nat":
            self.fail(f"`{o}` on non-numbers in `{show(n)}` ({x.kind}, {y.kind})")
        if x.bits is not None and y.bits is not None and x.bits != y.bits:
            self.fail(f"operand types differ in `{show(n)}` (u{x.bits} {o} u{y.bits})")
        bits = x.bits if x.bits is not None else y.bits
        d = d_and(x.d, y.d)
        if o in ("==", "!="):
            return boolean(f"({x.e} {o} {y.e})", d)
        if cmp:
            lo = {"<": "<", ">": ">", "<=": "≤", ">=": "≥"}[o]
            return boolean(f"(decide ({x.e} {lo} {y.e}))", d)
        if bits is None:
            self.fail(f"the type of `{show(n)}` is fixed by its context only", Untyped)
        if o in ("+", "*"):
            return nat(f"({x.e} {o} {y.e})", bits, d_and(d, f"(decide ({x.e} {o} {y.e} < {2 ** bits}))"))
        if o == "-":
            return nat(f"({x.e} - {y.e})", bits, d_and(d, f"(decide ({y.e} ≤ {x.e}))"))
        if o in ("/", "%"):
            if y.cval is not None:
                if y.cval == 0:
                    self.fail(f"division by the constant zero in `{show(n)}`")
            else:
                d = d_and(d, f"(decide (0 < {y.e}))")
            return nat(f"({x.e} {o} {y.e})", bits, d)
        if o in ("&", "|", "^"):
            lo = {"&": "&&&", "|": "|||", "^": "^^^"}[o]
            return nat(f"({x.e} {lo} {y.e})", bits, d)
        self.fail(f"operator `{o}` is not supported")

    def tr_mcall(self, n, expect):
        recv, name, args = n.args[0], n.args[1], n.args[2:]
        v = self.tr_recv(recv)
        if v.kind == "nat":
            if v.bits is None:
                self.fail(f"method `{name}` on an untyped literal", Untyped)
            if name in ("saturating_add", "checked_add", "wrapping_add") and len(args) == 1:
                y = self.tr(args[0], v.bits)
                if y.kind != "nat" or y.bits != v.bits:
                    self.fail(f"`{show(n)}`: operand types differ")
                d = d_and(v.d, y.d)
                if name == "saturating_add":
                    return nat(f"(satAdd {v.bits} {v.e} {y.e})", v.bits, d)
                if name == "wrapping_add":
                    return nat(f"(trunc {v.bits} ({v.e} + {y.e}))", v.bits, d)
                return V("opt", some=f"(checkedAdd {v.bits} {v.e} {y.e}).isSome", val=nat(f"({v.e} + {y.e})", v.bits),
                         raw=f"(checkedAdd {v.bits} {v.e} {y.e})", d=d)
            if name == "count_ones" and not args:
                return nat(f"(countOnes {v.bits} {v.e})", 32, v.d)
            if name == "trailing_zeros" and not args:
                return nat(f"(trailingZeros {v.bits} {v.e})", 32, v.d)
        if v.kind == "opt":
            if name == "ok_or" and len(args) == 1:
                return V("tryable", ok=v.some, inner=v.val, d=v.d, err=show(args[0]))
            if name in ("is_some", "is_none") and not args:
                return boolean(v.some if name == "is_some" else f"(!{v.some})", v.d)
        if v.kind == "tryable" and name == "map_err" and len(args) == 1:
            return V("tryable", ok=v.ok, inner=v.inner, d=v.d, err=show(args[0]))
        r = self.tr_mcall_special(n, v, name, args, expect)
        if r is not None:
            return r
        self.fail(f"unsupported method call `{show(n)}` (receiver: {v.kind})")

    def tr_recv(self, recv):
        return self.tr(recv)

    def tr_mcall_special(self, n, v, name, args, expect):
        return None

    def tr_call(self, n, expect):
        f, args = n.args[0], n.args[1:]
        if f.op != "path":
            self.fail(f"unsupported call `{show(n)}`")
        p = f.args
        if len(p) == 1 and p[0] in self.funs and p[0] not in self.locals_shadowing_fn():
            pbits, rbits, has_defd = self.funs[p[0]]
            if len(args) != len(pbits):
                self.fail(f"`{show(n)}`: arity")
            vals = []
            for a_, b_ in zip(args, pbits):
                v = self.tr(a_, b_)
                if v.kind != "nat" or v.bits != b_:
                    self.fail(f"`{show(n)}`: argument `{show(a_)}` is not a u{b_}")
                vals.append(v)
            d = d_all(*[v.d for v in vals])
            if has_defd:
                d = d_and(d, "(" + " ".join([p[0] + ".defd"] + [v.e for v in vals]) + ")")
            return nat("(" + " ".join([p[0]] + [v.e for v in vals]) + ")", rbits, d)
        if len(p) == 2 and p[0] in INT_BITS and p[1] == "from" and len(args) == 1:
            v = self.tr(args[0])
            if v.kind != "nat" or v.bits is None or v.bits > INT_BITS[p[0]]:
                self.fail(f"`{show(n)}`: not a widening conversion")
            return nat(v.e, INT_BITS[p[0]], v.d, v.cval)
        r = self.tr_call_special(n, p, args, expect)
        if r is not None:
            return r
        self.fail(f"unsupported call `{show(n)}`")

    def locals_shadowing_fn(self):
        return ()

    def tr_call_special(self, n, p, args, expect):
        return None

    # ---- emission
    def lean(self, ns, doc, extra=()):
        out = [f"/-! ### `{self.qual}` ({self.u.rel}){(' — ' + doc) if doc else ''} -/", f"namespace {ns}", ""]
        out.append("/-- the inputs of the arithmetic (`usize`/`u64`/… values as naturals) -/")
        out.append("structure In where")
        if not self.fields:
            out.append("  mk ::")
        for n_, t_, d_ in self.fields:
            out.append(f"  {n_} : {t_}   -- {d_}")
        out.append("")
        for d in self.defs:
            out.append(d)
            out.append("")
        for e in extra:
            out.append(e)
            out.append("")
        if self.opaque_seen:
            out.append("/-- statements recognised as opaque (kind, source): not translated, see the correspondence run -/")
            out.append("def opaqueStmts : List (String × String) := [")
            out.append(",\n".join(f"  ({lean_str(k)}, {lean_str(s)})" for k, s in self.opaque_seen))
            out.append("]")
            out.append("")
        out.append(f"end {ns}")
        out.append("")
        return out

    def guards_def(self):
        return "def guards : List (Guard In) := [" + ("\n  " + ",\n  ".join(self.guards) + "\n]" if self.guards else "]")

    # ---- statement helpers
    def ret_block(self, block):
        """`{ return [E]; }` / `{ break; }` -> ('return', E) / ('break', None) / None"""
        if block is None or block.op != "block" or len(block.args) != 1:
            return None
        s = block.args[0]
        if s.op in ("stmt", "tail"):
            s = s.args[0]
        if s.op == "return":
            return ("return", s.args[0])
        if s.op == "path" and s.args == ["break"]:
            return ("break", None)
        return None

    def do_let_arith(self, s):
        """`let NAME[: T] = E;` with E arithmetic (or `E?` with E a checked conversion / option)"""
        name, e = s.args[0], unparen(s.args[1])
        ty = s.kw.get("ty")
        src = f"let {name}{': ' + ty if ty else ''} = {show(e)}"
        if e.op == "try":
            v = self.tr(e.args[0], INT_BITS.get(ty))
            if v.kind == "conv":
                if ty not in INT_BITS:
                    self.fail("checked conversion without a type annotation")
                tb = INT_BITS[ty]
                inner = v.inner
                if tb < inner.bits:
                    self.emit_guard(src, f"(!(decide ({inner.e} < {2 ** tb})))", inner.d, "Err(InvalidData)")
                elif inner.d is not None:
                    self.flush(inner, src)
                self.locals[name] = self.define(name, nat(inner.e, tb), src)
                return
            if v.kind == "tryable":
                self.emit_guard(src, f"(!{v.ok})", v.d, f"Err({v.err})")
                self.locals[name] = self.define(name, v.inner, src)
                return
            self.fail(f"`?` on unsupported value ({v.kind})")
        v = self.tr(e, INT_BITS.get(ty))
        if v.kind == "nat" and v.bits is None:
            self.fail("cannot type the value")
        if v.kind == "nat" and ty in INT_BITS and INT_BITS[ty] != v.bits:
            self.fail(f"declared type {ty} does not match u{v.bits}")
        if v.kind not in ("nat", "bool"):
            self.fail(f"unsupported `let` of a value of kind {v.kind}")
        d = v.d
        v.d = None
        r = self.define(name, v, src)
        r.d = d
        self.flush(r, src)
        self.locals[name] = r


# ==================================================================================================================
# bitmap.rs -> Gen/BitmapOps.lean

def gen_header(title, imports=("VhostModel.Base.ArithSig",)):
    return [LEAN_HEADER] + [f"import {i}" for i in imports] + ["", "set_option linter.unusedVariables false", "",
                                                                f"/-! {title}", "vocabulary and semantics: `VhostModel/Base/ArithSig.lean`. -/"]


def need_const(world, name, rel):
    if name not in world.consts or world.files.get(name) != rel:
        raise Untranslatable(f"{rel}: constant {name} not found (or not a constant integer expression)")
    return world.consts[name]


def pure_fn(unit, world, name, funs):
    """`fn name(p: uN, ..) -> uM { single expression }` -> `def name (p .. : Nat) : Nat` and `name.defd`"""
    if name not in unit.fns:
        raise Untranslatable(f"{unit.rel}: fn {name} not found")
    params, ret, body = unit.fns[name]
    f = Fn(unit, world, name, [], body, funs=funs)
    pbits = []
    for pn, pt in params:
        if pt not in INT_BITS or INT_BITS[pt] > 64:
            f.fail(f"parameter `{pn}: {pt}` is not an integer")
        f.locals[pn] = nat(pn, INT_BITS[pt])
        pbits.append(INT_BITS[pt])
    if ret not in INT_BITS:
        f.fail(f"return type `{ret}` is not an integer")
    stmts = parse_block(prep(body, f.where()), f.where())
    if len(stmts) != 1 or stmts[0].op != "tail":
        f.fail("body is not a single expression")
    f.cur = stmts[0]
    v = f.tr(stmts[0].args[0], INT_BITS[ret])
    if v.kind != "nat" or v.bits != INT_BITS[ret]:
        f.fail(f"value is not a {ret}")
    b = " ".join(f"({pn} : Nat)" for pn, _ in params)
    sig = ", ".join(f"{pn}: {pt}" for pn, pt in params)
    out = [f"/-- `fn {name}({sig}) -> {ret} {{ {show(stmts[0].args[0])} }}` ({unit.rel}) -/",
           f"def {name} {b} : Nat := {v.e}",
           f"/-- the arithmetic of `{name}` is defined -/",
           f"def {name}.defd {b} : Bool := {v.d or 'true'}", ""]
    funs[name] = (pbits, INT_BITS[ret], v.d is not None)
    return out, f.used_consts


class LogFn(Fn):
    """functions of `AtomicBitmapMmap`: `self.logmem[i]` is a word of the log (bounds-asserted index, atomic element)"""

    def log_elem_bits(self):
        ft = self.u.field_ty("AtomicBitmapMmap", "logmem")
        if ft != "Arc<MmapLogReg>":
            self.fail(f"AtomicBitmapMmap.logmem has type {ft}, expected Arc<MmapLogReg>")
        out = self.u.assoc("Index", "MmapLogReg", "Output")
        m = re.match(r"AtomicU(8|16|32|64)$", out)
        if not m:
            self.fail(f"impl Index for MmapLogReg: Output = {out} is not an atomic unsigned integer")
        params, ret, body = self.u.method("MmapLogReg", "index", "Index")
        st = parse_block(prep(body, self.where()), self.where())
        ok = len(params) == 1 and params[0][1] == "usize" and st and st[0].op == "stmt" and st[0].args[0].op == "macro" and \
            st[0].args[0].args[0] == "assert" and \
            re.sub(r"\s+", "", st[0].args[0].args[1]) == f"{params[0][0]}<self.len"
        if not ok:
            self.fail("MmapLogReg::index does not start with `assert!(index < self.len)`")
        p2, r2, b2 = self.u.method("MmapLogReg", "len")
        st2 = parse_block(b2, self.where())
        if not (len(st2) == 1 and st2[0].op == "tail" and show(st2[0].args[0]) == "self.len" and r2 == "usize"):
            self.fail("MmapLogReg::len is not `self.len`")
        return int(m.group(1))

    def logmem_len(self):
        return self.input("logmem_len", 64, "`self.logmem.len()` (`MmapLogReg::len`, the bound asserted by `MmapLogReg::index`)")

    def tr_recv(self, recv):
        r = unparen(recv)
        if r.op == "index" and show(strip(r.args[0])) == "self.logmem":
            bits = self.log_elem_bits()
            i = self.tr(r.args[1], 64)
            if i.kind != "nat" or i.bits != 64:
                self.fail(f"log index `{show(r.args[1])}` is not a usize")
            ln = self.logmem_len()
            return V("logword", idx=i, bits=bits, d=d_and(i.d, f"(decide ({i.e} < {ln.e}))"))
        return self.tr(recv)

    def ordering(self, n):
        n = unparen(n)
        if n.op == "path" and len(n.args) == 2 and n.args[0] == "Ordering":
            return n.args[1]
        self.fail(f"`{show(n)}` is not a memory ordering")

    def tr_mcall_special(self, n, v, name, args, expect):
        if v.kind == "logword" and name == "load" and len(args) == 1:
            self.ordering(args[0])
            if getattr(self, "load", None) is not None:
                self.fail("a second atomic load")
            self.load = v
            self.opaque_seen.append(("atomic load", re.sub(r"\s+", " ", show(n))))
            r = self.input("loaded", v.bits, f"the value returned by `{re.sub(' +', ' ', show(n))}`")
            r.d = v.d
            return r
        return None


def exec_simple(f, stmts, on_tail, ret_show=None, on_other=None):
    """guards, arithmetic lets, and a tail handled by `on_tail`"""
    for k, s in enumerate(stmts):
        f.cur = s
        if s.op == "let":
            f.do_let_arith(s)
        elif s.op == "stmt" and s.args[0].op == "if":
            c, th, el = s.args[0].args
            rb = f.ret_block(th)
            if c.op == "iflet" or el is not None or rb is None or rb[0] != "return":
                if on_other and on_other(s):
                    continue
                f.fail("unsupported `if` statement (expected `if cond { return ..; }`)")
            cv = f.tr(c)
            if cv.kind != "bool":
                f.fail("condition is not boolean")
            f.emit_guard(f"if {show(c)} {{ {show(Node('return', rb[1]))} }}", cv.e, cv.d, show(rb[1]) if rb[1] is not None else "()")
        elif s.op == "tail" and k == len(stmts) - 1:
            on_tail(unparen(s.args[0]))
        elif on_other and on_other(s):
            pass
        else:
            f.fail(f"unsupported statement ({s.op})")


def gen_bitmap_new(u, world, funs):
    params, ret, body = u.method("AtomicBitmapMmap", "new", "MemRegionBitmap")
    f = LogFn(u, world, "AtomicBitmapMmap::new", params, body, self_ty="AtomicBitmapMmap", funs=funs)
    if [pn for pn, _ in params] != ["region", "logmem"] or params[1][1] != "Arc<MmapLogReg>":
        f.fail(f"parameter list changed: {params}")
    f.log_elem_bits()
    f.inputs_table = {
        "region.start_addr().raw_value()": ("region_start", 64, "`region.start_addr().raw_value()` (u64)"),
        "region.len()": ("region_len", 64, "`region.len()` (u64)"),
        "logmem.len()": ("logmem_len", 64, "`logmem.len()` (`MmapLogReg::len`)"),
    }
    # `x.io_try_into()` is `x.try_into()` with the error mapped (impl IoTryInto)
    p2, r2, b2 = u.method("TySrc", "io_try_into", "IoTryInto")
    st = parse_block(b2, f.where())
    if not (len(st) == 1 and st[0].op == "tail" and show(st[0].args[0]).startswith("self.try_into().map_err(")):
        f.fail("IoTryInto::io_try_into is not `self.try_into().map_err(..)`")

    def special(n, v, name, args, expect, base=f.tr_mcall_special):
        if v.kind == "nat" and name == "io_try_into" and not args:
            return V("conv", inner=v)
        return base(n, v, name, args, expect)
    f.tr_mcall_special = special
    outs = []

    def on_tail(e):
        if not (is_call(e, "Ok") and len(e.args) == 2 and unparen(e.args[1]).op == "struct" and
                unparen(e.args[1]).args[0] == "Self"):
            f.fail("the function does not end in `Ok(Self { .. })`")
        fields = dict(unparen(e.args[1]).args[1])
        for fn_, ft in u.structs["AtomicBitmapMmap"]:
            if fn_ not in fields:
                f.fail(f"field {fn_} missing in the struct literal")
            if ft in INT_BITS:
                v = f.tr(fields[fn_], INT_BITS[ft])
                if v.kind != "nat" or v.bits != INT_BITS[ft]:
                    f.fail(f"field {fn_} is not a {ft}")
                f.flush(v, f"{fn_}: {show(fields[fn_])}")
                f.locals["ret_" + fn_] = f.define("ret_" + fn_, v, f"{fn_}: {show(fields[fn_])}")
                outs.append(fn_)
            elif not (fn_ == "logmem" and show(fields[fn_]) == "logmem"):
                f.fail(f"field {fn_}: {show(fields[fn_])} is not the `logmem` parameter")
    exec_simple(f, parse_block(prep(body, f.where()), f.where()), on_tail)
    if outs != ["pages_before_region", "number_of_pages"]:
        f.fail(f"integer fields of AtomicBitmapMmap changed: {outs}")
    return f.lean("AtomicBitmapMmap.new", "every early `return Err(..)` / `?` is a guard; `ret_*` are the fields of the value built",
                  [f.guards_def()]), f.used_consts


def gen_bitmap_mark(u, world, funs):
    params, ret, body = u.method("AtomicBitmapMmap", "mark_dirty", None)
    f = LogFn(u, world, "AtomicBitmapMmap::mark_dirty", params, body, self_ty="AtomicBitmapMmap", funs=funs)
    if params != [("offset", "usize"), ("len", "usize")]:
        f.fail(f"parameter list changed: {params}")
    loop = []

    def on_for(s):
        e = s.args[0] if s.op in ("stmt", "tail") else None
        if e is None or e.op != "match" or not is_call(e.args[0], "__for"):
            return False
        if loop:
            f.fail("a second loop")
        it = unparen(e.args[0].args[1])
        incl = is_call(it, "__range_incl")
        if not (incl or is_call(it, "__range")) or len(it.args) != 3:
            f.fail("the loop does not iterate over a range `a..=b` / `a..b`")
        lo, hi = f.tr(it.args[1], 64), f.tr(it.args[2], 64)
        if lo.kind != "nat" or hi.kind != "nat" or lo.bits != hi.bits or lo.d is not None or hi.d is not None:
            f.fail("range bounds")
        (pat, guard, bodyn), = e.args[1]
        var = pat.strip()
        if not re.match(r"[a-z_]\w*$", var) or guard is not None or bodyn.op != "block":
            f.fail("loop pattern")
        saved = dict(f.locals)
        f.binders = [var]
        f.iter_defd = []
        f.locals[var] = nat(var, lo.bits)
        st = bodyn.args
        brk = None
        eff = None
        for k, b in enumerate(st):
            f.cur = b
            if b.op == "stmt" and b.args[0].op == "if" and k == 0:
                c, th, el = b.args[0].args
                rb = f.ret_block(th)
                if c.op == "iflet" or el is not None or rb is None or rb[0] != "break":
                    f.fail("the first statement of the loop body is not `if cond { break; }`")
                cv = f.tr(c)
                if cv.kind != "bool" or cv.d is not None:
                    f.fail("break condition")
                brk = cv.e
            elif b.op == "let" and eff is None:
                f.do_let_arith(b)
            elif b.op == "stmt" and b.args[0].op == "mcall" and eff is None and k == len(st) - 1:
                m = b.args[0]
                w = f.tr_recv(m.args[0])
                if w.kind != "logword" or m.args[1] != "fetch_or" or len(m.args) != 4:
                    f.fail("the effect of the loop body is not `self.logmem[i].fetch_or(mask, ordering)`")
                mask = f.tr(m.args[2], w.bits)
                if mask.kind != "nat" or mask.bits != w.bits:
                    f.fail("mask type")
                f.ordering(m.args[3])
                f.opaque_seen.append(("atomic fetch_or", re.sub(r"\s+", " ", show(m))))
                eff = (w, mask)
            else:
                f.fail("unsupported statement in the loop body")
        if brk is None or eff is None:
            f.fail("loop body without break test / effect")
        w, mask = eff
        dd = d_all(*(f.iter_defd + [w.d, mask.d])) or "true"
        loop.append("def loop : AtomicLoop In := {\n"
                    f"  src := {lean_str(show(e))},\n"
                    f"  first := fun x => {lo.e},\n  last := fun x => {hi.e},\n  inclusive := {'true' if incl else 'false'},\n"
                    f"  brk := fun x {var} => {brk},\n  idx := fun x {var} => {w.idx.e},\n  mask := fun x {var} => {mask.e},\n"
                    f"  defd := fun x {var} => {dd} }}")
        f.binders = []
        f.locals = saved
        return True

    def on_tail(e):
        f.fail("unexpected value at the end of the function")
    stmts = parse_block(prep(body, f.where()), f.where())
    if stmts and stmts[-1].op == "tail" and stmts[-1].args[0].op == "match":
        stmts[-1] = Node("stmt", stmts[-1].args[0])
    exec_simple(f, stmts, on_tail, on_other=on_for)
    if not loop or not (stmts[-1].op == "stmt" and stmts[-1].args[0].op == "match"):
        f.fail("the function does not end with its loop")
    return f.lean("AtomicBitmapMmap.mark_dirty", "early exit, range, break test, word index and mask of the `fetch_or` loop",
                  [f.guards_def(), loop[0], "def prog : AtomicProg In := { guards := guards, loop := loop }"]), f.used_consts


def gen_bitmap_dirty_at(u, world, funs):
    params, ret, body = u.method("AtomicBitmapMmap", "dirty_at", None)
    f = LogFn(u, world, "AtomicBitmapMmap::dirty_at", params, body, self_ty="AtomicBitmapMmap", funs=funs)
    if params != [("offset", "usize")] or ret != "bool":
        f.fail(f"signature changed: {params} -> {ret}")
    f.load = None

    def on_tail(e):
        v = f.tr(e)
        if v.kind != "bool":
            f.fail("the value returned is not a bool")
        f.flush(v, show(e))
        f.define("result", v, show(e))
    exec_simple(f, parse_block(prep(body, f.where()), f.where()), on_tail)
    if f.load is None:
        f.fail("no atomic load found")
    extra = [f.guards_def(), f"/-- index of the word loaded -/\ndef load_idx (x : In) : Nat := {f.load.idx.e}"]
    return f.lean("AtomicBitmapMmap.dirty_at", "`guards` exit 0 returns `false`; otherwise `result` of the loaded word", extra), \
        f.used_consts


class RegionFn(Fn):
    """methods of `impl Bitmap for BitmapMmapRegion`: the lock and the inner bitmap are opaque, the offset arithmetic is not"""
    LOCK = [("lock (read)", r"self\.inner\.read\(\)\.unwrap\(\)")]

    def check_self(self):
        if self.u.field_ty("BitmapMmapRegion", "inner") != "Arc<RwLock<Option<AtomicBitmapMmap>>>":
            self.fail("BitmapMmapRegion.inner is not Arc<RwLock<Option<AtomicBitmapMmap>>>")
        if self.u.field_ty("BitmapMmapRegion", "base_address") != "usize":
            self.fail("BitmapMmapRegion.base_address is not usize")

    def inner_is_some(self):
        return self.input("inner_is_some", "bool", "`self.inner.read().unwrap().is_some()`")


def gen_region_mark(u, world, funs):
    params, ret, body = u.method("BitmapMmapRegion", "mark_dirty", "Bitmap")
    f = RegionFn(u, world, "BitmapMmapRegion::mark_dirty", params, body, self_ty="BitmapMmapRegion", funs=funs)
    f.check_self()
    if params != [("offset", "usize"), ("len", "usize")]:
        f.fail(f"parameter list changed: {params}")
    conds, calls = [], []

    def walk(stmts):
        for s in stmts:
            f.cur = s
            e = s.args[1] if s.op == "let" else s.args[0]
            if s.op == "let" and f.opaque_kind(f.LOCK, e):
                f.locals[s.args[0]] = V("guard")
            elif s.op == "let":
                f.do_let_arith(s)
            elif s.op in ("stmt", "tail") and e.op == "if" and e.args[0].op == "iflet" and e.args[2] is None:
                pat, sc = e.args[0].args
                m = re.match(r"Some \( (\w+) \)$", pat)
                if not m:
                    f.fail(f"unsupported pattern `{pat}`")
                sc = unparen(sc)
                saved = dict(f.locals)
                if sc.op == "mcall" and sc.args[1] == "as_ref" and len(sc.args) == 2 and \
                        f.tr(sc.args[0]).kind == "guard":
                    conds.append(f.inner_is_some().e)
                    f.locals[m.group(1)] = V("innerbm")
                else:
                    v = f.tr(sc)
                    if v.kind != "opt" or v.d is not None:
                        f.fail("`if let Some(..)` on something that is neither the inner bitmap nor a checked sum")
                    conds.append(v.some)
                    f.locals[m.group(1)] = f.define(m.group(1), v.val, f"if let Some({m.group(1)}) = {show(sc)}")
                walk(e.args[1].args)
                conds.pop()
                f.locals = saved
            elif s.op in ("stmt", "tail") and e.op == "mcall" and f.tr(e.args[0]).kind == "innerbm":
                if e.args[1] != "mark_dirty" or len(e.args) != 4 or calls:
                    f.fail("the inner bitmap is not used by exactly one `mark_dirty(offset, len)`")
                a = [f.tr(x, 64) for x in e.args[2:]]
                if any(v.kind != "nat" or v.bits != 64 or v.d is not None for v in a):
                    f.fail("arguments of the inner mark_dirty")
                calls.append(f"/-- `{show(e)}` under the `if let`s around it: the arguments of the inner `mark_dirty`, if it is called -/\n"
                             f"def call_mark_dirty (x : In) : Option (Nat × Nat) :=\n  if {' && '.join(conds) or 'true'} then some ({a[0].e}, {a[1].e}) else none")
            else:
                f.fail("unsupported statement")
    walk(parse_block(prep(body, f.where()), f.where()))
    if not calls:
        f.fail("no call of the inner mark_dirty")
    return f.lean("BitmapMmapRegion.mark_dirty", "", calls), f.used_consts


def gen_region_dirty_at(u, world, funs):
    params, ret, body = u.method("BitmapMmapRegion", "dirty_at", "Bitmap")
    f = RegionFn(u, world, "BitmapMmapRegion::dirty_at", params, body, self_ty="BitmapMmapRegion", funs=funs)
    f.check_self()
    st = parse_block(prep(body, f.where()), f.where())
    if params != [("offset", "usize")] or len(st) != 2 or st[0].op != "let" or st[1].op != "tail":
        f.fail("shape changed (expected `let inner = <lock>; inner.as_ref().is_some_and(|b| b.dirty_at(..))`)")
    f.cur = st[0]
    if not f.opaque_kind(f.LOCK, st[0].args[1]):
        f.fail("unsupported statement")
    f.cur = st[1]
    e = unparen(st[1].args[0])
    ok = e.op == "mcall" and e.args[1] == "is_some_and" and len(e.args) == 3 and show(e.args[0]) == st[0].args[0] + ".as_ref()" \
        and e.args[2].op == "closure" and len(e.args[2].args[0]) == 1
    if ok:
        c = unparen(e.args[2].args[1])
        ok = c.op == "mcall" and c.args[1] == "dirty_at" and len(c.args) == 3 and show(c.args[0]) == e.args[2].args[0][0]
    if not ok:
        f.fail("not `inner.as_ref().is_some_and(|bitmap| bitmap.dirty_at(..))`")
    a = f.tr(c.args[2], 64)
    if a.kind != "nat" or a.bits != 64 or a.d is not None:
        f.fail("argument of the inner dirty_at")
    extra = [f"/-- `{show(e)}`: the argument of the inner `dirty_at`, if there is an inner bitmap (`false` otherwise) -/\n"
             f"def call_dirty_at (x : In) : Option Nat :=\n  if {f.inner_is_some().e} then some {a.e} else none"]
    return f.lean("BitmapMmapRegion.dirty_at", "", extra), f.used_consts


def gen_region_slice(u, world, funs):
    params, ret, body = u.method("BitmapMmapRegion", "slice_at", "Bitmap")
    f = RegionFn(u, world, "BitmapMmapRegion::slice_at", params, body, self_ty="BitmapMmapRegion", funs=funs)
    f.check_self()
    st = parse_block(prep(body, f.where()), f.where())
    if params != [("offset", "usize")] or len(st) != 1 or st[0].op != "tail" or unparen(st[0].args[0]).op != "struct":
        f.fail("shape changed (expected a single struct literal)")
    f.cur = st[0]
    lit_ = unparen(st[0].args[0])
    fields = dict(lit_.args[1])
    if lit_.args[0] != "Self" or sorted(fields) != ["base_address", "inner"]:
        f.fail("struct literal fields")
    if show(fields["inner"]) != "Arc::clone(&self.inner)":
        f.fail("the slice does not share `self.inner`")
    f.opaque_seen.append(("shared inner", "inner: Arc::clone(&self.inner)"))
    v = f.tr(fields["base_address"], 64)
    if v.kind != "nat" or v.bits != 64 or v.d is not None:
        f.fail("base_address of the slice")
    f.define("ret_base_address", v, "base_address: " + show(fields["base_address"]))
    return f.lean("BitmapMmapRegion.slice_at", "", []), f.used_consts


def _gen_bitmap(world, repo):
    u = Unit(repo, REL_BITMAP)
    funs = {}
    blocks, used = [], set()
    for name in ("page_number", "page_word", "page_bit"):
        b, c = pure_fn(u, world, name, funs)
        blocks.append(b)
        used |= c
    for g in (gen_bitmap_new, gen_bitmap_mark, gen_bitmap_dirty_at, gen_region_mark, gen_region_dirty_at, gen_region_slice):
        b, c = g(u, world, funs)
        blocks.append(b)
        used |= c
    out = gen_header("Arithmetic of the dirty-log bitmap (" + REL_BITMAP + ");")
    out += ["namespace Gen.BitmapOps", "open ArithSig", ""]
    for name in ("LOG_PAGE_SIZE", "LOG_WORD_SIZE"):
        need_const(world, name, REL_BITMAP)
    for name in sorted(used | {"LOG_PAGE_SIZE", "LOG_WORD_SIZE"}, key=lambda c: list(world.consts).index(c)):
        ty, v = need_const(world, name, REL_BITMAP)
        out += [f"/-- `const {name}: {ty}` -/", f"def {name} : Nat := {hex(v)}", ""]
    for b in blocks:
        out += b
    out.append("end Gen.BitmapOps")
    return "\n".join(out) + "\n"


def guarded(fn, rel):
    def g(world):
        try:
            return fn(world, g.repo)
        except Untranslatable:
            raise
        except Exception as e:   # an unexpected shape must not surface as a Python error (or be skipped)
            raise Untranslatable(f"{rel}: arithmetic translation: unexpected shape ({type(e).__name__}: {e})")
    return g


gen_bitmap = guarded(_gen_bitmap, REL_BITMAP)



# ==================================================================================================================
# handler.rs: vmm_va_to_gpa -> Gen/MemOps.lean

def int_fields(u, struct):
    return [(n, t) for n, t in u.structs.get(struct, []) if t in INT_BITS and INT_BITS[t] <= 64]


def _gen_mem(world, repo):
    u = Unit(repo, REL_HANDLER)
    params, ret, body = u.method("VhostUserHandler", "vmm_va_to_gpa")
    f = Fn(u, world, "VhostUserHandler::vmm_va_to_gpa", [], body, self_ty="VhostUserHandler")
    if params != [("vmm_va", "u64")] or ret != "VhostUserHandlerResult<u64>":
        f.fail(f"signature changed: {params} -> {ret}")
    if u.field_ty("VhostUserHandler", "mappings") != "Vec<AddrMapping>":
        f.fail("VhostUserHandler.mappings is not Vec<AddrMapping>")
    fields = int_fields(u, "AddrMapping")
    if len(fields) != len(u.structs["AddrMapping"]):
        f.fail("AddrMapping has a non-integer field")
    f.locals["vmm_va"] = nat("vmm_va", 64)
    stmts = parse_block(prep(body, f.where()), f.where())
    if len(stmts) != 2 or stmts[0].op != "stmt" or stmts[1].op != "tail":
        f.fail("shape changed (expected one `for` loop followed by `Err(..)`)")
    f.cur = stmts[0]
    e = stmts[0].args[0]
    if e.op != "match" or not is_call(e.args[0], "__for") or show(e.args[0].args[1]) != "self.mappings.iter()":
        f.fail("the statement is not `for mapping in self.mappings.iter() { .. }`")
    (pat, guard, bodyn), = e.args[1]
    var = pat.strip()
    if not re.match(r"[a-z_]\w*$", var) or bodyn.op != "block" or len(bodyn.args) != 1:
        f.fail("loop pattern / body")
    sv = V("structvar", ty="AddrMapping", var="m", used=[])
    f.locals[var] = sv
    inner = bodyn.args[0].args[0]
    f.cur = bodyn.args[0]
    if inner.op != "if" or inner.args[0].op == "iflet" or inner.args[2] is not None:
        f.fail("loop body is not a single `if cond { return Ok(..); }`")
    rb = f.ret_block(inner.args[1])
    if rb is None or rb[0] != "return" or not is_call(unparen(rb[1]), "Ok") or len(unparen(rb[1]).args) != 2:
        f.fail("the `if` does not `return Ok(value)`")
    cv = f.tr(inner.args[0])
    if cv.kind != "bool":
        f.fail("condition is not boolean")
    rv = f.tr(unparen(rb[1]).args[1], 64)
    if rv.kind != "nat" or rv.bits != 64:
        f.fail("the value returned is not a u64")
    f.cur = stmts[1]
    miss = unparen(stmts[1].args[0])
    if not (is_call(miss, "Err") and len(miss.args) == 2 and show(miss.args[1]) == "VhostUserHandlerError::MissingMemoryMapping"):
        f.fail("the function does not end in `Err(VhostUserHandlerError::MissingMemoryMapping)`")
    out = gen_header("Address translation of the daemon (" + REL_HANDLER + ": `vmm_va_to_gpa`);")
    out += ["namespace Gen.MemOps", "open ArithSig", "",
            "/-- `struct AddrMapping` (" + REL_HANDLER + "), every field a `u64`; `used` = the fields `vmm_va_to_gpa` reads -/",
            "structure AddrMapping where"]
    for n_, t_ in fields:
        out.append(f"  {n_} : Nat := 0   -- {t_}")
    out += ["", "def AddrMapping.used : List String := [" + ", ".join(lean_str(x) for x in sv.used) + "]", "",
            f"/-! ### `{f.qual}` -/", "namespace vmm_va_to_gpa", "",
            f"/-- `{show(inner.args[0])}` -/",
            f"def hit (m : AddrMapping) (vmm_va : Nat) : Bool := {cv.e}",
            "/-- the arithmetic of the containment test is defined (`&&` is lazy) -/",
            f"def hit.defd (m : AddrMapping) (vmm_va : Nat) : Bool := {cv.d or 'true'}",
            f"/-- `{show(unparen(rb[1]).args[1])}` -/",
            f"def res (m : AddrMapping) (vmm_va : Nat) : Nat := {rv.e}",
            f"def res.defd (m : AddrMapping) (vmm_va : Nat) : Bool := {rv.d or 'true'}", "",
            "/-- first mapping that contains the address, else `Err(MissingMemoryMapping)` -/",
            "def loop : FindLoop AddrMapping := {",
            f"  src := {lean_str(show(e))},",
            "  hit := hit, hitDefd := hit.defd, res := res, resDefd := res.defd }", "",
            "end vmm_va_to_gpa", "", "end Gen.MemOps"]
    return "\n".join(out) + "\n"


gen_mem = guarded(_gen_mem, REL_HANDLER)



# ==================================================================================================================
# handler.rs / event_loop.rs: queue -> event id arithmetic, worker slices, listener / dispatch decisions
#   -> Gen/RoutingOps.lean

def backend_sig(repo, name, ret):
    """the signature `fn name(&self) -> ret;` of trait VhostUserBackend (backend.rs)"""
    with open(os.path.join(repo, REL_BACKEND)) as fh:
        src = fh.read()
    if not re.search(r"fn\s+%s\s*\(\s*&self\s*\)\s*->\s*%s\s*[;{]" % (name, re.escape(ret)), src):
        raise Untranslatable(f"{REL_BACKEND}: trait VhostUserBackend: `fn {name}(&self) -> {ret}` not found")


def norm(n):
    return re.sub(r"\s+", " ", show(n)).strip()


# known opaque statement kinds of the functions of handler.rs that are walked (regexes on the source text)
H_OPAQUE_LETS = [
    ("lock (vring state)", r"vring\.get_ref\(\)"),
]
H_OPAQUE_CONDS = [
    ("ring state (started and enabled)", r"vring_state\.get_queue\(\)\.ready\(\) && vring_state\.is_enabled\(\)"),
]
H_OPAQUE_STMTS = [
    ("ring state update", r"vring\.set_queue_ready\(true\);"),
    ("error filter (AlreadyExists is not an error)",
     r"if e\.kind\(\) != io::ErrorKind::AlreadyExists \{ return Err\(VhostUserError::ReqHandlerError\(e\)\); \}"),
]
EPOLL_OPS = ("register_event", "unregister_event")


class RouteFn(Fn):
    """`update_vring_registration` / `unregister_vring_kick`: the loop over `self.queues_per_thread`"""
    base = (("queues_mask", "Nat"), ("index", "Nat"))

    def __init__(self, u, world, name, repo):
        params, ret, body = u.method("VhostUserHandler", name)
        Fn.__init__(self, u, world, "VhostUserHandler::" + name, [], body, self_ty="VhostUserHandler")
        self.name = name
        if [p for p, _ in params] != ["vring", "index"] or params[1][1] not in INT_BITS:
            self.fail(f"parameter list changed: {params}")
        self.index_bits = INT_BITS[params[1][1]]
        self.locals["index"] = nat("index", self.index_bits)
        if u.field_ty("VhostUserHandler", "queues_per_thread") != "Vec<u64>":
            self.fail("VhostUserHandler.queues_per_thread is not Vec<u64>")
        if not u.field_ty("VhostUserHandler", "handlers").startswith("Vec<"):
            self.fail("VhostUserHandler.handlers is not a Vec")
        self.rows = []
        self.test = None
        self.breaks = False
        self.loops = 0

    def epoll_call(self, e, when):
        """`self.handlers[H].(un)register_event(fd.as_raw_fd(), EventSet::IN, DATA)` -> a row"""
        e = unparen(e)
        if not (e.op == "mcall" and e.args[1] in EPOLL_OPS and unparen(e.args[0]).op == "index" and
                norm(unparen(e.args[0]).args[0]) == "self.handlers" and len(e.args) == 5):
            return False
        if self.test is None:
            self.fail("epoll call outside the bit test")
        if norm(e.args[2]) != "fd.as_raw_fd()" or norm(e.args[3]) != "EventSet::IN":
            self.fail("epoll call: fd / event set arguments")
        saved = dict(self.locals)
        self.locals["thread_index"] = nat("thread_index", 64)
        h = self.tr(unparen(e.args[0]).args[1], 64)
        self.locals = saved
        data = self.tr(e.args[4], 64)
        if h.kind != "nat" or h.d is not None or data.kind != "nat" or data.bits != 64:
            self.fail("epoll call: handler index / data")
        tcond, tdefd, nd = self.test
        dd = d_all(*(self.iter_defd[nd:] + [data.d]))
        self.rows.append(dict(op=e.args[1], when=when, test=tcond, testDefd=tdefd or "true", data=data.e,
                              dataDefd=dd or "true", handler=h.e, src=norm(e)))
        self.opaque_seen.append(("epoll call", norm(e)))
        return True

    def walk(self, stmts, inloop=False, intest=False, when="always"):
        for k, s in enumerate(stmts):
            self.cur = s
            e = unparen(s.args[1] if s.op == "let" else s.args[0]) if s.args and s.op != "return" else None
            last = k == len(stmts) - 1
            if s.op == "let":
                if self.opaque_kind(H_OPAQUE_LETS, e):
                    self.locals[s.args[0]] = opaque("guard")
                elif s.args[0] == "_" and self.epoll_call(e, when):
                    pass
                elif inloop:
                    self.do_let_arith(s)
                else:
                    self.fail("unsupported `let`")
            elif s.op in ("stmt", "tail") and e.op == "if":
                c, th, el = e.args
                if c.op == "iflet":
                    pat, sc = _pat(c.args[0]), unparen(c.args[1])
                    if pat == "Some(fd)" and norm(sc) == "vring_state.get_kick()" and el is None and not inloop:
                        self.opaque_seen.append(("kick fd present", norm(Node("if", c, Node("block"), None))[:-3]))
                        self.walk(th.args, inloop, intest, when)
                    elif pat == "Err(e)" and el is None and self.epoll_call(sc, when):
                        for b in th.args:
                            self.cur = b
                            if not self.opaque_kind(H_OPAQUE_STMTS, b):
                                self.fail("unsupported statement in the error branch of an epoll call")
                    else:
                        self.fail("unsupported `if let`")
                elif self.opaque_kind(H_OPAQUE_CONDS, c):
                    if not intest or el is None or el.op != "block":
                        self.fail("ring-state condition outside the bit test / without else")
                    self.walk(th.args, inloop, intest, norm(c))
                    self.walk(el.args, inloop, intest, "!(" + norm(c) + ")")
                elif inloop and not intest and el is None:
                    cv = self.tr(c)
                    if cv.kind != "bool" or self.test is not None:
                        self.fail("bit test")
                    self.test = (cv.e, d_all(*(self.iter_defd + [cv.d])), len(self.iter_defd))
                    self.walk(th.args, inloop, True, when)
                    if not self.breaks:
                        self.fail("the bit-test block does not end in `break;`")
                    if not last:
                        self.fail("statements after the bit test in the loop body")
                else:
                    self.fail("unsupported `if`")
            elif s.op in ("stmt", "tail") and e.op == "path" and e.args == ["break"] and intest and last and when == "always":
                self.breaks = True
            elif s.op in ("stmt", "tail") and e.op == "match" and is_call(e.args[0], "__for") and not inloop:
                if norm(e.args[0].args[1]) != "self.queues_per_thread.iter().enumerate()" or self.loops:
                    self.fail("the loop is not `for (thread_index, queues_mask) in self.queues_per_thread.iter().enumerate()`")
                (pat, guard, bodyn), = e.args[1]
                if _pat(pat) != "(thread_index, queues_mask)" or bodyn.op != "block":
                    self.fail("loop pattern")
                self.loops += 1
                self.binders_saved = dict(self.locals)
                self.locals["queues_mask"] = nat("queues_mask", 64)
                self.locals["thread_index"] = opaque("thread_index")
                self.in_loop_mode(True)
                self.walk(bodyn.args, True, False, when)
                self.in_loop_mode(False)
                self.locals = self.binders_saved
            elif s.op == "tail" and last and not inloop and norm(e) == "Ok(())":
                pass
            else:
                self.fail("unsupported statement")

    def in_loop_mode(self, on):
        # definedness conditions are collected (not emitted as guards) while inside the loop
        self._inloop = on

    def flush(self, v, src):
        if v.kind in ("nat", "bool") and v.d is not None:
            self.iter_defd.append(v.d)
            v.d = None
        return v

    def emit(self):
        self.walk(parse_block(prep(self.body, self.where()), self.where()))
        self.cur = None
        if not self.rows:
            self.fail("no epoll call found in the loop")
        out = [f"/-! ### `{self.qual}` ({self.u.rel}) — `index: u{self.index_bits}`, `queues_mask: u64` -/",
               f"namespace {self.name}", ""]
        for d in self.defs:
            out += [d, ""]
        out.append("def rows : List RouteRow := [")
        rs = []
        for r in self.rows:
            rs.append(f"  {{ fn := {lean_str(self.name)}, op := {lean_str(r['op'])}, when := {lean_str(r['when'])},\n"
                      f"    test := fun queues_mask index => {r['test']},\n"
                      f"    testDefd := fun queues_mask index => {r['testDefd']},\n"
                      f"    data := fun queues_mask index => {r['data']},\n"
                      f"    dataDefd := fun queues_mask index => {r['dataDefd']},\n"
                      f"    handler := fun thread_index => {r['handler']}, breaks := {'true' if self.breaks else 'false'} }}")
        out.append(",\n".join(rs))
        out += ["]", ""]
        out.append("def opaqueStmts : List (String × String) := [")
        out.append(",\n".join(f"  ({lean_str(k)}, {lean_str(t)})" for k, t in self.opaque_seen))
        out += ["]", "", f"end {self.name}", ""]
        return out


def gen_handler_new(u, world, repo):
    """`VhostUserHandler::new`: `vrings` has `num_queues` elements; per mask the slice `{index | (mask >> index) & 1 == 1}`;
    worker `thread_id` is `handlers[thread_id]`"""
    params, ret, body = u.method("VhostUserHandler", "new")
    f = Fn(u, world, "VhostUserHandler::new", [], body, self_ty="VhostUserHandler")
    f.base = (("queues_mask", "Nat"), ("index", "Nat"))
    backend_sig(repo, "num_queues", "usize")
    backend_sig(repo, "queues_per_thread", "Vec<u64>")
    OP_LETS = [
        ("backend configuration", r"backend\.max_queue_size\(\)"),
        ("empty vector", r"Vec::new\(\)"),
        ("ring creation (early exit on error)", r"T::Vring::new\(atomic_mem\.clone\(\), max_queue_size as u16\)\.map_err\(VhostUserHandlerError::CreateVring\)\?"),
        ("worker handle", r"handler\.clone\(\)"),
        ("thread creation (early exit on error)", r"thread::Builder::new\(\)\.name\(.*\)\.spawn\(move \|\| handler2\.run\(\)\)\.map_err\(VhostUserHandlerError::SpawnVringWorker\)\?"),
    ]
    stmts = parse_block(prep(body, f.where()), f.where())
    st = dict(vrings_len=None, keep=None, worker=None, pushes=[], vecs=set())
    it = iter(stmts)

    def expect_let(s, name, rx_kind=None):
        f.cur = s
        if s.op != "let" or s.args[0] != name:
            f.fail(f"expected `let {name} = ..`")
        return unparen(s.args[1])

    def is_for(s):
        return s.op in ("stmt", "tail") and s.args[0].op == "match" and is_call(s.args[0].args[0], "__for")

    k = 0
    while k < len(stmts):
        s = stmts[k]
        f.cur = s
        e = unparen(s.args[1] if s.op == "let" else s.args[0])
        if s.op == "let" and norm(e) == "backend.num_queues()":
            f.locals[s.args[0]] = nat("num_queues", 64)
            st["nq_name"] = s.args[0]
        elif s.op == "let" and norm(e) == "backend.queues_per_thread()":
            f.locals[s.args[0]] = opaque("masks")
            st["masks_name"] = s.args[0]
        elif s.op == "let" and f.opaque_kind(OP_LETS, e):
            if norm(e) == "Vec::new()":
                st["vecs"].add(s.args[0])
            f.locals[s.args[0]] = opaque(norm(e))
        elif is_for(s) and norm(e.args[0].args[1]) == "0..num_queues" and _pat(e.args[1][0][0]) == "_":
            # for _ in 0..num_queues { let vring = <creation>?; vrings.push(vring); }
            rng = unparen(e.args[0].args[1])
            lo, hi = f.tr(rng.args[1], 64), f.tr(rng.args[2], 64)
            b = e.args[1][0][2].args
            f.cur = b[0] if b else s
            if not (len(b) == 2 and b[0].op == "let" and f.opaque_kind(OP_LETS, unparen(b[0].args[1])) and
                    norm(b[1]) == f"vrings.push({b[0].args[0]});" and "vrings" in st["vecs"]):
                f.fail("the ring-creation loop is not `let vring = <creation>?; vrings.push(vring);`")
            f.opaque_seen.append(("vector push", norm(b[1])))
            st["vrings_len"] = f"({hi.e} - {lo.e})"
        elif is_for(s) and norm(e.args[0].args[1]) == "queues_per_thread.iter().enumerate()":
            if _pat(e.args[1][0][0]) != "(thread_id, queues_mask)" or st["vrings_len"] is None:
                f.fail("worker loop pattern / order")
            f.locals["queues_mask"] = nat("queues_mask", 64)
            f.locals["thread_id"] = nat("thread_id", 64)
            for b in e.args[1][0][2].args:
                f.cur = b
                be = unparen(b.args[1] if b.op == "let" else b.args[0])
                if b.op == "let" and norm(be) == "Vec::new()":
                    st["vecs"].add(b.args[0])
                    f.opaque_kind(OP_LETS, be)
                elif is_for(b) and norm(be.args[0].args[1]) == "vrings.iter().enumerate()":
                    if _pat(be.args[1][0][0]) != "(index, vring)":
                        f.fail("slice loop pattern")
                    f.locals["index"] = nat("index", 64)
                    bb = be.args[1][0][2].args
                    ok = len(bb) == 1 and bb[0].op in ("stmt", "tail") and bb[0].args[0].op == "if" and \
                        bb[0].args[0].args[0].op != "iflet" and bb[0].args[0].args[2] is None and \
                        norm(bb[0].args[0].args[1]) == "{ thread_vrings.push(vring.clone()); }" and "thread_vrings" in st["vecs"]
                    if not ok:
                        f.fail("the slice loop is not `if cond { thread_vrings.push(vring.clone()); }`")
                    f.cur = bb[0]
                    cv = f.tr(bb[0].args[0].args[0])
                    if cv.kind != "bool":
                        f.fail("slice condition")
                    st["keep"] = (cv.e, cv.d or "true", norm(bb[0].args[0].args[0]))
                    f.opaque_seen.append(("vector push", "thread_vrings.push(vring.clone());"))
                elif b.op == "let" and b.args[0] == "handler":
                    m = re.match(r"Arc::new\(VringEpollHandler::new\(backend\.clone\(\), thread_vrings, (.*)\)\.map_err\(VhostUserHandlerError::CreateEpollHandler\)\?\)$", norm(be))
                    if not m or st["keep"] is None:
                        f.fail("worker creation is not `Arc::new(VringEpollHandler::new(backend.clone(), thread_vrings, <id>).map_err(..)?)`")
                    tid = f.tr(unparen(unparen(unparen(be.args[1]).args[0]).args[0]).args[3], 64)
                    st["worker"] = tid.e
                    f.opaque_seen.append(("worker creation (early exit on error)", norm(be)))
                elif b.op == "let" and f.opaque_kind(OP_LETS, be):
                    pass
                elif b.op == "stmt" and re.match(r"(handlers|worker_threads)\.push\((handler|worker_thread)\);$", norm(b)):
                    st["pushes"].append(norm(b))
                    f.opaque_seen.append(("vector push", norm(b)))
                else:
                    f.fail("unsupported statement in the worker loop")
            if st["pushes"] != ["handlers.push(handler);", "worker_threads.push(worker_thread);"] or st["worker"] is None:
                f.fail("the worker loop does not push exactly one handler and one thread per mask")
        elif s.op == "tail" and k == len(stmts) - 1 and is_call(e, "Ok") and unparen(e.args[1]).op == "struct":
            fl = [x for x, _ in unparen(e.args[1]).args[1]]
            lit_ = dict(unparen(e.args[1]).args[1])
            for nm in ("num_queues", "queues_per_thread", "handlers", "vrings"):
                if nm not in lit_ or norm(lit_[nm]) != nm:
                    f.fail(f"the handler is not built with `{nm}` as computed above")
            f.opaque_seen.append(("handler state", "Ok(VhostUserHandler { num_queues, queues_per_thread, handlers, vrings, .. })"))
        else:
            f.fail("unsupported statement")
        k += 1
    f.cur = None
    if st["keep"] is None or st["worker"] is None:
        f.fail("worker loop not found")
    keep, keepd, ksrc = st["keep"]
    out = [f"/-! ### `{f.qual}` ({u.rel}) -/", "namespace new", "",
           f"/-- `{ksrc}` (`index: usize` from `enumerate`) -/",
           f"def keep (queues_mask index : Nat) : Bool := {keep}",
           f"def keep.defd (queues_mask index : Nat) : Bool := {keepd}", "",
           "/-- `vrings.len()`: one `push` per value of `0..num_queues` -/",
           f"def vrings_len (num_queues : Nat) : Nat := {st['vrings_len']}", "",
           "/-- the vring slice of one worker: `for (index, vring) in vrings.iter().enumerate() { if keep { push } }` -/",
           "def slice : FilterLoop := {",
           f"  src := {lean_str('for (index, vring) in vrings.iter().enumerate() { if ' + ksrc + ' { thread_vrings.push(vring.clone()); } }')},",
           "  len := vrings_len, keep := keep, keepDefd := keep.defd }", "",
           "/-- the `thread_id` handed to `VringEpollHandler::new` for the mask at enumeration index `thread_id` -/",
           f"def worker_id (thread_id : Nat) : Nat := {st['worker']}", "",
           "/-- position in `handlers` of the worker built for the mask at enumeration index `thread_id` (exactly one",
           "`handlers.push(handler)` per iteration, no iteration skipped: every exit from the loop body is an error return) -/",
           "def handler_pos (thread_id : Nat) : Nat := thread_id", "",
           "def opaqueStmts : List (String × String) := [",
           ",\n".join(f"  ({lean_str(k_)}, {lean_str(t_)})" for k_, t_ in f.opaque_seen), "]", "", "end new", ""]
    return out


def gen_initialize_vring(u, world):
    params, ret, body = u.method("VhostUserHandler", "initialize_vring")
    f = Fn(u, world, "VhostUserHandler::initialize_vring", [], body, self_ty="VhostUserHandler")
    f.base = (("index", "Nat"),)
    if [p for p, _ in params] != ["vring", "index"] or params[1][1] not in INT_BITS:
        f.fail(f"parameter list changed: {params}")
    f.locals["index"] = nat("index", INT_BITS[params[1][1]])
    stmts = parse_block(prep(body, f.where()), f.where())
    callee = None
    for k, s in enumerate(stmts):
        f.cur = s
        if s.op == "stmt" and f.opaque_kind(H_OPAQUE_STMTS, s):
            continue
        e = unparen(s.args[0])
        if s.op == "tail" and k == len(stmts) - 1 and e.op == "mcall" and norm(e.args[0]) == "self" and \
                e.args[1] == "update_vring_registration" and len(e.args) == 4 and norm(e.args[2]) == "vring":
            v = f.tr(e.args[3], INT_BITS[params[1][1]])
            if v.kind != "nat" or v.d is not None:
                f.fail("index argument")
            callee = (e.args[1], v.e)
        else:
            f.fail("unsupported statement")
    if callee is None:
        f.fail("no delegation to update_vring_registration")
    return [f"/-! ### `{f.qual}` ({u.rel}): sets the ring ready, then delegates -/", "namespace initialize_vring", "",
            f"def delegates : String := {lean_str(callee[0])}",
            f"/-- the `index` argument of the delegated call -/",
            f"def index_arg (index : Nat) : Nat := {callee[1]}", "",
            "def opaqueStmts : List (String × String) := [",
            ",\n".join(f"  ({lean_str(k_)}, {lean_str(t_)})" for k_, t_ in f.opaque_seen), "]", "", "end initialize_vring", ""]


ROUTE_FNS = ("update_vring_registration", "unregister_vring_kick")
ROUTE_CALLEES = ROUTE_FNS + ("initialize_vring",)
ARITH_MARKERS = ("queues_mask", "count_ones", "trailing_zeros", "leading_zeros", "count_zeros", "queues_per_thread")


def all_methods(u):
    for tr, ty, d, _ in u.impls:
        for name, (params, ret, body) in d.items():
            yield tr, ty, name, params, body


def scan_occurrences(u, handled):
    """every function of the file that mentions the mask arithmetic must be one of the functions translated"""
    for tr, ty, name, params, body in all_methods(u):
        txt = [t.text for t in body]
        hit = [m for m in ARITH_MARKERS if m in txt]
        for k, t in enumerate(txt):
            if t == ">>" and k > 0 and body[k - 1].kind in ("ident", "int") or (t == ">>" and k > 0 and txt[k - 1] == ")"):
                hit.append(">>")
        if hit and name not in handled:
            raise Untranslatable(f"{u.rel}: fn {ty}::{name}: mentions {sorted(set(hit))} but is not one of the functions "
                                 f"whose queue-mask arithmetic is translated ({', '.join(sorted(handled))})")


def call_sites(u, world):
    """`self.<callee>(vring, ARG)` in every method of the file: ARG as a function of the caller's `index`"""
    rows = []
    for tr, ty, name, params, body in all_methods(u):
        k = 0
        while k + 4 < len(body):
            if body[k].text == "self" and body[k + 1].text == "." and body[k + 2].text in ROUTE_CALLEES and body[k + 3].text == "(":
                c = match_close(body, k + 3)
                where = f"{u.rel}: fn {ty}::{name}: call of {body[k + 2].text} at line {body[k].line}"
                args = parse_expr([Tok("ident", "__args", 0), Tok("punct", "(", 0)] + list(body[k + 4:c]) + [Tok("punct", ")", 0)], where).args[1:]
                want = 2
                if len(args) != want or norm(args[0]) != "vring":
                    raise Untranslatable(f"{where}: arguments are not `(vring, <index>)`")
                a = unparen(args[1])
                # the type of `index` in the caller: a parameter, or the `usize` of `enumerate()`
                pty = dict(params).get("index")
                if pty is None:
                    if any(body[j].text == "enumerate" for j in range(len(body))):
                        pty = "usize"
                    else:
                        raise Untranslatable(f"{where}: cannot type `index`")
                if pty not in INT_BITS:
                    raise Untranslatable(f"{where}: `index: {pty}`")
                f = Fn(u, world, f"{ty}::{name}", [], body)
                f.base = (("index", "Nat"),)
                f.locals["index"] = nat("index", INT_BITS[pty])
                v = f.tr(a)
                if v.kind != "nat" or v.d is not None:
                    raise Untranslatable(f"{where}: index argument `{norm(a)}`")
                rows.append((name, body[k + 2].text, norm(a), pty, v.e, v.bits))
                k = c
            k += 1
    return rows



class PlainFn(Fn):
    """inputs are plain binders (no `In` record)"""

    def input(self, name, bits, doc):
        if name not in [n for n, _ in self.base]:
            self.fail(f"input `{name}` is not a binder of the generated definitions")
        return boolean(name) if bits == "bool" else nat(name, bits)


def opaque_list(f):
    return ["def opaqueStmts : List (String × String) := [",
            ",\n".join(f"  ({lean_str(k_)}, {lean_str(t_)})" for k_, t_ in f.opaque_seen), "]", ""]


def gen_ev_new(u, world, repo):
    params, ret, body = u.method("VringEpollHandler", "new")
    f = PlainFn(u, world, "VringEpollHandler::new", [], body, self_ty="VringEpollHandler")
    f.base = (("num_queues", "Nat"),)
    f.inputs_table = {"backend.num_queues()": ("num_queues", 64, "")}
    backend_sig(repo, "num_queues", "usize")
    if [p for p, _ in params] != ["backend", "vrings", "thread_id"]:
        f.fail(f"parameter list changed: {params}")
    OP = [("epoll creation (early exit on error)", r"Epoll::new\(\)\.map_err\(VringEpollError::EpollCreateFd\)\?"),
          ("exit event of the backend", r"backend\.exit_event\(thread_id\)")]
    stmts = parse_block(prep(body, f.where()), f.where())
    data = None
    for k, s in enumerate(stmts):
        f.cur = s
        e = unparen(s.args[1] if s.op == "let" else s.args[0])
        if s.op == "let" and f.opaque_kind(OP, e):
            f.locals[s.args[0]] = opaque(norm(e))
        elif s.op == "let" and s.args[0] == "exit_event_fd" and e.op == "if" and e.args[0].op == "iflet":
            c, th, el = e.args
            if _pat(c.args[0]) != "Some((consumer, notifier))" or norm(c.args[1]) != "exit_event_fd" or \
                    el is None or norm(el) != "{ None }":
                f.fail("exit event registration: `if let Some((consumer, notifier)) = exit_event_fd { .. } else { None }`")
            b = th.args
            if not (len(b) == 3 and b[0].op == "let" and b[1].op == "stmt" and norm(b[2]) == "Some(notifier)"):
                f.fail("exit event registration: body")
            f.cur = b[0]
            f.do_let_arith(b[0])
            f.cur = b[1]
            call = unparen(b[1].args[0])
            m = call
            ok = m.op == "try" and unparen(m.args[0]).op == "mcall" and unparen(m.args[0]).args[1] == "map_err"
            if ok:
                ctl = unparen(unparen(m.args[0]).args[0])
                ok = ctl.op == "mcall" and norm(ctl.args[0]) == "epoll" and ctl.args[1] == "ctl" and len(ctl.args) == 5 and \
                    norm(ctl.args[2]) == "ControlOperation::Add" and norm(ctl.args[3]) == "consumer.into_raw_fd()" and \
                    is_call(unparen(ctl.args[4]), "EpollEvent", "new") and len(unparen(ctl.args[4]).args) == 3 and \
                    norm(unparen(ctl.args[4]).args[1]) == "EventSet::IN"
            if not ok:
                f.fail("exit event registration is not `epoll.ctl(ControlOperation::Add, consumer.into_raw_fd(), EpollEvent::new(EventSet::IN, <id>)).map_err(..)?`")
            v = f.tr(unparen(ctl.args[4]).args[2], 64)
            if v.kind != "nat" or v.bits != 64 or v.d is not None:
                f.fail("exit event id")
            data = v.e
            f.opaque_seen.append(("epoll call (exit event)", norm(ctl)))
        elif s.op == "tail" and k == len(stmts) - 1 and is_call(e, "Ok") and unparen(e.args[1]).op == "struct":
            lit_ = dict(unparen(e.args[1]).args[1])
            for nm in ("vrings", "thread_id", "exit_event_fd", "backend", "epoll"):
                if nm not in lit_ or norm(lit_[nm]) != nm:
                    f.fail(f"the worker is not built with `{nm}` as given / computed above")
        else:
            f.fail("unsupported statement")
    if data is None:
        f.fail("exit event registration not found")
    out = [f"/-! ### `{f.qual}` ({u.rel}) -/", "namespace worker_new", ""]
    for d in f.defs:
        out += [d, ""]
    out += ["/-- the `data` of the exit event's epoll registration (made iff `backend.exit_event(thread_id)` is `Some`, which is",
            "also when `self.exit_event_fd.is_some()`) -/", f"def exit_data (num_queues : Nat) : Nat := {data}", ""]
    return out + opaque_list(f) + ["end worker_new", ""]


def gen_listener(u, world, repo, name):
    params, ret, body = u.method("VringEpollHandler", name)
    f = PlainFn(u, world, "VringEpollHandler::" + name, [], body, self_ty="VringEpollHandler")
    f.base = (("data", "Nat"), ("num_queues", "Nat"))
    f.inputs_table = {"self.backend.num_queues()": ("num_queues", 64, "")}
    if params != [("fd", "RawFd"), ("ev_type", "EventSet"), ("data", "u64")]:
        f.fail(f"parameter list changed: {params}")
    f.locals["data"] = nat("data", 64)
    stmts = parse_block(prep(body, f.where()), f.where())
    if len(stmts) != 1 or stmts[0].op != "tail" or unparen(stmts[0].args[0]).op != "if":
        f.fail("shape changed (expected a single `if refuse { Err(..) } else { self.<op>(fd, ev_type, data) }`)")
    f.cur = stmts[0]
    c, th, el = unparen(stmts[0].args[0]).args
    if c.op == "iflet" or el is None or el.op != "block" or not norm(th).startswith("{ Err("):
        f.fail("shape changed (refusal branch)")
    cv = f.tr(c)
    if cv.kind != "bool":
        f.fail("condition")
    if len(el.args) != 1:
        f.fail("accept branch")
    call = unparen(el.args[0].args[0])
    want = name.replace("listener", "event")
    if not (call.op == "mcall" and norm(call.args[0]) == "self" and call.args[1] == want and len(call.args) == 5 and
            norm(call.args[2]) == "fd" and norm(call.args[3]) == "ev_type"):
        f.fail(f"accept branch is not `self.{want}(fd, ev_type, <data>)`")
    dv = f.tr(call.args[4], 64)
    if dv.kind != "nat" or dv.d is not None:
        f.fail("data argument")
    return [f"/-! ### `{f.qual}` ({u.rel}) -/", f"namespace {name}", "",
            f"/-- `{norm(c)}`: the listener is refused (`{norm(th)[2:-2]}`) -/",
            f"def refuse (data num_queues : Nat) : Bool := {cv.e}",
            f"def refuse.defd (data num_queues : Nat) : Bool := {cv.d or 'true'}",
            f"/-- otherwise `self.{want}(fd, ev_type, {norm(call.args[4])})` -/",
            f"def pass_data (data num_queues : Nat) : Nat := {dv.e}",
            f"def delegates : String := {lean_str(want)}", "", f"end {name}", ""]


def gen_epoll_op(u, world, name):
    params, ret, body = u.method("VringEpollHandler", name)
    f = PlainFn(u, world, "VringEpollHandler::" + name, [], body, self_ty="VringEpollHandler")
    f.base = (("data", "Nat"),)
    if params != [("fd", "RawFd"), ("ev_type", "EventSet"), ("data", "u64")]:
        f.fail(f"parameter list changed: {params}")
    f.locals["data"] = nat("data", 64)
    stmts = parse_block(prep(body, f.where()), f.where())
    if len(stmts) != 1 or stmts[0].op != "tail":
        f.fail("shape changed (expected a single `self.epoll.ctl(..)`)")
    f.cur = stmts[0]
    ctl = unparen(stmts[0].args[0])
    ok = ctl.op == "mcall" and norm(ctl.args[0]) == "self.epoll" and ctl.args[1] == "ctl" and len(ctl.args) == 5 and \
        re.match(r"ControlOperation::(Add|Delete|Modify)$", norm(ctl.args[2])) and norm(ctl.args[3]) == "fd" and \
        is_call(unparen(ctl.args[4]), "EpollEvent", "new") and len(unparen(ctl.args[4]).args) == 3 and \
        norm(unparen(ctl.args[4]).args[1]) == "ev_type"
    if not ok:
        f.fail("not `self.epoll.ctl(ControlOperation::<Op>, fd, EpollEvent::new(ev_type, <data>))`")
    dv = f.tr(unparen(ctl.args[4]).args[2], 64)
    if dv.kind != "nat" or dv.d is not None:
        f.fail("data argument")
    return [f"/-! ### `{f.qual}` ({u.rel}) -/", f"namespace {name}", "",
            f"def epoll_op : String := {lean_str(norm(ctl.args[2]))}",
            "/-- the `data` stored with the epoll registration -/",
            f"def epoll_data (data : Nat) : Nat := {dv.e}", "", f"end {name}", ""]


def gen_run(u, world):
    params, ret, body = u.method("VringEpollHandler", "run")
    f = PlainFn(u, world, "VringEpollHandler::run", [], body, self_ty="VringEpollHandler")
    f.base = (("data", "Nat"),)
    f.inputs_table = {"event.data()": ("data", 64, "")}
    OP_LETS = [
        ("event buffer size", r"\d+"),
        ("event buffer", r"vec!\(.*\)"),
        ("epoll wait (retried on EINTR; any other error ends the worker)",
         r"match self\.epoll\.wait\(-1, &events\[\.\.\]\) \{ Ok\(res\) => res, Err\(e\) => \{ if e\.kind\(\) == io::ErrorKind::Interrupted \{ continue; \} return Err\(VringEpollError::EpollWait\(e\)\); \} \}"),
        ("event set decoding (an unknown set is skipped)",
         r"match EventSet::from_bits\(event\.events\) \{ Some\(evset\) => evset, None => \{ let evbits = event\.events; println!\(.*\); continue; \} \}"),
    ]
    st = dict(arg=None, loops=0, fors=0)

    def walk(stmts, depth):
        for k, s in enumerate(stmts):
            f.cur = s
            e = unparen(s.args[1] if s.op == "let" else s.args[0])
            if s.op == "let" and f.opaque_kind(OP_LETS, e):
                f.locals[s.args[0]] = opaque(norm(e)[:30])
            elif s.op == "let" and depth == 2:
                f.do_let_arith(s)
            elif s.op in ("stmt", "tail") and e.op == "match" and is_call(e.args[0], "__loop") and depth == 0:
                st["loops"] += 1
                st["label"] = norm(e.args[0].args[1]) if len(e.args[0].args) > 1 else None
                walk(e.args[1][0][2].args, 1)
            elif s.op in ("stmt", "tail") and e.op == "match" and is_call(e.args[0], "__for") and depth == 1:
                if norm(e.args[0].args[1]) != "events.iter().take(num_events)" or _pat(e.args[1][0][0]) != "event":
                    f.fail("the event loop is not `for event in events.iter().take(num_events)`")
                st["fors"] += 1
                walk(e.args[1][0][2].args, 2)
            elif s.op in ("stmt", "tail") and e.op == "if" and depth == 2 and e.args[0].op != "iflet" and e.args[2] is None:
                c = unparen(e.args[0])
                ok = c.op == "try" and unparen(c.args[0]).op == "mcall" and norm(unparen(c.args[0]).args[0]) == "self" and \
                    unparen(c.args[0]).args[1] == "handle_event" and len(unparen(c.args[0]).args) == 4 and \
                    norm(unparen(c.args[0]).args[3]) == "evset" and \
                    norm(e.args[1]) == "{ __break_%s; }" % st.get("label")
                if not ok or st["arg"] is not None:
                    f.fail("not `if self.handle_event(<id>, evset)? { break '<outer loop>; }`")
                v = f.tr(unparen(c.args[0]).args[2], 16)
                if v.kind != "nat" or v.bits != 16 or v.d is not None:
                    f.fail("the event id handed to handle_event is not a defined u16")
                st["arg"] = v.e
                f.opaque_seen.append(("dispatch (a `true` result ends the worker)", norm(e).replace("__break_", "break '")))
            elif s.op == "tail" and depth == 0 and k == len(stmts) - 1 and norm(e) == "Ok(())":
                pass
            else:
                f.fail("unsupported statement")
    walk(parse_block(prep(body, f.where()), f.where()), 0)
    f.cur = None
    if st["arg"] is None or st["loops"] != 1 or st["fors"] != 1:
        f.fail("dispatch of the event not found")
    out = [f"/-! ### `{f.qual}` ({u.rel}): `data` = `event.data()` (u64) of one epoll event -/", "namespace run", ""]
    for d in f.defs:
        out += [d, ""]
    out += ["/-- the first argument of `self.handle_event(.., evset)` -/", f"def dispatch_arg (data : Nat) : Nat := {st['arg']}", ""]
    return out + opaque_list(f) + ["end run", ""]


def gen_handle_event(u, world, repo):
    params, ret, body = u.method("VringEpollHandler", "handle_event")
    f = Fn(u, world, "VringEpollHandler::handle_event", [p for p in params if p[0] == "device_event"], body,
           self_ty="VringEpollHandler")
    if params != [("device_event", "u16"), ("evset", "EventSet")]:
        f.fail(f"parameter list changed: {params}")
    backend_sig(repo, "num_queues", "usize")
    if not u.field_ty("VringEpollHandler", "vrings").startswith("Vec<"):
        f.fail("VringEpollHandler.vrings is not a Vec")
    f.inputs_table = {
        "self.exit_event_fd.is_some()": ("has_exit", "bool", "`self.exit_event_fd.is_some()`"),
        "self.backend.num_queues()": ("num_queues", 64, "`self.backend.num_queues()` (usize)"),
        "self.vrings.len()": ("vrings_len", 64, "`self.vrings.len()`"),
    }
    RING = [
        ("ring state (an event of a stopped ring is dropped)", r"if !vring\.get_ref\(\)\.get_queue\(\)\.ready\(\) \{ return Ok\(false\); \}"),
        ("kick read (early exit on error)", r"let enabled = vring\.read_kick\(\)\.map_err\(VringEpollError::HandleEventReadKick\)\?;"),
        ("ring state (an event of a disabled ring is dropped)", r"if !enabled \{ return Ok\(false\); \}"),
    ]
    extra = []
    st = dict(ring=None, backend=None)

    def on_other(s):
        e = unparen(s.args[1] if s.op == "let" else s.args[0])
        if s.op == "stmt" and e.op == "if" and e.args[0].op != "iflet" and e.args[2] is None and st["ring"] is None:
            cv = f.tr(e.args[0])
            if cv.kind != "bool" or cv.d is not None:
                f.fail("ring test")
            b = e.args[1].args
            f.cur = b[0] if b else s
            first = unparen(b[0].args[1]) if b and b[0].op == "let" else None
            if first is None or first.op != "ref" or unparen(first.args[0]).op != "index" or \
                    norm(unparen(first.args[0]).args[0]) != "self.vrings":
                f.fail("the ring branch does not start with `let vring = &self.vrings[<index>];`")
            iv = f.tr(unparen(first.args[0]).args[1], 64)
            if iv.kind != "nat" or iv.bits != 64:
                f.fail("ring index")
            ln = f.tr(parse_expr(tokenize("self.vrings.len()"), f.where()))
            for x in b[1:]:
                f.cur = x
                if not f.opaque_kind(RING, x):
                    f.fail("unsupported statement in the ring branch")
            extra.append(f"/-- `{norm(e.args[0])}`: the event belongs to a ring of this worker -/\n"
                         f"def is_ring (x : In) : Bool := {cv.e}")
            extra.append(f"/-- `{norm(first)}` -/\ndef ring_index (x : In) : Nat := {iv.e}\n"
                         "/-- the index arithmetic is defined and `Vec`'s bounds check passes -/\n"
                         f"def ring_index.defd (x : In) : Bool := {d_and(iv.d, f'(decide ({iv.e} < {ln.e}))')}")
            st["ring"] = True
            return True
        if s.op == "stmt" and e.op == "try" and st["ring"] and st["backend"] is None:
            m = unparen(e.args[0])
            c = unparen(m.args[0]) if m.op == "mcall" and m.args[1] == "map_err" else None
            ok = c is not None and c.op == "mcall" and norm(c.args[0]) == "self.backend" and c.args[1] == "handle_event" and \
                len(c.args) == 6 and norm(c.args[3]) == "evset" and norm(c.args[4]) == "&self.vrings" and \
                norm(c.args[5]) == "self.thread_id"
            if not ok:
                f.fail("not `self.backend.handle_event(<id>, evset, &self.vrings, self.thread_id).map_err(..)?`")
            v = f.tr(c.args[2], 16)
            if v.kind != "nat" or v.bits != 16 or v.d is not None:
                f.fail("the event id handed to the backend is not a defined u16")
            extra.append(f"/-- the `device_event` the backend's `handle_event` sees -/\ndef backend_event (x : In) : Nat := {v.e}")
            f.opaque_seen.append(("backend callback (early exit on error)", norm(c)))
            st["backend"] = True
            return True
        return False

    def on_tail(e):
        if norm(e) != "Ok(false)" or not st["backend"]:
            f.fail("the function does not end in the backend callback followed by `Ok(false)`")
    exec_simple(f, parse_block(prep(body, f.where()), f.where()), on_tail, on_other=on_other)
    f.cur = None
    if not st["ring"] or not st["backend"] or len(f.guards) != 1:
        f.fail("exit test / ring branch / backend callback not found")
    return f.lean("handle_event", "guard 0 = exit event (`return Ok(true)`), then the ring test, then the backend callback",
                  [f.guards_def()] + extra)


def _gen_routing(world, repo):
    uh = Unit(repo, REL_HANDLER)
    ue = Unit(repo, REL_EVLOOP)
    scan_occurrences(uh, set(ROUTE_FNS) | {"new"})
    scan_occurrences(ue, set())
    out = gen_header("Queue -> event id arithmetic, worker slices, listener and dispatch decisions of the daemon (" +
                     REL_HANDLER + ", " + REL_EVLOOP + ");")
    out += ["namespace Gen.RoutingOps", "open ArithSig", ""]
    out += gen_handler_new(uh, world, repo)
    for name in ROUTE_FNS:
        out += RouteFn(uh, world, name, repo).emit()
    out += gen_initialize_vring(uh, world)
    out += ["/-- every occurrence of the mask arithmetic in front of an epoll call, in source order -/",
            "def routeRows : List RouteRow := " + " ++ ".join(f"{n}.rows" for n in ROUTE_FNS), ""]
    cs = call_sites(uh, world)
    if not cs:
        raise Untranslatable(f"{REL_HANDLER}: no call of {', '.join(ROUTE_CALLEES)} found")
    out += ["/-- every call `self.<callee>(vring, ARG)` of the three functions above: (caller, callee, ARG as written, type of the",
            "caller's `index`, bits of that type, ARG as a function of `index`) -/",
            "def callSites : List (String × String × String × String × Nat × (Nat → Nat)) := ["]
    out.append(",\n".join(f"  ({lean_str(c)}, {lean_str(ce)}, {lean_str(a)}, {lean_str(t)}, {INT_BITS[t]}, fun index => {e})"
                          for c, ce, a, t, e, b in cs))
    out += ["]", ""]
    out += gen_ev_new(ue, world, repo)
    for name in ("register_listener", "unregister_listener"):
        out += gen_listener(ue, world, repo, name)
    for name in ("register_event", "unregister_event"):
        out += gen_epoll_op(ue, world, name)
    out += gen_run(ue, world)
    out += gen_handle_event(ue, world, repo)
    out.append("end Gen.RoutingOps")
    return "\n".join(out) + "\n"


gen_routing = guarded(_gen_routing, REL_HANDLER + " / " + REL_EVLOOP)


def generators(repo):
    gs = [("BitmapOps", gen_bitmap), ("RoutingOps", gen_routing), ("MemOps", gen_mem)]
    for _, g in gs:
        g.repo = repo
    return gs
